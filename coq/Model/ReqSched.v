(** M12s — the request manager COMPOSED with the row-level scheduler: the
    executable model behind the atomicity / linearizability part of C12.

    A product of the two existing models with glue, not a rewrite:
      [rs_req]  the request manager of Model/ReqMgr.v (request_manager.go +
                ExecuteSQL / ExecuteSQLForTxnTh), stepped by [rstep];
      [rs_db]   the strict-2PL / no-wait row store of Model/Sched.v (the
                executors over lock manager and transaction manager), stepped
                by [sstep].
    Glue (lib/samehada/samehada.go, ExecuteSQLRetValues):
      - every request [id] carries a STATEMENT, a fixed list of row operations
        ([RqRead x | RqWrite x v]; table [rs_stmts], an unknown id has the empty
        statement);
      - [Dispatch] starts a worker goroutine; the worker's
        [transactionManager.Begin(nil)] takes the next transaction id from the
        global counter ([rs_next]; nextTxnID += 1 under the manager's mutex).
        So every ATTEMPT of a request is a fresh transaction; [rs_atts] records
        (transaction id, request id), newest first.  Begin has no effect on the
        row store, so it is merged into the dispatch;
      - [RsExec id]: the worker running the current attempt of request [id]
        performs its NEXT row operation through [sstep] ([execEngine.Execute]);
        when no operation is left its next action is
        [TransactionManager.Commit] ([SCommit]).  When an operation is denied
        its lock, [sstep] aborts and rolls the attempt back
        ([txn.GetState() == ABORTED] -> [TransactionManager.Abort]); the worker
        is then [RqDenied] and can only send the QueryAbortedErr marker;
      - [WorkerFinish id Ok] needs a committed attempt, [WorkerFinish id
        Aborted] a denied one (the composition removes the request manager's
        free choice of the outcome).  The result that travels in the reqResult
        is the list of values the committed attempt read; [rs_results] holds it
        per request id (the message [Result id Ok] of ReqMgr.v carries the id).
    Ghost fields ([rs_st0], [rs_ops], [rs_trace]) record the initial store, the
    scheduler operations performed so far and the scheduler events emitted so
    far; they are never read by [rs_step].
    Model only: no proofs here. *)
From Coq Require Import List NArith Bool.
From SDB Require Import Params Base.Assoc Model.Lock Model.Sched Model.ReqMgr.
Import ListNotations.
Open Scope N_scope.

(** A row operation of a statement. *)
Inductive rwop :=
| RqRead (x : N)
| RqWrite (x v : N).

(** The scheduler operation that attempt [t] issues for it. *)
Definition rs_op (t : N) (o : rwop) : sop :=
  match o with RqRead x => SRead t x | RqWrite x v => SWrite t x v end.

Inductive rq_status :=
| RqRunning                          (* inside execEngine.Execute / before Commit *)
| RqDenied                           (* a lock was denied: aborted and rolled back *)
| RqCommitted.                       (* TransactionManager.Commit done             *)

(** A running worker goroutine (one per dispatched request). *)
Record rq_worker := mkRqW {
  rq_tid   : N;                      (* transaction id of this attempt             *)
  rq_rem   : list rwop;              (* operations still to be performed           *)
  rq_reads : list N;                 (* values read so far, oldest first           *)
  rq_st    : rq_status
}.

Record rs_state := mkRS {
  rs_req     : rstate;               (* the request manager                        *)
  rs_db      : sstate;               (* lock manager + row store + undo            *)
  rs_stmts   : list (N * list rwop); (* request id -> its statement                *)
  rs_next    : N;                    (* next transaction id                        *)
  rs_atts    : list (N * N);         (* attempt (txn id) -> request id, newest first *)
  rs_wk      : list (N * rq_worker); (* request id -> its running worker           *)
  rs_results : list (N * list N);    (* request id -> result of its committed run  *)
  rs_st0     : list (N * N);         (* ghost: the initial row store               *)
  rs_ops     : list sop;             (* ghost: scheduler operations so far         *)
  rs_trace   : list event            (* ghost: scheduler events so far             *)
}.

Definition rs_init (c m r : N) (st0 : list (N * N)) (stmts : list (N * list rwop)) : rs_state :=
  mkRS (rinit c m r) (sinit st0) stmts 1 [] [] [] st0 [] [].

Definition rs_init_real (st0 : list (N * N)) (stmts : list (N * list rwop)) : rs_state :=
  rs_init req_chan_capacity max_txn_thread_num reply_chan_capacity st0 stmts.

Inductive rs_label :=
| RsReq (l : label)                  (* a step of the request manager              *)
| RsExec (id : N).                   (* the worker of request [id] does its next
                                        row operation, or commits                  *)

Definition rs_stmt (s : rs_state) (id : N) : list rwop := agetl (rs_stmts s) id.

(** The request a [Dispatch] in state [r] hands to a new worker, if any. *)
Definition rs_dispatched (r : rstate) : option N :=
  match loop r, queue r with
  | Dispatching, h :: _ => if inflight r <? maxw r then Some h else None
  | _, _ => None
  end.

Definition rs_with_req (s : rs_state) (r : rstate) : rs_state :=
  mkRS r (rs_db s) (rs_stmts s) (rs_next s) (rs_atts s) (rs_wk s) (rs_results s)
       (rs_st0 s) (rs_ops s) (rs_trace s).

(** The scheduler operation a running worker performs next. *)
Definition rs_next_op (w : rq_worker) : sop :=
  match rq_rem w with
  | [] => SCommit (rq_tid w)
  | o :: _ => rs_op (rq_tid w) o
  end.

(** The worker after that operation emitted [evs]: a read returns its value, a
    write goes on, anything else (the abort event of a denied lock request)
    leaves the worker denied. *)
Definition rs_after (w : rq_worker) (evs : list event) : rq_worker :=
  match rq_rem w, evs with
  | [], _ => mkRqW (rq_tid w) [] (rq_reads w) RqCommitted
  | RqRead _ :: rest, [EvRead _ _ v] => mkRqW (rq_tid w) rest (rq_reads w ++ [v]) RqRunning
  | RqWrite _ _ :: rest, [EvWrite _ _ _] => mkRqW (rq_tid w) rest (rq_reads w) RqRunning
  | _, _ => mkRqW (rq_tid w) (rq_rem w) (rq_reads w) RqDenied
  end.

Definition rs_exec (s : rs_state) (id : N) : option rs_state :=
  match aget (rs_wk s) id with
  | Some w =>
      match rq_st w with
      | RqRunning =>
          let o := rs_next_op w in
          let r := sstep (rs_db s) o in
          Some (mkRS (rs_req s) (fst r) (rs_stmts s) (rs_next s) (rs_atts s)
                     (aset (rs_wk s) id (rs_after w (snd r))) (rs_results s)
                     (rs_st0 s) (rs_ops s ++ [o]) (rs_trace s ++ snd r))
      | _ => None
      end
  | None => None
  end.

(** Which outcome a worker in a given status may report. *)
Definition rs_may_finish (st : rq_status) (o : outcome) : bool :=
  match st, o with
  | RqCommitted, Ok => true
  | RqDenied, Aborted => true
  | _, _ => false
  end.

Definition rs_step (s : rs_state) (l : rs_label) : option rs_state :=
  match l with
  | RsExec id => rs_exec s id
  | RsReq (WorkerFinish id o) =>
      match aget (rs_wk s) id with
      | Some w =>
          if rs_may_finish (rq_st w) o then
            match rstep (rs_req s) (WorkerFinish id o) with
            | Some r' =>
                Some (mkRS r' (rs_db s) (rs_stmts s) (rs_next s) (rs_atts s)
                           (adel (rs_wk s) id)
                           (match o with
                            | Ok => aset (rs_results s) id (rq_reads w)
                            | Aborted => rs_results s
                            end)
                           (rs_st0 s) (rs_ops s) (rs_trace s))
            | None => None
            end
          else None
      | None => None
      end
  | RsReq Dispatch =>
      match rstep (rs_req s) Dispatch with
      | Some r' =>
          match rs_dispatched (rs_req s) with
          | Some h =>
              Some (mkRS r' (rs_db s) (rs_stmts s) (rs_next s + 1)
                         ((rs_next s, h) :: rs_atts s)
                         (aset (rs_wk s) h (mkRqW (rs_next s) (rs_stmt s h) [] RqRunning))
                         (rs_results s) (rs_st0 s) (rs_ops s) (rs_trace s))
          | None => Some (rs_with_req s r')
          end
      | None => None
      end
  | RsReq l' =>
      match rstep (rs_req s) l' with
      | Some r' => Some (rs_with_req s r')
      | None => None
      end
  end.

Fixpoint rs_run (ls : list rs_label) (s : rs_state) : option rs_state :=
  match ls with
  | [] => Some s
  | l :: r => match rs_step s l with Some s' => rs_run r s' | None => None end
  end.

(** * Projections of a schedule *)

(** Onto the request manager: the [RsReq] labels, in order. *)
Definition rs_rlabels (ls : list rs_label) : list label :=
  flat_map (fun l => match l with RsReq l' => [l'] | RsExec _ => [] end) ls.

(** Onto the scheduler: the operation each label performs in state [s]. *)
Definition rs_label_ops (s : rs_state) (l : rs_label) : list sop :=
  match l with
  | RsExec id =>
      match aget (rs_wk s) id with
      | Some w => match rq_st w with RqRunning => [rs_next_op w] | _ => [] end
      | None => []
      end
  | RsReq _ => []
  end.

Fixpoint rs_sops (ls : list rs_label) (s : rs_state) : list sop :=
  match ls with
  | [] => []
  | l :: r =>
      match rs_step s l with
      | Some s' => rs_label_ops s l ++ rs_sops r s'
      | None => []
      end
  end.

(** * Observations *)

(** The request an attempt belongs to (0 for a transaction id never used). *)
Definition rs_own (s : rs_state) (t : N) : N :=
  match aget (rs_atts s) t with Some id => id | None => 0 end.

(** The attempts of request [id], newest first. *)
Definition rs_attempts (s : rs_state) (id : N) : list N :=
  map fst (filter (fun p => snd p =? id) (rs_atts s)).

(** The values a list of events read, in order. *)
Definition rs_reads_of (p : list event) : list N :=
  flat_map (fun e => match e with EvRead _ _ v => [v] | _ => [] end) p.

(** What the caller [id] has in hand: the reqResult of request [r], i.e. the
    values read by [r]'s committed run. *)
Definition rs_answer (s : rs_state) (id : N) : option (list N) :=
  match aget (callers (rs_req s)) id with
  | Some (CDone r Ok) => aget (rs_results s) r
  | _ => None
  end.

(** The commit order, as request ids. *)
Definition rs_order (s : rs_state) : list N :=
  map (rs_own s) (committed (rs_trace s)).

(** * Serial execution of statements (the reference) *)

(** One statement alone on a store: final store and the values read. *)
Fixpoint rs_exec_stmt (st : list (N * N)) (p : list rwop) : list (N * N) * list N :=
  match p with
  | [] => (st, [])
  | RqRead x :: r =>
      let q := rs_exec_stmt st r in (fst q, sget st x :: snd q)
  | RqWrite x v :: r => rs_exec_stmt (aset st x v) r
  end.

(** The statements of [ids], one after the other: final store and, per
    request, its result. *)
Fixpoint rs_serial (stmts : list (N * list rwop)) (st : list (N * N)) (ids : list N)
    : list (N * N) * list (N * list N) :=
  match ids with
  | [] => (st, [])
  | id :: r =>
      let q := rs_exec_stmt st (agetl stmts id) in
      let q' := rs_serial stmts (fst q) r in
      (fst q', (id, snd q) :: snd q')
  end.

(** [a] comes before [b] in [l]. *)
Definition rs_before (l : list N) (a b : N) : Prop :=
  exists l1 l2 l3, l = l1 ++ a :: l2 ++ b :: l3.

Fixpoint rs_index (l : list N) (a : N) : option nat :=
  match l with
  | [] => None
  | x :: r => if x =? a then Some O
              else match rs_index r a with Some n => Some (S n) | None => None end
  end.

(** Real-time pairs of a schedule: [(a, b)] when [Deliver a] occurs before
    [Enqueue b]. *)
Fixpoint rs_realtime (ls : list rs_label) (delivered : list N) : list (N * N) :=
  match ls with
  | [] => []
  | RsReq (Deliver a) :: r => rs_realtime r (a :: delivered)
  | RsReq (Enqueue b) :: r => map (fun a => (a, b)) delivered ++ rs_realtime r delivered
  | _ :: r => rs_realtime r delivered
  end.

(** * Executable checks (for the non-vacuity examples and for a driver) *)

Definition rs_listN_eqb (a b : list N) : bool :=
  Nat.eqb (length a) (length b) && forallb (fun p => fst p =? snd p) (combine a b).

(** Rows a statement table or a store mentions. *)
Definition rs_rows (s : rs_state) : list N :=
  map fst (rs_st0 s)
  ++ flat_map (fun p => map (fun o => match o with RqRead x | RqWrite x _ => x end) (snd p))
              (rs_stmts s).

(** Rows an attempt that is still running has written. *)
Definition rs_dirty_rows (s : rs_state) : list N :=
  flat_map (fun p => match rq_st (snd p) with
                     | RqRunning =>
                         flat_map (fun e => match e with EvWrite _ x _ => [x] | _ => [] end)
                                  (proj (rq_tid (snd p)) (rs_trace s))
                     | _ => []
                     end) (rs_wk s).

(** The linearization check: serial execution of the statements in commit
    order gives every answered caller the result it holds, gives every request
    that has a recorded result that result, respects every real-time pair of
    the schedule [ls], and ends in the current store on every row that no
    running attempt has written. *)
Definition rs_lin_check (ls : list rs_label) (s : rs_state) : bool :=
  let order := rs_order s in
  let ser := rs_serial (rs_stmts s) (rs_st0 s) order in
  forallb (fun p =>
             match snd p with
             | CDone r Ok =>
                 (r =? fst p) &&
                 match aget (rs_results s) r, aget (snd ser) (fst p) with
                 | Some a, Some b => rs_listN_eqb a b
                 | _, _ => false
                 end
             | CDone _ Aborted => false
             | _ => true
             end) (callers (rs_req s))
  && forallb (fun p =>
                match aget (snd ser) (fst p) with
                | Some b => rs_listN_eqb (snd p) b
                | None => false
                end) (rs_results s)
  && forallb (fun p =>
                match rs_index order (fst p), rs_index order (snd p) with
                | Some i, Some j => Nat.ltb i j
                | None, Some _ => false
                | _, None => true
                end) (rs_realtime ls [])
  && forallb (fun x => memN x (rs_dirty_rows s)
                       || (sget (store (rs_db s)) x =? sget (fst ser) x))
             (rs_rows s).

(** Labels that can fire (other than new callers). *)
Definition rs_enabled (s : rs_state) : list rs_label :=
  flat_map (fun l =>
              match rs_step s (RsReq l) with Some _ => [RsReq l] | None => [] end)
           (enabled (rs_req s))
  ++ flat_map (fun p =>
                 match rq_st (snd p) with RqRunning => [RsExec (fst p)] | _ => [] end)
              (rs_wk s).

(** The commit order restricted to the callers that already hold their answer
    (used to state — and refute — linearizability "by answered calls only"). *)
Definition rs_order_answered (s : rs_state) : list N :=
  filter (fun id => match aget (callers (rs_req s)) id with
                    | Some (CDone _ _) => true
                    | _ => false
                    end) (rs_order s).

(** * Schedules used as witnesses (Props/C12Atomic.v) *)

(** Non-vacuity: three callers over rows 10 and 11, two worker slots.
    Request 1 = "read 10, write 10 := 5", request 2 = "read 10, write 11 := 7",
    request 3 = "read 11, read 10".  Attempt 1 (request 1) is denied the
    upgrade on row 10 (attempt 2 also holds S) and is retried as attempt 3;
    caller 3 calls after caller 2 got its answer; attempt 4 (request 3) is
    denied S on row 10 (attempt 3 holds X) and is retried as attempt 5. *)
Definition rs_demo_st0 : list (N * N) := [(10, 1); (11, 2)].
Definition rs_demo_stmts : list (N * list rwop) :=
  [(1, [RqRead 10; RqWrite 10 5]); (2, [RqRead 10; RqWrite 11 7]); (3, [RqRead 11; RqRead 10])].
Definition rs_demo_schedule : list rs_label :=
  [RsReq (Enqueue 1); RsReq (Enqueue 2); RsReq (SendToken 1); RsReq (SendToken 2);
   RsReq LoopRecv; RsReq Dispatch; RsReq LoopRecv; RsReq Dispatch;
   RsExec 1; RsExec 2; RsExec 1; RsExec 2; RsExec 2;
   RsReq (WorkerFinish 1 Aborted); RsReq (WorkerFinish 2 Ok);
   RsReq LoopRecv; RsReq Dispatch; RsReq LoopRecv; RsReq (Deliver 2); RsReq Dispatch;
   RsReq (Enqueue 3); RsReq (SendToken 3);
   RsExec 1; RsExec 1; RsReq LoopRecv; RsReq Dispatch; RsExec 3; RsExec 3;
   RsReq (WorkerFinish 3 Aborted);
   RsExec 1; RsReq (WorkerFinish 1 Ok); RsReq LoopRecv; RsReq Dispatch; RsReq LoopRecv;
   RsReq (Deliver 1); RsReq Dispatch;
   RsExec 3; RsExec 3; RsExec 3; RsReq (WorkerFinish 3 Ok); RsReq LoopRecv;
   RsReq (Deliver 3); RsReq Dispatch].

(** A running attempt has written row 10 in place and not yet committed. *)
Definition rs_dirty_stmts : list (N * list rwop) := [(1, [RqWrite 10 5; RqRead 10])].
Definition rs_dirty_schedule : list rs_label :=
  [RsReq (Enqueue 1); RsReq (SendToken 1); RsReq LoopRecv; RsReq Dispatch; RsExec 1].

(** Request 1 = "write 10 := 5" has committed but its worker has not reported
    yet; request 2 = "read 10" ran after that commit and is already answered. *)
Definition rs_pending_stmts : list (N * list rwop) := [(1, [RqWrite 10 5]); (2, [RqRead 10])].
Definition rs_pending_schedule : list rs_label :=
  [RsReq (Enqueue 1); RsReq (Enqueue 2); RsReq (SendToken 1); RsReq (SendToken 2);
   RsReq LoopRecv; RsReq Dispatch; RsReq LoopRecv; RsReq Dispatch;
   RsExec 1; RsExec 1; RsExec 2; RsExec 2;
   RsReq (WorkerFinish 2 Ok); RsReq LoopRecv; RsReq (Deliver 2)].

(** Mutual aborts: request 1 = "write 10, write 11", request 2 = "write 11,
    write 10".  After the prefix each holds X on its first row; one round of
    the cycle aborts and restarts first 1, then 2, and ends in the same
    situation (with fresh transaction ids). *)
Definition rs_livelock_stmts : list (N * list rwop) :=
  [(1, [RqWrite 10 7; RqWrite 11 7]); (2, [RqWrite 11 8; RqWrite 10 8])].
Definition rs_livelock_prefix : list rs_label :=
  [RsReq (Enqueue 1); RsReq (Enqueue 2); RsReq (SendToken 1); RsReq (SendToken 2);
   RsReq LoopRecv; RsReq Dispatch; RsReq LoopRecv; RsReq Dispatch; RsExec 1; RsExec 2].
Definition rs_livelock_round : list rs_label :=
  [RsExec 1; RsReq (WorkerFinish 1 Aborted); RsReq LoopRecv; RsReq Dispatch; RsExec 1;
   RsExec 2; RsReq (WorkerFinish 2 Aborted); RsReq LoopRecv; RsReq Dispatch; RsExec 2].
Definition rs_livelock_schedule (n : nat) : list rs_label :=
  rs_livelock_prefix ++ concat (repeat rs_livelock_round n).
