(** Row (tuple) codec — byte-level executable model.  Model only: no proofs here
    (Proofs/TupleCodecProofs.v, Props/C06Tuple.v).

    Mirrors, as the code IS (not as it should be):
    - lib/types/column_type_id.go   TypeID.Size()                      [tc_type_size]
    - lib/storage/table/column/column.go  NewColumn: fixedLength is TypeID.Size() for Integer /
      Float / Boolean (1 NULL-flag byte + 4 / 4 / 1 payload bytes) and 4 for Varchar (a uint32
      pointer into the variable-length area); IsInlined() is "not Varchar"    [tc_fixed_len, tc_inlined]
    - lib/storage/table/schema/schema.go  NewSchema: column offsets are the running uint32 sum of
      the fixed lengths, Length() is the final sum                     [tc_column, tc_schema_len]
    - lib/types/column_value.go  Value.Size, Value.Serialize, NewValueFromBytes   [tc_val_size,
      tc_ser_val, tc_dec_val]: every value is  flag byte (1 = NULL) + payload; Integer = int32
      little endian, Float = the float32 bit pattern little endian (binary.Write/Read of a
      float32 move the bits, nothing is normalised: -0.0 and every NaN pattern keep their
      bits), Boolean = one byte, Varchar = uint16 little-endian length + the bytes.
      The length prefix is [uint16(len(s))]: it WRAPS for strings of 65536 bytes and more,
      while Size() is uint32(len)+3, so the payload area still holds all the bytes.
      The reader computes the end of the string as [*length + 3] IN uint16: for lengths
      65533..65535 that is 0..2, the slice expression data[3:hi] panics.
    - lib/storage/tuple/tuple.go  NewTupleFromSchema [tc_encode_row], GetValue [tc_decode_col],
      GetValueInBytes [tc_get_value_in_bytes] (length read as int16 and sign-extended),
      Size() [tc_tuple_size], Copy [tc_copy].
      Layout: fixed part (one field per column at its offset: the serialised value for an
      inlined column, the uint32 little-endian offset of the payload for a Varchar column)
      followed by the payloads of the Varchar columns in column order.

    The Go code never compares the type of a value with the type of its column; it sizes and
    serialises a value by the VALUE's type and places it by the COLUMN's type.  The model does
    the same: [tc_encode_row] writes into a zeroed buffer with [tc_copy] in column order, so a
    value that is longer than its field overwrites what follows, exactly as [copy] does.
    NULL: the flag byte is 1 and the payload is the zero value (SetNull() resets it; there is no
    other way to obtain a NULL Value from outside package types), a NULL Varchar is 01 00 00.
    [types.NewNull()] is an Integer-typed NULL: [TvNull TcInt].
    [None] = the Go code panics (index out of range, slice bounds out of range).
    uint32 / uint16 arithmetic of the Go code is written [tc_u32] / [tc_u16].
    SerializeTo / DeserializeFrom (the 4-byte size prefix used in log records) are modelled in
    Model/LogCodec.v ([ser_tuple], [get_tuple]). *)
From Coq Require Import List NArith ZArith Bool.
From SDB Require Import Base.Bytes Model.Codec.
Import ListNotations.
Open Scope N_scope.

(** * Types, values *)

Inductive tcol := TcInt | TcFloat | TcBool | TcStr.
Definition tschema := list tcol.

(** [TvInt z]: int32; [TvFloat bits]: float32 by its bit pattern; [TvStr s]: the bytes of the Go
    string; [TvNull ty]: the NULL Value whose valueType is [ty]. *)
Inductive tval :=
| TvInt (z : Z)
| TvFloat (bits : N)
| TvBool (b : bool)
| TvStr (s : list N)
| TvNull (ty : tcol).

Definition tcol_eqb (a b : tcol) : bool :=
  match a, b with
  | TcInt, TcInt | TcFloat, TcFloat | TcBool, TcBool | TcStr, TcStr => true
  | _, _ => false
  end.

Definition tc_u32 (x : N) : N := x mod 4294967296.
Definition tc_u16 (x : N) : N := x mod 65536.
Definition tc_len (l : list N) : N := N.of_nat (length l).

(** TypeID.Size() *)
Definition tc_type_size (ty : tcol) : N :=
  match ty with TcInt => 5 | TcFloat => 5 | TcBool => 2 | TcStr => 0 end.
(** Column.IsInlined(), Column.FixedLength() *)
Definition tc_inlined (ty : tcol) : bool := match ty with TcStr => false | _ => true end.
Definition tc_fixed_len (ty : tcol) : N := match ty with TcStr => 4 | _ => tc_type_size ty end.

Definition tc_val_type (v : tval) : tcol :=
  match v with
  | TvInt _ => TcInt | TvFloat _ => TcFloat | TvBool _ => TcBool | TvStr _ => TcStr
  | TvNull ty => ty
  end.

(** Value.Size(): [uint32(len(s)) + 1 + 2] for a Varchar *)
Definition tc_val_size (v : tval) : N :=
  match v with
  | TvStr s => tc_u32 (tc_u32 (tc_len s) + 3)
  | TvNull TcStr => 3
  | _ => tc_type_size (tc_val_type v)
  end.

Definition tc_bool_byte (b : bool) : N := if b then 1 else 0.

(** Value.Serialize() *)
Definition tc_ser_val (v : tval) : list N :=
  match v with
  | TvInt z => 0 :: le 4 (u32_of_z z)
  | TvFloat u => 0 :: le 4 u
  | TvBool b => [0; tc_bool_byte b]
  | TvStr s => 0 :: le 2 (tc_len s) ++ s              (* uint16(len): le 2 keeps len mod 65536 *)
  | TvNull TcInt => [1; 0; 0; 0; 0]
  | TvNull TcFloat => [1; 0; 0; 0; 0]
  | TvNull TcBool => [1; 0]
  | TvNull TcStr => [1; 0; 0]
  end.

(** * Schema: NewSchema *)

Fixpoint tc_schema_len_from (cols : tschema) (acc : N) : N :=
  match cols with
  | [] => acc
  | c :: cs => tc_schema_len_from cs (tc_u32 (acc + tc_fixed_len c))
  end.
Definition tc_schema_len (sch : tschema) : N := tc_schema_len_from sch 0.

(** type and offset of column [i]; [None] = index out of range *)
Fixpoint tc_column_from (cols : tschema) (i : nat) (acc : N) : option (tcol * N) :=
  match cols, i with
  | [], _ => None
  | c :: _, O => Some (c, acc)
  | c :: cs, S i' => tc_column_from cs i' (tc_u32 (acc + tc_fixed_len c))
  end.
Definition tc_column (sch : tschema) (i : nat) : option (tcol * N) := tc_column_from sch i 0.

(** * NewTupleFromSchema *)

(** [tupleSize := sc.Length(); for uninlined columns: tupleSize += values[colIndex].Size()] *)
Fixpoint tc_size_from (cols : tschema) (vals : list tval) (acc : N) : N :=
  match cols, vals with
  | c :: cs, v :: vs =>
      tc_size_from cs vs (if tc_inlined c then acc else tc_u32 (acc + tc_val_size v))
  | _, _ => acc
  end.

(** Tuple.Size() of the tuple built from [vals]; fewer values than columns: index out of range
    (in the sizing loop or in the serialising loop) *)
Definition tc_tuple_size (sch : tschema) (vals : list tval) : option N :=
  if (length vals <? length sch)%nat then None
  else Some (tc_size_from sch vals (tc_schema_len sch)).

(** Tuple.Copy: [copy(t.data[offset:], data)] — panics if offset > len, copies
    min(len - offset, len(data)) bytes *)
Definition tc_copy (buf : list N) (off : N) (d : list N) : option (list N) :=
  let o := N.to_nat off in
  if (length buf <? o)%nat then None
  else Some (firstn o buf ++ firstn (length buf - o) d ++ skipn (o + length d) buf).

(** the serialising loop; [off] = offset of the current column, [endoff] = tupleEndOffset *)
Fixpoint tc_enc_cols (cols : tschema) (vals : list tval) (off endoff : N) (buf : list N)
  : option (list N) :=
  match cols with
  | [] => Some buf
  | c :: cs =>
      match vals with
      | [] => None
      | v :: vs =>
          let off' := tc_u32 (off + tc_fixed_len c) in
          if tc_inlined c then
            match tc_copy buf off (tc_ser_val v) with
            | None => None
            | Some b1 => tc_enc_cols cs vs off' endoff b1
            end
          else
            match tc_copy buf off (le 4 endoff) with
            | None => None
            | Some b1 =>
                match tc_copy b1 endoff (tc_ser_val v) with
                | None => None
                | Some b2 => tc_enc_cols cs vs off' (tc_u32 (endoff + tc_val_size v)) b2
                end
            end
      end
  end.

(** [NewTupleFromSchema(vals, sch).Data()] *)
Definition tc_encode_row (sch : tschema) (vals : list tval) : option (list N) :=
  match tc_tuple_size sch vals with
  | None => None
  | Some sz => tc_enc_cols sch vals 0 (tc_schema_len sch) (zeros (N.to_nat sz))
  end.

(** * Reading *)

(** [data[lo:hi]] and [data[lo:]] (len = cap for tuple data) *)
Definition tc_slice (data : list N) (lo hi : N) : option (list N) :=
  if (hi <? lo) || (tc_len data <? hi) then None
  else Some (firstn (N.to_nat (hi - lo)) (skipn (N.to_nat lo) data)).
Definition tc_from (data : list N) (lo : N) : option (list N) :=
  if tc_len data <? lo then None else Some (skipn (N.to_nat lo) data).

(** binary.Read of a bool: false on an empty input, else first byte <> 0 *)
Definition tc_flag (data : list N) : bool :=
  match data with [] => false | b :: _ => negb (b =? 0) end.
(** binary.Read of an [n]-byte little-endian word from what is left of the buffer: a short read
    fails and leaves the zero value *)
Definition tc_word (n : nat) (l : list N) : N :=
  if (length l <? n)%nat then 0 else le_dec (firstn n l).

(** NewValueFromBytes(data, ty) *)
Definition tc_dec_val (ty : tcol) (data : list N) : option tval :=
  let null := tc_flag data in
  let rest := tl data in
  match ty with
  | TcInt => Some (if null then TvNull TcInt else TvInt (z_of_u32 (tc_word 4 rest)))
  | TcFloat => Some (if null then TvNull TcFloat else TvFloat (tc_word 4 rest))
  | TcBool => Some (if null then TvNull TcBool else TvBool (negb (tc_word 1 rest =? 0)))
  | TcStr =>
      (* data[1+2 : length + (1 + 2)] where length is a uint16 read through a pointer: the sum is a uint16 *)
      match tc_slice data 3 (tc_u16 (tc_word 2 rest + 3)) with
      | None => None
      | Some s => Some (if null then TvNull TcStr else TvStr s)
      end
  end.

(** where the value of a column starts in [data] (both GetValue and GetValueInBytes):
    [co] = (type, offset of the column's field in the fixed part) *)
Definition tc_value_offset_at (data : list N) (co : tcol * N) : option (tcol * N) :=
  let (ty, off0) := co in
  if tc_inlined ty then Some (ty, off0)
  else
    match tc_slice data off0 (tc_u32 (off0 + 4)) with
    | None => None
    | Some w => Some (ty, le_dec w)
    end.
Definition tc_value_offset (sch : tschema) (data : list N) (i : nat) : option (tcol * N) :=
  match tc_column sch i with
  | None => None
  | Some co => tc_value_offset_at data co
  end.

(** Tuple.GetValue(schema, i) on a tuple whose bytes are [data] *)
Definition tc_decode_col (sch : tschema) (data : list N) (i : nat) : option tval :=
  match tc_value_offset sch data i with
  | None => None
  | Some (ty, off) =>
      match tc_from data off with
      | None => None
      | Some d => tc_dec_val ty d
      end
  end.

Fixpoint tc_sequence {A : Type} (l : list (option A)) : option (list A) :=
  match l with
  | [] => Some []
  | None :: _ => None
  | Some x :: r => match tc_sequence r with None => None | Some xs => Some (x :: xs) end
  end.

(** every column read back, in column order; [None] if one GetValue panics *)
Definition tc_decode_row (sch : tschema) (data : list N) : option (list tval) :=
  tc_sequence (map (tc_decode_col sch data) (seq 0 (length sch))).

(** Tuple.GetValueInBytes(schema, i) (key bytes of the hash index).  The Varchar length is read
    as an int16 and converted with uint32(): sign extension for lengths >= 32768. *)
Definition tc_get_value_in_bytes (sch : tschema) (data : list N) (i : nat) : option (list N) :=
  match tc_value_offset sch data i with
  | None => None
  | Some (ty, off) =>
      match tc_from data off with
      | None => None
      | Some d =>
          let fl := tc_bool_byte (tc_flag d) in
          let rest := tl d in
          match ty with
          | TcInt | TcFloat => Some (fl :: le 4 (tc_word 4 rest))
          | TcBool => Some [fl; tc_bool_byte (negb (tc_word 1 rest =? 0))]
          | TcStr =>
              let l := tc_word 2 rest in
              let lu := if l <? 32768 then l else l + (4294967296 - 65536) in
              match tc_slice data (tc_u32 (off + 3)) (tc_u32 (off + tc_u32 (lu + 3))) with
              | None => None
              | Some s => Some (fl :: le 2 l ++ s)
              end
          end
      end
  end.

(** * The domain of the round-trip theorems (boolean, extracted: the correspondence check
      evaluates them on every generated case) *)

Definition tc_val_ok (v : tval) : bool :=
  match v with
  | TvInt z => ((-2147483648 <=? z) && (z <? 2147483648))%Z
  | TvFloat u => u <? 4294967296
  | TvStr s => bytes_ok s
  | _ => true
  end.

(** sizes without wrap-around *)
Definition tc_val_size_nowrap (v : tval) : N :=
  match v with
  | TvStr s => tc_len s + 3
  | TvNull TcStr => 3
  | _ => tc_type_size (tc_val_type v)
  end.
Fixpoint tc_fixed_total (cols : tschema) : N :=
  match cols with [] => 0 | c :: cs => tc_fixed_len c + tc_fixed_total cs end.
Fixpoint tc_var_total (cols : tschema) (vals : list tval) : N :=
  match cols, vals with
  | c :: cs, v :: vs =>
      (if tc_inlined c then 0 else tc_val_size_nowrap v) + tc_var_total cs vs
  | _, _ => 0
  end.
Definition tc_size_nowrap (sch : tschema) (vals : list tval) : N :=
  tc_fixed_total sch + tc_var_total sch vals.

(** [tc_compat c v]: value [v] can be stored in a column of type [c]: it has the column's type
    (NULLs included), or it is the Integer-typed NULL of [types.NewNull()] in a Float or Varchar
    column (its 5 bytes 01 00 00 00 00 are a NULL of either type; in a Boolean column they do not
    fit the 2-byte field). *)
Definition tc_compat (c : tcol) (v : tval) : bool :=
  tcol_eqb (tc_val_type v) c ||
  match v, c with
  | TvNull TcInt, TcFloat | TvNull TcInt, TcStr => true
  | _, _ => false
  end.
(** the stored value as the column sees it: a NULL is a NULL of the column's type *)
Definition tc_as_col (c : tcol) (v : tval) : tval :=
  match v with TvNull _ => TvNull c | _ => v end.
Fixpoint tc_as_cols (cols : tschema) (vals : list tval) : list tval :=
  match cols, vals with
  | c :: cs, v :: vs => tc_as_col c v :: tc_as_cols cs vs
  | _, _ => []
  end.

Fixpoint tc_typed_gen (cols : tschema) (vals : list tval) : bool :=
  match cols, vals with
  | [], [] => true
  | c :: cs, v :: vs => tc_compat c v && tc_val_ok v && tc_typed_gen cs vs
  | _, _ => false
  end.
Fixpoint tc_typed (cols : tschema) (vals : list tval) : bool :=
  match cols, vals with
  | [], [] => true
  | c :: cs, v :: vs => tcol_eqb (tc_val_type v) c && tc_val_ok v && tc_typed cs vs
  | _, _ => false
  end.

(** a row the Go type system and a 4 GiB address range allow: one value per column, each of
    the column's type (NULLs included), int32 / float32 / byte ranges, total size below 2^32 *)
Definition tc_row_wf (sch : tschema) (vals : list tval) : bool :=
  tc_typed sch vals && (tc_size_nowrap sch vals <? 4294967296).
(** the same with NewNull() NULLs allowed in Float and Varchar columns *)
Definition tc_row_wf_gen (sch : tschema) (vals : list tval) : bool :=
  tc_typed_gen sch vals && (tc_size_nowrap sch vals <? 4294967296).

(** the limit the code really has: a Varchar of more than 65532 bytes does not read back *)
Definition tc_str_fits (v : tval) : bool :=
  match v with TvStr s => tc_len s <=? 65532 | _ => true end.

Definition tc_row_ok (sch : tschema) (vals : list tval) : bool :=
  tc_row_wf sch vals && forallb tc_str_fits vals.

(** * The layout in closed form (specification; Proofs/TupleCodecProofs.v shows that
      [tc_encode_row] produces exactly this for well-formed rows) *)

(** fixed part; [e] = offset of the next Varchar payload *)
Fixpoint tc_fix_bytes (cols : tschema) (vals : list tval) (e : N) : list N :=
  match cols, vals with
  | c :: cs, v :: vs =>
      if tc_inlined c then tc_ser_val v ++ tc_fix_bytes cs vs e
      else le 4 e ++ tc_fix_bytes cs vs (e + tc_val_size_nowrap v)
  | _, _ => []
  end.
(** variable part: the serialised Varchar values in column order *)
Fixpoint tc_var_bytes (cols : tschema) (vals : list tval) : list N :=
  match cols, vals with
  | c :: cs, v :: vs =>
      if tc_inlined c then tc_var_bytes cs vs else tc_ser_val v ++ tc_var_bytes cs vs
  | _, _ => []
  end.
Definition tc_flat (sch : tschema) (vals : list tval) : list N :=
  tc_fix_bytes sch vals (tc_fixed_total sch) ++ tc_var_bytes sch vals.

(** what GetValue returns for a stored value of the column's type: the value itself, except
    that the uint16 arithmetic truncates (or loses) long strings *)
Definition tc_readback (v : tval) : option tval :=
  match v with
  | TvStr s =>
      let hi := tc_u16 (tc_u16 (tc_len s) + 3) in
      if hi <? 3 then None else Some (TvStr (firstn (N.to_nat (hi - 3)) s))
  | _ => Some v
  end.
