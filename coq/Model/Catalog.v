(** M11 — table identity in the catalog.  Mirrors lib/catalog/table_catalog.go:
    CreateTable takes [nextTableID] and increments it; BootstrapCatalog creates
    "columns_catalog" as table 0; RecoveryCatalogFromCatalogPage reloads the
    table rows and continues numbering after the largest id found (the
    pre-fix code restarted at 1: [reload_hardcoded]).  The first page of a new
    table's heap comes from BufferPoolManager.NewPage (an input here; C13's
    new_id_fresh says it is not a page in use).  Model only. *)
From Coq Require Import List NArith Bool.
Import ListNotations.
Open Scope N_scope.

Record cat := mkCat { next_id : N; tabs : list (N * N) (* oid, first page *) }.

Inductive cop := Create (first_page : N) | Restart.

Definition bootstrap (first_page : N) : cat := mkCat 1 [(0, first_page)].

Definition max_oid (l : list (N * N)) : N := fold_right (fun e m => N.max (fst e) m) 0 l.

Definition reload (c : cat) : cat := mkCat (N.max 1 (max_oid (tabs c) + 1)) (tabs c).
Definition reload_hardcoded (c : cat) : cat := mkCat 1 (tabs c).   (* the pinned tree before the fix *)

Definition cstep1 (rl : cat -> cat) (c : cat) (o : cop) : cat :=
  match o with
  | Create fp => mkCat (next_id c + 1) (tabs c ++ [(next_id c, fp)])
  | Restart => rl c
  end.

Definition crun1 (rl : cat -> cat) (ops : list cop) (c : cat) : cat := fold_left (cstep1 rl) ops c.

(** the pages handed out as first pages are pairwise different (oracle legality, from C13) *)
Fixpoint pages_of_ops (ops : list cop) : list N :=
  match ops with
  | [] => []
  | Create fp :: r => fp :: pages_of_ops r
  | Restart :: r => pages_of_ops r
  end.
