(** M17h — executable model of the linear-probe hash table behind the hash index
    (lib/container/hash/linear_probe_hash_table.go, linear_probe_hash_table_iterator.go,
    lib/storage/page/hash_table_block_page.go, hash_table_header_page.go) and of the
    index wrapper lib/storage/index/linear_probe_hash_table_index.go.

    What the Go code stores and compares (checked on the pinned tree):
    - the table is [nb] block pages of [BlockArraySize] = 252 slots each
      ([4 * PageSize / (4 * 16 + 1)], PageSize = 4096); [nb <= 1020]
      (NewLinearProbeHashTable panics above); the engine creates every hash index
      with [common.BucketSizeOfHashIndex] = 10 blocks = 2520 slots; the table never
      grows;
    - a slot is two bits (occupied: was ever written; readable: holds a live entry)
      and a pair (key uint64, value uint64); the stored "key" is NOT the key bytes
      but [ht.hash(key)]: the first eight bytes of the murmur3 x64_128 digest, a
      uint64 (HashTablePair.key was uint32 upstream, the comments still say so).
      GetValue / Remove compare the stored hash only: two keys with equal hashes
      are indistinguishable.  The model takes the hash value [hv : N] directly;
      the wrapper section takes the hash function as a parameter [h : K -> N];
    - home slot: block [hash % nb], offset [hash % 252] — not [hash % (nb * 252)];
      the iterator's [next] is the flat successor modulo [nb * 252];
    - every loop ends when the iterator is back at the home slot (at most one full
      turn).  Insert: the named result [err] is [nil] at that [break]: an insert
      into a table whose slots are all live is DROPPED WITHOUT ERROR ([HtFull]);
    - Insert refuses ("duplicated values on the same key are not allowed") as soon
      as it meets a live slot holding the same VALUE — the stored hash is not
      compared — and stops at the first tombstone or never-used slot without
      looking further, so (a) a pair is refused because another key's entry with
      the same value lies on the probe path, (b) a present pair is accepted again
      when a tombstone precedes it;
    - Remove clears the readable bit of EVERY matching slot up to the first
      never-used slot; GetValue collects every live matching slot up to there.

    Slots are addressed by the flat index [block * bsz + offset]; the (block,
    offset) iterator is [ht_it_next] and Proofs/HashTableProofs.v shows that it is
    the flat successor [ht_next].  Loops take fuel = number of slots and have an
    explicit out-of-fuel outcome, proved unreachable.

    Model only: no proofs in this file. *)
From Coq Require Import List NArith ZArith Bool Arith.
From SDB Require Import Base.Bytes Params Model.Codec Model.IndexWrap.
Import ListNotations.
Local Open Scope nat_scope.

(** * Capacity constants *)

(** [sizeOfHashTablePair] *)
Definition ht_pair_size : N := 16.
(** [BlockArraySize = 4 * common.PageSize / (4*sizeOfHashTablePair + 1)] = 252 *)
Definition ht_block_array_size : nat := N.to_nat (4 * page_size / (4 * ht_pair_size + 1))%N.
(** [blockPageIDs [1020]types.PageID]; [NewLinearProbeHashTable] panics above. *)
Definition ht_max_blocks : nat := 1020.
(** [common.BucketSizeOfHashIndex]: the [numBuckets] of every hash index the
    catalog creates (lib/catalog/table_metadata.go). *)
Definition ht_engine_blocks : nat := 10.

(** * Slots *)

Record ht_slot : Type := mk_ht_slot {
  hs_occ : bool;   (* occuppied bit *)
  hs_rd : bool;    (* readable bit *)
  hs_key : N;      (* HashTablePair.key = uint64(hash) *)
  hs_val : N       (* HashTablePair.value *)
}.

Definition ht_slot0 : ht_slot := mk_ht_slot false false 0 0.

Definition ht_at (sl : list ht_slot) (p : nat) : ht_slot := nth p sl ht_slot0.

Fixpoint ht_upd (p : nat) (f : ht_slot -> ht_slot) (sl : list ht_slot) {struct sl}
  : list ht_slot :=
  match sl with
  | [] => []
  | s :: r => match p with
              | O => f s :: r
              | S p' => s :: ht_upd p' f r
              end
  end.

(** [HashTableBlockPage.Insert(index, key, value)]: refuses a live slot,
    otherwise writes the pair and sets both bits. *)
Definition ht_slot_insert (hv v : N) (s : ht_slot) : ht_slot :=
  if hs_occ s && hs_rd s then s else mk_ht_slot true true hv v.

(** [HashTableBlockPage.Remove(index)]: clears the readable bit; the occupied
    bit and the pair stay. *)
Definition ht_slot_remove (s : ht_slot) : ht_slot :=
  if hs_rd s then mk_ht_slot (hs_occ s) false (hs_key s) (hs_val s) else s.

(** * The iterator *)

(** [hashTableIterator.next] on (bucket, offset). *)
Definition ht_it_next (nb bsz : nat) (it : nat * nat) : nat * nat :=
  let (b, o) := it in
  if bsz <=? S o then (if nb <=? S b then 0 else S b, 0) else (b, S o).

Definition ht_flat (bsz : nat) (it : nat * nat) : nat := fst it * bsz + snd it.

(** The same step on flat indices, [n] = number of slots. *)
Definition ht_next (n p : nat) : nat := if S p <? n then S p else 0.

(** [originalBucketIndex = hash % NumBlocks], [originalBucketOffset = hash % BlockArraySize] *)
Definition ht_home_it (nb bsz : nat) (hv : N) : nat * nat :=
  (N.to_nat (hv mod N.of_nat nb), N.to_nat (hv mod N.of_nat bsz)).

Definition ht_home (nb bsz : nat) (hv : N) : nat := ht_flat bsz (ht_home_it nb bsz hv).

(** * The three probing loops on the flat slot array

    [n] slots, [start] = home slot, [pos] = current slot. *)

(** GetValue.  [None] = out of fuel. *)
Fixpoint ht_get_loop (fuel n start pos : nat) (hv : N) (sl : list ht_slot) : option (list N) :=
  match fuel with
  | O => None
  | S f =>
      let s := ht_at sl pos in
      if hs_occ s then
        let here := if hs_rd s && (hs_key s =? hv)%N then [hs_val s] else [] in
        let pos' := ht_next n pos in
        if pos' =? start then Some here
        else match ht_get_loop f n start pos' hv sl with
             | Some r => Some (here ++ r)
             | None => None
             end
      else Some []
  end.

Inductive ht_ins_outcome : Type :=
| HtInserted (slot : nat)    (* written; [err = nil] *)
| HtDuplicate (slot : nat)   (* a live slot with the same value met; [err != nil] *)
| HtFull                     (* back at the home slot: nothing written, [err = nil] *)
| HtInsFuel.                 (* model artefact: out of fuel *)

(** The [error] Insert returns: non-nil only for [HtDuplicate]. *)
Definition ht_ins_err (o : ht_ins_outcome) : bool :=
  match o with HtDuplicate _ => true | _ => false end.

Definition ht_ins_stored (o : ht_ins_outcome) : bool :=
  match o with HtInserted _ => true | _ => false end.

Fixpoint ht_insert_loop (fuel n start pos : nat) (hv v : N) (sl : list ht_slot)
  : list ht_slot * ht_ins_outcome :=
  match fuel with
  | O => (sl, HtInsFuel)
  | S f =>
      let s := ht_at sl pos in
      if hs_occ s && hs_rd s && (hs_val s =? v)%N then (sl, HtDuplicate pos)
      else if hs_occ s && negb (hs_rd s) then (ht_upd pos (ht_slot_insert hv v) sl, HtInserted pos)
      else if negb (hs_occ s) then (ht_upd pos (ht_slot_insert hv v) sl, HtInserted pos)
      else
        let pos' := ht_next n pos in
        if pos' =? start then (sl, HtFull)
        else ht_insert_loop f n start pos' hv v sl
  end.

(** Remove.  [None] = out of fuel. *)
Fixpoint ht_remove_loop (fuel n start pos : nat) (hv v : N) (sl : list ht_slot)
  : option (list ht_slot) :=
  match fuel with
  | O => None
  | S f =>
      let s := ht_at sl pos in
      if hs_occ s then
        let sl' := if hs_occ s && (hs_key s =? hv)%N && (hs_val s =? v)%N
                   then ht_upd pos ht_slot_remove sl else sl in
        let pos' := ht_next n pos in
        if pos' =? start then Some sl'
        else ht_remove_loop f n start pos' hv v sl'
      else Some sl
  end.

(** * The table *)

Record htable : Type := mk_htable {
  ht_nb : nat;               (* header.NumBlocks() *)
  ht_bsz : nat;              (* BlockArraySize *)
  ht_slots : list ht_slot    (* block pages, concatenated *)
}.

Definition ht_size (t : htable) : nat := ht_nb t * ht_bsz t.

Definition ht_empty (nb bsz : nat) : htable :=
  mk_htable nb bsz (repeat ht_slot0 (nb * bsz)).

(** [NewLinearProbeHashTable(bpm, numBuckets, InvalidPageID)]: panics above 1020
    blocks; with 0 blocks every operation divides by zero. *)
Definition ht_new (nb : nat) : option htable :=
  if (nb =? 0) || (ht_max_blocks <? nb) then None else Some (ht_empty nb ht_block_array_size).

Definition ht_get (hv : N) (t : htable) : option (list N) :=
  let st := ht_home (ht_nb t) (ht_bsz t) hv in
  ht_get_loop (ht_size t) (ht_size t) st st hv (ht_slots t).

Definition ht_insert (hv v : N) (t : htable) : htable * ht_ins_outcome :=
  let st := ht_home (ht_nb t) (ht_bsz t) hv in
  let (sl, o) := ht_insert_loop (ht_size t) (ht_size t) st st hv v (ht_slots t) in
  (mk_htable (ht_nb t) (ht_bsz t) sl, o).

Definition ht_remove (hv v : N) (t : htable) : option htable :=
  let st := ht_home (ht_nb t) (ht_bsz t) hv in
  match ht_remove_loop (ht_size t) (ht_size t) st st hv v (ht_slots t) with
  | Some sl => Some (mk_htable (ht_nb t) (ht_bsz t) sl)
  | None => None
  end.

(** Observers for drivers and examples. *)
Definition ht_live (s : ht_slot) : bool := hs_occ s && hs_rd s.
Definition ht_tomb (s : ht_slot) : bool := hs_occ s && negb (hs_rd s).

Definition ht_live_count (t : htable) : nat := length (filter ht_live (ht_slots t)).
Definition ht_occ_count (t : htable) : nat := length (filter hs_occ (ht_slots t)).

(** The live (stored hash, value) pairs in slot order. *)
Definition ht_live_pairs (sl : list ht_slot) : list (N * N) :=
  map (fun s => (hs_key s, hs_val s)) (filter ht_live sl).

(** Slot dump: 0 = never used, 1 = tombstone, 2 = live. *)
Definition ht_shape (t : htable) : list (nat * N * N) :=
  map (fun s => ((if hs_occ s then (if hs_rd s then 2 else 1) else 0), hs_key s, hs_val s))
      (ht_slots t).

(** Operation sequences.  Insert never fails from the caller's point of view
    (InsertEntry discards the error); the table is unchanged on [HtDuplicate] and
    [HtFull]. *)
Inductive ht_op : Type :=
| HtIns (hv v : N)
| HtRem (hv v : N).

Definition ht_apply (t : htable) (o : ht_op) : option htable :=
  match o with
  | HtIns hv v =>
      let (t', out) := ht_insert hv v t in
      match out with HtInsFuel => None | _ => Some t' end
  | HtRem hv v => ht_remove hv v t
  end.

Fixpoint ht_run_from (t : htable) (ops : list ht_op) : option htable :=
  match ops with
  | [] => Some t
  | o :: r => match ht_apply t o with
              | Some t' => ht_run_from t' r
              | None => None
              end
  end.

Definition ht_run (nb bsz : nat) (ops : list ht_op) : option htable :=
  ht_run_from (ht_empty nb bsz) ops.

(** The reference: a bag of (hash, value) pairs, newest first.  [hr_insert] always
    adds; [hr_remove] deletes every copy. *)
Definition ht_ref : Type := list (N * N).

Definition ht_pair_eqb (a b : N * N) : bool := (fst a =? fst b)%N && (snd a =? snd b)%N.

Definition ht_ref_apply (r : ht_ref) (o : ht_op) : ht_ref :=
  match o with
  | HtIns hv v => (hv, v) :: r
  | HtRem hv v => filter (fun e => negb (ht_pair_eqb (hv, v) e)) r
  end.

Definition ht_ref_run (ops : list ht_op) : ht_ref := fold_left ht_ref_apply ops [].

Definition ht_ref_get (hv : N) (r : ht_ref) : list N :=
  map snd (filter (fun e => (fst e =? hv)%N) r).

(** * The index wrapper (LinearProbeHashTableIndex), generic in the key type
    and the hash function. *)

Section HashIndex.
  Variable K : Type.
  Variable h : K -> N.

  Definition ht_rid_val (r : rid) : N := pack64 (fst r) (snd r).

  (** InsertEntry: [container.Insert(keyBytes, PackRIDtoUint64(&rid))], error discarded. *)
  Definition ht_ix_insert (k : K) (r : rid) (t : htable) : htable :=
    fst (ht_insert (h k) (ht_rid_val r) t).

  (** DeleteEntry: [container.Remove(keyBytes, PackRIDtoUint64(&rid))]. *)
  Definition ht_ix_delete (k : K) (r : rid) (t : htable) : option htable :=
    ht_remove (h k) (ht_rid_val r) t.

  (** ScanKey: [UnpackUint64toRID] of every value GetValue returns — no
      comparison with the key. *)
  Definition ht_ix_scan (k : K) (t : htable) : option (list rid) :=
    match ht_get (h k) t with
    | Some l => Some (map unpack64 l)
    | None => None
    end.

  (** UpdateEntry: [panic("not implemented yet")]. *)
  Inductive ht_ix_op : Type :=
  | HtIxIns (k : K) (r : rid)
  | HtIxDel (k : K) (r : rid).

  Definition ht_ix_lower (o : ht_ix_op) : ht_op :=
    match o with
    | HtIxIns k r => HtIns (h k) (ht_rid_val r)
    | HtIxDel k r => HtRem (h k) (ht_rid_val r)
    end.

  Definition ht_ix_run (nb bsz : nat) (ops : list ht_ix_op) : option htable :=
    ht_run nb bsz (map ht_ix_lower ops).

  (** The abstract multimap of the index, generic in the key equivalence [same]
      used by delete and lookup: [same a b = (h a =? h b)] is what the table
      implements, key equality is what C17 asks for. *)
  Variable same : K -> K -> bool.

  Definition ht_ixm : Type := list (K * rid).

  Definition ht_ixm_apply (m : ht_ixm) (o : ht_ix_op) : ht_ixm :=
    match o with
    | HtIxIns k r => (k, r) :: m
    | HtIxDel k r => filter (fun e => negb (same k (fst e) && rid_eqb r (snd e))) m
    end.

  Definition ht_ixm_run (ops : list ht_ix_op) : ht_ixm := fold_left ht_ixm_apply ops [].

  Definition ht_ixm_lookup (k : K) (m : ht_ixm) : list rid :=
    map snd (filter (fun e => same k (fst e)) m).
End HashIndex.

Arguments HtIxIns {K}.
Arguments HtIxDel {K}.

Definition ht_same_hash {K : Type} (h : K -> N) (a b : K) : bool := (h a =? h b)%N.

(** A table configured like the engine's hash indexes: 10 blocks of 252 slots. *)
Definition ht_engine_empty : htable := ht_empty ht_engine_blocks ht_block_array_size.
