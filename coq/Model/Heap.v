(** Executable model of the table heap (lib/storage/access/table_heap.go,
    table_heap_iterator.go): a chain of slotted pages reached through the buffer
    pool, with the pin discipline of every heap operation.

    A heap is the list of its pages in chain order (the [next] link of a page is
    the page that follows it in the list; the first page is the head).  A page
    is its id and the abstract content of [Model/Page.v] ([astate]: slot ->
    (row bytes, delete-marked), with the exact space accounting [a_free]); the
    byte layout is not repeated here ([Props/C15.v] relates it to [astate]).
    The pool's view is a pin counter per page id.  [hp_hint] is [lastPageID].

    Every operation returns the new heap, what the Go function returns, and the
    sequence of primitive actions it performs, in program order:
    [HFetch p] (FetchPage), [HNew p] (NewPage: the id is an input), [HUnpin p d]
    (UnpinPage with its dirty flag), [HLock p s g] (a row lock request and its
    answer: an input), [HPage p op out] (a TablePage call), [HLink] and [HHint].
    Pins are accounted by running that sequence over the pin vector.

    Inputs that the implementation or its environment decides:
      [lk p s]   : does a lock request on row (p,s) succeed (or is it held);
      [mine p s] : does the calling transaction hold the exclusive lock of (p,s)
                   (a delete-marked row with [mine] is "deleted by myself");
      new page ids for InsertTuple.
    Two variant switches reproduce two regressions ([hp_go] is the current code).
    Model only: no proofs here. *)
From Coq Require Import List NArith Bool.
From SDB Require Import Params Base.Assoc Model.Page.
Import ListNotations.
Open Scope N_scope.

Record hp_variant := mkHpV {
  gft_unpins_skipped : bool;    (* GetFirstTuple unpins a page it skips *)
  iter_skips_all_empty : bool   (* iterator: [for] (true) / [if] (false) over empty pages *)
}.
Definition hp_go : hp_variant := mkHpV true true.

Record hp_page := mkHpPage { hp_pid : N; hp_rows : astate }.
Record hp_heap := mkHp { hp_chain : list hp_page; hp_hint : N }.

Definition hp_ids (c : list hp_page) : list N := map hp_pid c.
(** firstPageID *)
Definition hp_first (h : hp_heap) : N :=
  match hp_chain h with pg :: _ => hp_pid pg | [] => 0 end.
Definition hp_fresh (n : N) : hp_page := mkHpPage n [].
(** InitTableHeap / NewTableHeap *)
Definition hp_new_heap (first : N) : hp_heap := mkHp [hp_fresh first] first.

Inductive hp_act :=
| HFetch (p : N)
| HNew (p : N)
| HUnpin (p : N) (dirty : bool)
| HLock (p s : N) (granted : bool)
| HPage (p : N) (o : pop) (r : pout)
| HLink (p q : N)          (* SetNextPageID of p := q, Init q with prev p *)
| HHint (p : N).           (* lastPageID := p *)

Inductive hp_end := HE_End | HE_Abort | HE_Fuel | HE_Panic.

Inductive hp_res :=
| HR_Inserted (p s : N)
| HR_Bool (b : bool)                      (* MarkDelete *)
| HR_Done                                 (* ApplyDelete / RollbackDelete *)
| HR_Updated (inplace : bool) (p s : N)   (* the rid the row has afterwards *)
| HR_Fail                                 (* UpdateTuple: false *)
| HR_Row (p s : N) (b : list N)
| HR_SelfDeleted (p s : N)                (* empty tuple carrying the rid, ErrSelfDeletedCase *)
| HR_Err                                  (* nil, transaction set ABORTED *)
| HR_None                                 (* nil: no row / end of the scan *)
| HR_Scan (rows : list (N * N * list N)) (e : hp_end)
| HR_Panic                                (* a panic / nil dereference the Go code reaches *)
| HR_NoNewPage.                           (* the loop of InsertTuple asks for yet another page *)

Inductive hp_op :=
| HInsert (row : list N) (newids : list N)
| HMarkDelete (p s : N)
| HApplyDelete (p s : N)
| HRollbackDelete (p s : N)
| HUpdate (p s : N) (row : list N) (rollback : bool) (newids : list N)
| HGetTuple (p s : N)
| HGetFirst
| HNext (p s : N)          (* iterator positioned on row (p,s) *)
| HScan.                   (* NewTableHeapIterator, then Next until End *)

(** * Chain access *)

Fixpoint hp_find (c : list hp_page) (p : N) : option hp_page :=
  match c with
  | [] => None
  | pg :: c' => if hp_pid pg =? p then Some pg else hp_find c' p
  end.

Fixpoint hp_set_rows (c : list hp_page) (p : N) (a : astate) : list hp_page :=
  match c with
  | [] => []
  | pg :: c' => if hp_pid pg =? p then mkHpPage p a :: c' else pg :: hp_set_rows c' p a
  end.

(** pages before p, page p, pages after p *)
Fixpoint hp_split (c : list hp_page) (p : N) : option (list hp_page * hp_page * list hp_page) :=
  match c with
  | [] => None
  | pg :: c' =>
      if hp_pid pg =? p then Some ([], pg, c')
      else match hp_split c' p with
           | Some (pre, x, post) => Some (pg :: pre, x, post)
           | None => None
           end
  end.

(** what is stored under a slot *)
Definition hp_entry (a : astate) (s : N) : option (list N * bool) :=
  match a_at a s with Some (Some e) => Some e | _ => None end.

(** the heap as a finite map rid -> (row, delete-marked) *)
Definition hp_lookup (c : list hp_page) (p s : N) : option (list N * bool) :=
  match hp_find c p with Some pg => hp_entry (hp_rows pg) s | None => None end.

(** GetTupleFirstRID: first slot holding a row (delete-marked rows count) *)
Fixpoint hp_first_row (ents : list aentry) (i : N) : option N :=
  match ents with
  | [] => None
  | Some _ :: _ => Some i
  | None :: ents' => hp_first_row ents' (i + 1)
  end.

(** * Pins *)

Definition hp_pinvec := list (N * nat).
Definition hp_pget (v : hp_pinvec) (p : N) : nat :=
  match aget v p with Some n => n | None => O end.

Definition hp_pin_act (v : hp_pinvec) (a : hp_act) : hp_pinvec :=
  match a with
  | HFetch p | HNew p => aset v p (S (hp_pget v p))
  | HUnpin p _ => aset v p (pred (hp_pget v p))
  | _ => v
  end.
Definition hp_pin_run (v : hp_pinvec) (tr : list hp_act) : hp_pinvec := fold_left hp_pin_act tr v.

(** UnpinPage panics on a page whose pin count is already 0 *)
Fixpoint hp_pin_safe (v : hp_pinvec) (tr : list hp_act) : bool :=
  match tr with
  | [] => true
  | a :: r =>
      match a with HUnpin p _ => negb (Nat.eqb (hp_pget v p) O) | _ => true end
      && hp_pin_safe (hp_pin_act v a) r
  end.

Section Ops.
  Variable V : hp_variant.
  Variables lk mine : N -> N -> bool.

  (** ** TablePage.InsertTuple with its row lock *)
  Inductive hp_try := HT_Ok (s : N) (a' : astate) | HT_No | HT_Panic.

  Definition hp_page_insert (p : N) (a : astate) (row : list N) : hp_try * list hp_act :=
    match astep a (PInsert row) with
    | (a', OInserted s) =>
        if lk p s then (HT_Ok s a', [HLock p s true; HPage p (PInsert row) (OInserted s)])
        else (HT_No, [HLock p s false])
    | (_, OPanic) => (HT_Panic, [HPage p (PInsert row) OPanic])
    | (_, o) => (HT_No, [HPage p (PInsert row) o])
    end.

  (** ** TableHeap.InsertTuple *)

  (** the loop, on the last page of the chain ([cur], pinned): returns the pages that replace [cur] *)
  Fixpoint hp_ins_fresh (row : list N) (cur : hp_page) (newids : list N)
    : list hp_page * hp_res * list hp_act :=
    let p := hp_pid cur in
    match hp_page_insert p (hp_rows cur) row with
    | (HT_Ok s a', tr) =>
        ([mkHpPage p a'], HR_Inserted p s, tr ++ [HHint p; HUnpin p true])
    | (HT_Panic, tr) => ([cur], HR_Panic, tr)
    | (HT_No, tr) =>
        match newids with
        | [] => ([cur], HR_NoNewPage, tr)
        | n :: ids =>
            let '(pgs, r, tr') := hp_ins_fresh row (hp_fresh n) ids in
            (cur :: pgs, r, tr ++ [HNew n; HLink p n; HUnpin p true] ++ tr')
        end
    end.

  (** the loop, on page [cur] (pinned) followed by [rest] *)
  Fixpoint hp_ins_walk (row : list N) (cur : hp_page) (rest : list hp_page) (newids : list N)
    : list hp_page * hp_res * list hp_act :=
    match rest with
    | [] => hp_ins_fresh row cur newids
    | nx :: rest' =>
        let p := hp_pid cur in
        match hp_page_insert p (hp_rows cur) row with
        | (HT_Ok s a', tr) =>
            (mkHpPage p a' :: rest, HR_Inserted p s, tr ++ [HHint p; HUnpin p true])
        | (HT_Panic, tr) => (cur :: rest, HR_Panic, tr)
        | (HT_No, tr) =>
            let '(pgs, r, tr') := hp_ins_walk row nx rest' newids in
            (cur :: pgs, r, tr ++ [HFetch (hp_pid nx); HUnpin p false] ++ tr')
        end
    end.

  Definition hp_insert (h : hp_heap) (row : list N) (newids : list N)
    : hp_heap * hp_res * list hp_act :=
    match hp_split (hp_chain h) (hp_hint h) with
    | None => (h, HR_Panic, [])                (* FetchPage(lastPageID) = nil *)
    | Some (pre, cur, rest) =>
        let '(pgs, r, tr) := hp_ins_walk row cur rest newids in
        (mkHp (pre ++ pgs) (match r with HR_Inserted p _ => p | _ => hp_hint h end),
         r, HFetch (hp_hint h) :: tr)
    end.

  (** ** MarkDelete / ApplyDelete / RollbackDelete *)

  Definition hp_mark_delete (h : hp_heap) (p s : N) : hp_heap * hp_res * list hp_act :=
    match hp_find (hp_chain h) p with
    | None => (h, HR_Bool false, [])           (* pg == nil: abort, nothing pinned *)
    | Some pg =>
        if negb (lk p s) then (h, HR_Bool false, [HFetch p; HLock p s false; HUnpin p true])
        else
          let '(a', o) := astep (hp_rows pg) (PMark s) in
          (mkHp (hp_set_rows (hp_chain h) p a') (hp_hint h),
           HR_Bool (match o with OMarked _ => true | _ => false end),
           [HFetch p; HLock p s true; HPage p (PMark s) o; HUnpin p true])
    end.

  Definition hp_apply_delete (h : hp_heap) (p s : N) : hp_heap * hp_res * list hp_act :=
    match hp_find (hp_chain h) p with
    | None => (h, HR_Panic, [])
    | Some pg =>
        match astep (hp_rows pg) (PApply s) with
        | (a', ODone) =>
            (mkHp (hp_set_rows (hp_chain h) p a') (hp_first h), HR_Done,
             [HFetch p; HPage p (PApply s) ODone; HHint (hp_first h); HUnpin p true])
        | (_, o) => (h, HR_Panic, [HFetch p; HPage p (PApply s) o])
        end
    end.

  Definition hp_rollback_delete (h : hp_heap) (p s : N) : hp_heap * hp_res * list hp_act :=
    match hp_find (hp_chain h) p with
    | None => (h, HR_Panic, [])
    | Some pg =>
        match astep (hp_rows pg) (PRollback s) with
        | (a', ODone) =>
            (mkHp (hp_set_rows (hp_chain h) p a') (hp_hint h), HR_Done,
             [HFetch p; HPage p (PRollback s) ODone; HUnpin p true])
        | (_, o) => (h, HR_Panic, [HFetch p; HPage p (PRollback s) o])
        end
    end.

  (** ** UpdateTuple (whole-row form; the page is always asked with isRollbackOrUndo = false) *)

  (** the row does not fit in place (or shrinks): delete it and insert the new version;
      [tr0] is what UpdateTuple has done so far *)
  Definition hp_update_move (h : hp_heap) (p s : N) (row : list N) (rollback : bool)
    (newids : list N) (tr0 : list hp_act) : hp_heap * hp_res * list hp_act :=
    let '(h1, r1, tr1) :=
      if rollback then hp_apply_delete h p s else hp_mark_delete h p s in
    match r1 with
    | HR_Done | HR_Bool true =>
        let '(h2, r2, tr2) := hp_insert h1 row newids in
        (h2, match r2 with HR_Inserted p' s' => HR_Updated false p' s' | _ => r2 end,
         tr0 ++ tr1 ++ tr2)
    | HR_Panic => (h1, HR_Panic, tr0 ++ tr1)
    | _ => (h1, HR_Fail, tr0 ++ tr1)
    end.

  Definition hp_update (h : hp_heap) (p s : N) (row : list N) (rollback : bool) (newids : list N)
    : hp_heap * hp_res * list hp_act :=
    match hp_find (hp_chain h) p with
    | None => (h, HR_Fail, [])
    | Some pg =>
        if blen row =? 0 then (h, HR_Panic, [HFetch p])
        else if negb (lk p s) then (h, HR_Fail, [HFetch p; HLock p s false; HUnpin p false])
        else
          let '(a', o) := astep (hp_rows pg) (PUpdate s row false) in
          let pre := [HFetch p; HLock p s true; HPage p (PUpdate s row false) o] in
          match o with
          | OUpdated _ =>
              (mkHp (hp_set_rows (hp_chain h) p a') (hp_hint h), HR_Updated true p s,
               pre ++ [HUnpin p true])
          | ONoSpace | ORollbackDifficult =>
              hp_update_move h p s row rollback newids (pre ++ [HUnpin p false])
          | _ => (h, HR_Fail, pre ++ [HUnpin p false])
          end
    end.

  (** ** GetTuple *)

  (** TablePage.GetTuple once the shared lock is held *)
  Definition hp_page_get (a : astate) (p s : N) : hp_res * pout :=
    let o := snd (astep a (PGet s)) in
    (match o with
     | OTuple b => HR_Row p s b
     | OSelfDeleted => if mine p s then HR_SelfDeleted p s else HR_Err
     | _ => HR_Err
     end, o).

  Definition hp_get_tuple (h : hp_heap) (p s : N) : hp_res * list hp_act :=
    if negb (lk p s) then (HR_Err, [HLock p s false])
    else match hp_find (hp_chain h) p with
         | None => (HR_Panic, [HLock p s true])
         | Some pg =>
             let '(r, o) := hp_page_get (hp_rows pg) p s in
             (r, [HLock p s true; HFetch p; HPage p (PGet s) o; HUnpin p false])
         end.

  (** ** GetFirstTuple *)

  Fixpoint hp_gft_walk (c : list hp_page) : option (N * N) * list hp_act :=
    match c with
    | [] => (None, [])
    | pg :: c' =>
        let p := hp_pid pg in
        match hp_first_row (hp_rows pg) 0 with
        | Some s => (Some (p, s), [HFetch p; HUnpin p false])
        | None =>
            let '(r, tr) := hp_gft_walk c' in
            (r, HFetch p :: (if gft_unpins_skipped V then [HUnpin p false] else []) ++ tr)
        end
    end.

  Definition hp_get_first (h : hp_heap) : hp_res * list hp_act :=
    match hp_gft_walk (hp_chain h) with
    | (None, tr) => (HR_None, tr)
    | (Some (p, s), tr) => let '(r, tr') := hp_get_tuple h p s in (r, tr ++ tr')
    end.

  (** ** TableHeapIterator.Next

      [hp_nx rest p ents i from adv]: page p is pinned; [ents] are its slots
      from index [i] on; slots below [from] are not looked at (GetNextTupleRID
      starts after the current slot); [rest] are the pages after p; [adv] says
      that the page loop has already moved on since the last [start:]. *)
  Fixpoint hp_nx (rest : list hp_page) : N -> list aentry -> N -> N -> bool -> hp_res * list hp_act :=
    fix inner (p : N) (ents : list aentry) (i from : N) (adv : bool) {struct ents}
      : hp_res * list hp_act :=
      match ents with
      | None :: ents' => inner p ents' (i + 1) from adv
      | Some (b, mk) :: ents' =>
          if i <? from then inner p ents' (i + 1) from adv
          else if negb (lk p i) then (HR_Err, [HLock p i false; HUnpin p false])
          else if mk then
            if mine p i
            then (* ErrSelfDeletedCase: finalizeCurrentPage; goto start (same page, next slot) *)
              let '(r, tr) := inner p ents' (i + 1) from false in
              (r, HLock p i true :: HUnpin p false :: HFetch p :: tr)
            else (HR_Err, [HLock p i true; HUnpin p false])
          else (HR_Row p i b, [HLock p i true; HUnpin p false])
      | [] =>
          if adv && negb (iter_skips_all_empty V) then (HR_None, [HUnpin p false])
          else match rest with
               | [] => (HR_None, [HUnpin p false])
               | q :: rest' =>
                   let '(r, tr) := hp_nx rest' (hp_pid q) (hp_rows q) 0 0 true in
                   (r, HFetch (hp_pid q) :: HUnpin p false :: tr)
               end
      end.

  Definition hp_next (h : hp_heap) (p s : N) : hp_res * list hp_act :=
    match hp_split (hp_chain h) p with
    | None => (HR_Panic, [])
    | Some (_, pg, rest) =>
        let '(r, tr) := hp_nx rest p (hp_rows pg) 0 (s + 1) false in
        (r, HFetch p :: tr)
    end.

  (** NewTableHeapIterator *)
  Definition hp_iter_new (h : hp_heap) : hp_res * list hp_act :=
    let '(r, tr) := hp_get_first h in
    match r with
    | HR_SelfDeleted p s => let '(r', tr') := hp_next h p s in (r', tr ++ tr')
    | _ => (r, tr)
    end.

  (** the sequential scan: Current / Next until End *)
  Fixpoint hp_scan_loop (fuel : nat) (h : hp_heap) (cur : hp_res)
    : list (N * N * list N) * hp_end * list hp_act :=
    match cur with
    | HR_Row p s b =>
        match fuel with
        | O => ([], HE_Fuel, [])
        | S f =>
            let '(r, tr) := hp_next h p s in
            let '(rows, e, tr') := hp_scan_loop f h r in
            ((p, s, b) :: rows, e, tr ++ tr')
        end
    | HR_None => ([], HE_End, [])
    | HR_Err => ([], HE_Abort, [])
    | _ => ([], HE_Panic, [])
    end.

  (** number of slots of all pages, plus one: enough fuel for any scan *)
  Definition hp_scan_fuel (h : hp_heap) : nat :=
    S (fold_right (fun pg n => (length (hp_rows pg) + n)%nat) O (hp_chain h)).

  Definition hp_scan (h : hp_heap) : hp_res * list hp_act :=
    let '(r, tr) := hp_iter_new h in
    let '(rows, e, tr') := hp_scan_loop (hp_scan_fuel h) h r in
    (HR_Scan rows e, tr ++ tr').

  Definition hp_step (h : hp_heap) (o : hp_op) : hp_heap * hp_res * list hp_act :=
    match o with
    | HInsert row ids => hp_insert h row ids
    | HMarkDelete p s => hp_mark_delete h p s
    | HApplyDelete p s => hp_apply_delete h p s
    | HRollbackDelete p s => hp_rollback_delete h p s
    | HUpdate p s row rb ids => hp_update h p s row rb ids
    | HGetTuple p s => let '(r, tr) := hp_get_tuple h p s in (h, r, tr)
    | HGetFirst => let '(r, tr) := hp_get_first h in (h, r, tr)
    | HNext p s => let '(r, tr) := hp_next h p s in (h, r, tr)
    | HScan => let '(r, tr) := hp_scan h in (h, r, tr)
    end.

  (** ** Specifications (executable, used by the theorems and by the driver) *)

  (** rows of one page in slot order, from index i *)
  Fixpoint hp_flat_page (p : N) (ents : list aentry) (i : N) : list (N * N * (list N * bool)) :=
    match ents with
    | [] => []
    | Some e :: ents' => (p, i, e) :: hp_flat_page p ents' (i + 1)
    | None :: ents' => hp_flat_page p ents' (i + 1)
    end.
  (** all rows in (chain position, slot) order *)
  Definition hp_flat (c : list hp_page) : list (N * N * (list N * bool)) :=
    flat_map (fun pg => hp_flat_page (hp_pid pg) (hp_rows pg) 0) c.

  (** what a scan over these rows must return *)
  Fixpoint hp_scan_spec (l : list (N * N * (list N * bool))) : list (N * N * list N) * hp_end :=
    match l with
    | [] => ([], HE_End)
    | (p, s, (b, mk)) :: l' =>
        if negb (lk p s) then ([], HE_Abort)
        else if mk then (if mine p s then hp_scan_spec l' else ([], HE_Abort))
        else let '(rows, e) := hp_scan_spec l' in ((p, s, b) :: rows, e)
    end.

  (** does the page take the row: room for the row and a slot entry, and the lock of the slot *)
  Definition hp_accepts (row : list N) (pg : hp_page) : option (N * astate) :=
    match astep (hp_rows pg) (PInsert row) with
    | (a', OInserted s) => if lk (hp_pid pg) s then Some (s, a') else None
    | _ => None
    end.
  (** the first page of the candidates that takes the row *)
  Fixpoint hp_place (row : list N) (cands : list hp_page) : option (N * N) :=
    match cands with
    | [] => None
    | pg :: r => match hp_accepts row pg with
                 | Some (s, _) => Some (hp_pid pg, s)
                 | None => hp_place row r
                 end
    end.
End Ops.

(** * The pool's view *)

Record hp_state := mkHpS { hp_heap_of : hp_heap; hp_pins : hp_pinvec }.
Definition hp_init (first : N) : hp_state := mkHpS (hp_new_heap first) [].

Definition hp_exec (V : hp_variant) (lk mine : N -> N -> bool) (st : hp_state) (o : hp_op)
  : hp_state * hp_res * list hp_act :=
  let '(h', r, tr) := hp_step V lk mine (hp_heap_of st) o in
  (mkHpS h' (hp_pin_run (hp_pins st) tr), r, tr).

(** new page ids must be unused and distinct (checked on the ids the pool hands out) *)
Fixpoint hp_nodupb (l : list N) : bool :=
  match l with [] => true | x :: r => negb (memN x r) && hp_nodupb r end.
Definition hp_fresh_ok (c : list hp_page) (ids : list N) : bool :=
  hp_nodupb ids && forallb (fun n => negb (memN n (hp_ids c))) ids.
(** ... and rows are not empty (an empty row makes TablePage.InsertTuple panic) *)
Definition hp_op_ok (h : hp_heap) (o : hp_op) : bool :=
  match o with
  | HInsert row ids | HUpdate _ _ row _ ids =>
      negb (blen row =? 0) && hp_fresh_ok (hp_chain h) ids
  | _ => true
  end.

(** * Driver interface: lock answers and own exclusive locks as lists of rids *)
Fixpoint hp_mem2 (l : list (N * N)) (p s : N) : bool :=
  match l with
  | [] => false
  | (q, t) :: l' => ((q =? p) && (t =? s)) || hp_mem2 l' p s
  end.
Definition hp_exec_l (V : hp_variant) (denied mine : list (N * N)) (st : hp_state) (o : hp_op)
  : hp_state * hp_res * list hp_act :=
  hp_exec V (fun p s => negb (hp_mem2 denied p s)) (hp_mem2 mine) st o.
Definition hp_pin_vector (st : hp_state) (ids : list N) : list nat :=
  map (hp_pget (hp_pins st)) ids.
(** net pins a trace leaves on page q (what the harness compares with the pool) *)
Definition hp_trace_pins (tr : list hp_act) (ids : list N) : list nat :=
  map (hp_pget (hp_pin_run [] tr)) ids.
Definition hp_scan_expected (denied mine : list (N * N)) (st : hp_state)
  : list (N * N * list N) * hp_end :=
  hp_scan_spec (fun p s => negb (hp_mem2 denied p s)) (hp_mem2 mine)
    (hp_flat (hp_chain (hp_heap_of st))).

(** a sequence of calls, each with its lock answers *)
Definition hp_call := (list (N * N) * list (N * N) * hp_op)%type.
Fixpoint hp_run_l (V : hp_variant) (calls : list hp_call) (st : hp_state) : hp_state :=
  match calls with
  | [] => st
  | (d, m, o) :: r => hp_run_l V r (fst (fst (hp_exec_l V d m st o)))
  end.
Fixpoint hp_run_ok (calls : list hp_call) (st : hp_state) : bool :=
  match calls with
  | [] => true
  | (d, m, o) :: r =>
      hp_op_ok (hp_heap_of st) o && hp_run_ok r (fst (fst (hp_exec_l hp_go d m st o)))
  end.
