(** M19 — lock / access traces of concurrent goroutines and the lockset
    discipline (C19).

    A trace is the global sequence of synchronisation and memory events the
    instrumented engine emits (hook H4): [Acq g l mode] / [Rel g l] on
    sync.RWMutex-like locks and [Acc g loc rw] on storage-engine memory
    locations.  A guard map assigns to every location the lock that protects it.

    The model contains
    - the lock semantics of sync.RWMutex ([ev_ok], [well_formed]),
    - the lockset discipline as an executable checker ([disciplined]) and as a
      proposition ([disciplinedP]),
    - the happens-before relation [hb] on trace positions: program order, and
      release -> later acquire of the same lock where at least one of the two
      holds the lock exclusively (the edges the Go memory model gives for
      RWMutex: Unlock -> later Lock/RLock, RUnlock -> later Lock), closed under
      transitivity.

    Model only: no proofs in this file. *)
From Coq Require Import List NArith Bool.
Import ListNotations.
Open Scope N_scope.

Inductive lmode : Type := Shared | Exclusive.
Inductive rw : Type := Read | Write.

(** Goroutines, locks and locations are numbers. *)
Inductive tevent : Type :=
| Acq (g l : N) (m : lmode)      (* RLock / Lock returned *)
| Rel (g l : N)                  (* RUnlock / Unlock called *)
| Acc (g loc : N) (a : rw).      (* memory access *)

Definition ev_g (e : tevent) : N :=
  match e with Acq g _ _ => g | Rel g _ => g | Acc g _ _ => g end.

(** A holding: goroutine [g] holds lock [l] in mode [m].  The lock state is the
    multiset of current holdings. *)
Definition holding : Type := (N * N * lmode)%type.
Definition hstate : Type := list holding.

Definition h_g (h : holding) : N := fst (fst h).
Definition h_l (h : holding) : N := snd (fst h).
Definition h_m (h : holding) : lmode := snd h.

Definition is_x (m : lmode) : bool := match m with Exclusive => true | Shared => false end.

(** [g] holds [l] (in some mode / exclusively). *)
Definition holds_any (s : hstate) (g l : N) : bool :=
  existsb (fun h => (h_g h =? g) && (h_l h =? l)) s.
Definition holds_x (s : hstate) (g l : N) : bool :=
  existsb (fun h => (h_g h =? g) && (h_l h =? l) && is_x (h_m h)) s.

(** Somebody holds [l] (in some mode / exclusively). *)
Definition locked_any (s : hstate) (l : N) : bool := existsb (fun h => h_l h =? l) s.
Definition locked_x (s : hstate) (l : N) : bool :=
  existsb (fun h => (h_l h =? l) && is_x (h_m h)) s.

(** Drop one holding of [g] on [l]. *)
Fixpoint release (s : hstate) (g l : N) : hstate :=
  match s with
  | [] => []
  | h :: r => if (h_g h =? g) && (h_l h =? l) then r else h :: release r g l
  end.

(** sync.RWMutex: an exclusive acquire returns only when nobody holds the lock,
    a shared acquire only when nobody holds it exclusively; a release is made
    by a holder. *)
Definition ev_ok (s : hstate) (e : tevent) : bool :=
  match e with
  | Acq _ l Exclusive => negb (locked_any s l)
  | Acq _ l Shared => negb (locked_x s l)
  | Rel g l => holds_any s g l
  | Acc _ _ _ => true
  end.

Definition apply_ev (s : hstate) (e : tevent) : hstate :=
  match e with
  | Acq g l m => (g, l, m) :: s
  | Rel g l => release s g l
  | Acc _ _ _ => s
  end.

(** Lock state before the event at position [i]. *)
Definition state_at (tr : list tevent) (i : nat) : hstate :=
  fold_left apply_ev (firstn i tr) [].

(** * Well-formed traces *)

Fixpoint wf_from (s : hstate) (tr : list tevent) : bool :=
  match tr with
  | [] => true
  | e :: r => ev_ok s e && wf_from (apply_ev s e) r
  end.

Definition well_formed (tr : list tevent) : bool := wf_from [] tr.

Definition well_formedP (tr : list tevent) : Prop :=
  forall i e, nth_error tr i = Some e -> ev_ok (state_at tr i) e = true.

(** * The lockset discipline: every write happens while its goroutine holds the
    location's guard exclusively, every read while it holds it at least shared. *)

Definition acc_ok (guard : N -> N) (s : hstate) (e : tevent) : bool :=
  match e with
  | Acc g loc Write => holds_x s g (guard loc)
  | Acc g loc Read => holds_any s g (guard loc)
  | _ => true
  end.

Fixpoint disc_from (guard : N -> N) (s : hstate) (tr : list tevent) : bool :=
  match tr with
  | [] => true
  | e :: r => acc_ok guard s e && disc_from guard (apply_ev s e) r
  end.

Definition disciplined (guard : N -> N) (tr : list tevent) : bool := disc_from guard [] tr.

Definition disciplinedP (guard : N -> N) (tr : list tevent) : Prop :=
  forall i g loc a, nth_error tr i = Some (Acc g loc a) ->
    match a with
    | Write => In (g, guard loc, Exclusive) (state_at tr i)
    | Read => exists m, In (g, guard loc, m) (state_at tr i)
    end.

(** A guard map given as an association list (location, lock); locations not
    listed are guarded by [dflt]. *)
Fixpoint guard_of (gm : list (N * N)) (dflt : N) (loc : N) : N :=
  match gm with
  | [] => dflt
  | (x, l) :: r => if x =? loc then l else guard_of r dflt loc
  end.

(** * Happens-before on trace positions *)

Inductive hb (tr : list tevent) : nat -> nat -> Prop :=
| hb_po : forall i j e1 e2, (i < j)%nat ->
    nth_error tr i = Some e1 -> nth_error tr j = Some e2 -> ev_g e1 = ev_g e2 ->
    hb tr i j
| hb_sync : forall i j g1 g2 l m, (i < j)%nat ->
    nth_error tr i = Some (Rel g1 l) -> nth_error tr j = Some (Acq g2 l m) ->
    m = Exclusive \/ In (g1, l, Exclusive) (state_at tr i) ->
    hb tr i j
| hb_trans : forall i j k, hb tr i j -> hb tr j k -> hb tr i k.

(** A data race: two accesses to the same location by different goroutines, at
    least one a write, unordered by happens-before. *)
Definition conflicting (tr : list tevent) (i j : nat) : Prop :=
  exists g1 g2 loc a1 a2,
    nth_error tr i = Some (Acc g1 loc a1) /\ nth_error tr j = Some (Acc g2 loc a2) /\
    g1 <> g2 /\ (a1 = Write \/ a2 = Write).

Definition data_race (tr : list tevent) (i j : nat) : Prop :=
  conflicting tr i j /\ ~ hb tr i j /\ ~ hb tr j i.
