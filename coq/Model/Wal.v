(** M6 — write-ahead logging and restart recovery over abstract table pages.
    Mirrors lib/recovery/log_recovery/log_recovery.go (Redo, Undo), the record
    kinds of lib/recovery/log_record.go and the start-up order of
    lib/samehada/samehada.go, with a table page represented by its abstract
    content (Model/Page.v's specification state: slot -> (bytes, marked)) plus
    its page LSN.  C15's refinement theorem ties that abstract content to the
    concrete page bytes.  Model only: no proofs here. *)
From Coq Require Import List NArith Bool.
From SDB Require Import Base.Assoc Model.Page.
Import ListNotations.
Open Scope N_scope.

Inductive rkind :=
| KInsert (p slot : N) (b : list N)
| KMark (p slot : N)
| KApply (p slot : N) (b : list N)          (* image of the deleted tuple *)
| KRollback (p slot : N)                    (* ROLLBACKDELETE *)
| KUpdate (p slot : N) (old new : list N)
| KBegin
| KCommit
| KAbort
| KNewPage (prev p : N)
| KNop                                      (* a record of a page outside the scope (see [scope]): keeps its place in the LSN order and in its transaction's chain *)
| KOther.                                   (* DeallocatePage / ReusePage / GracefulShutdown: no table-page effect *)

Record lrec := mkR { l_lsn : N; l_txn : N; l_prev : option N; l_kind : rkind }.

Record apage := mkAP { plsn : N; pslots : astate }.
Definition pages := list (N * apage).

Definition page_of (k : rkind) : option N :=
  match k with
  | KInsert p _ _ | KMark p _ | KApply p _ _ | KRollback p _ | KUpdate p _ _ _ | KNewPage _ p => Some p
  | _ => None
  end.

(** the page operation a record stands for — what the engine did when it wrote
    the record, and what redo does again *)
Definition op_of (k : rkind) : option pop :=
  match k with
  | KInsert _ s b => Some (PInsertAt s b)      (* redo passes the logged RID *)
  | KMark _ s => Some (PMark s)
  | KApply _ s _ => Some (PApply s)
  | KRollback _ s => Some (PRollback s)
  | KUpdate _ s _ new => Some (PUpdate s new true)
  | _ => None
  end.

(** the inverse operation applied by the undo pass *)
Definition inv_of (k : rkind) : option pop :=
  match k with
  | KInsert _ s _ => Some (PApply s)
  | KMark _ s => Some (PRollback s)
  | KApply _ s b => Some (PInsertAt s b)
  | KRollback _ s => Some (PMark s)
  | KUpdate _ s old _ => Some (PUpdate s old true)
  | _ => None
  end.

Definition get_page (ps : pages) (p : N) : apage :=
  match aget ps p with Some pg => pg | None => mkAP 0 [] end.

(** apply a record to the pages unconditionally (what the running engine did) *)
Definition do_rec (ps : pages) (r : lrec) : pages :=
  match l_kind r with
  | KNewPage _ p => aset ps p (mkAP (l_lsn r) [])
  | k =>
    match page_of k, op_of k with
    | Some p, Some o =>
        let pg := get_page ps p in
        aset ps p (mkAP (l_lsn r) (fst (astep (pslots pg) o)))
    | _, _ => ps
    end
  end.

Definition replay (l : list lrec) (ps : pages) : pages := fold_left do_rec l ps.

(** Redo: the same, guarded by the page LSN *)
Definition redo_rec (ps : pages) (r : lrec) : pages :=
  match page_of (l_kind r) with
  | Some p => if plsn (get_page ps p) <? l_lsn r then do_rec ps r else ps
  | None => ps
  end.

Definition redo (l : list lrec) (ps : pages) : pages := fold_left redo_rec l ps.

(** transactions with a record in the log and neither COMMIT nor ABORT *)
Definition ended (l : list lrec) (t : N) : bool :=
  existsb (fun r => (l_txn r =? t) && match l_kind r with KCommit | KAbort => true | _ => false end) l.
Fixpoint nodupN (l : list N) : list N :=
  match l with [] => [] | x :: r => if memN x r then nodupN r else x :: nodupN r end.
Definition losers (l : list lrec) : list N :=
  nodupN (filter (fun t => negb (ended l t)) (map l_txn (filter (fun r => match l_kind r with KOther => false | _ => true end) l))).

(** lsnMapping: only records that carry an LSN are addressable (DeallocatePage / ReusePage records are written with LSN -1) *)
Definition find_lsn (l : list lrec) (n : N) : option lrec :=
  find (fun r => match l_kind r with KOther => false | _ => l_lsn r =? n end) l.
(** activeTxn[t]: the LSN of the last record of t (DeallocatePage / ReusePage / GracefulShutdown records belong to
    the dummy transaction MaxInt32, which Redo drops from the table: they are never anybody's last record) *)
Definition last_of (l : list lrec) (t : N) : option N :=
  match filter (fun r => (l_txn r =? t) && match l_kind r with KOther => false | _ => true end) (rev l) with
  | r :: _ => Some (l_lsn r)
  | [] => None
  end.

(** undo of one record: the inverse operation, no LSN stamp, nothing logged *)
Definition undo_rec (ps : pages) (r : lrec) : pages :=
  match page_of (l_kind r), inv_of (l_kind r) with
  | Some p, Some o =>
      let pg := get_page ps p in
      aset ps p (mkAP (plsn pg) (fst (astep (pslots pg) o)))
  | _, _ => ps
  end.

(** walk one loser's chain backwards through prevLSN (fuel = log length) *)
Fixpoint undo_chain (fuel : nat) (l : list lrec) (ps : pages) (cur : option N) : pages :=
  match fuel, cur with
  | S f, Some n =>
      match find_lsn l n with
      | Some r => undo_chain f l (undo_rec ps r) (l_prev r)
      | None => ps
      end
  | _, _ => ps
  end.

Definition undo_all (l : list lrec) (order : list N) (ps : pages) : pages :=
  fold_left (fun ps t => undo_chain (length l) l ps (last_of l t)) order ps.

(** restart = redo then undo of the losers in some order (the code iterates a Go map) *)
Definition recover (l : list lrec) (order : list N) (disk : pages) : pages :=
  undo_all l order (redo l disk).

(** * Checkable well-formedness of what the engine produced *)

Fixpoint eqb_bytes (a b : list N) : bool :=
  match a, b with
  | [], [] => true
  | x :: a', y :: b' => (x =? y) && eqb_bytes a' b'
  | _, _ => false
  end.

Definition aentry_beq (a b : aentry) : bool :=
  match a, b with
  | None, None => true
  | Some (x, m), Some (y, n) => eqb_bytes x y && Bool.eqb m n
  | _, _ => false
  end.

Fixpoint astate_beq (a b : astate) : bool :=
  match a, b with
  | [], [] => true
  | x :: a', y :: b' => aentry_beq x y && astate_beq a' b'
  | _, _ => false
  end.

(** the log replays: LSNs strictly increase and every operation succeeds with the
    recorded result (an insert lands in the recorded slot, update / delete find the
    recorded before-image) *)
Definition rec_ok (ps : pages) (r : lrec) : bool :=
  match l_kind r with
  | KInsert p s b =>
      match snd (astep (pslots (get_page ps p)) (PInsertAt s b)) with OInserted i => i =? s | _ => false end
  | KMark p s => match snd (astep (pslots (get_page ps p)) (PMark s)) with OMarked _ => true | _ => false end
  | KApply p s b =>
      match a_at (pslots (get_page ps p)) s with Some (Some (b', _)) => eqb_bytes b b' | _ => false end
  | KRollback p s => match a_at (pslots (get_page ps p)) s with Some (Some (_, true)) => true | _ => false end   (* only ever logged for a row the same transaction delete-marked *)
  | KUpdate p s old new =>
      match snd (astep (pslots (get_page ps p)) (PUpdate s new true)) with OUpdated o => eqb_bytes o old | _ => false end
  | _ => true
  end.

Definition has_lsn (k : rkind) : bool := match k with KOther => false | _ => true end.

Fixpoint log_ok_from (l : list lrec) (ps : pages) (last : option N) : bool :=
  match l with
  | [] => true
  | r :: rest =>
      (if has_lsn (l_kind r) then match last with Some n => n <? l_lsn r | None => true end else true) && rec_ok ps r &&
      log_ok_from rest (do_rec ps r) (if has_lsn (l_kind r) then Some (l_lsn r) else last)
  end.
Definition log_ok (l : list lrec) : bool := log_ok_from l [] None.

(** prevLSN chains: every record points to the previous record of its transaction *)
Fixpoint chains_ok_from (l : list lrec) (lastof : list (N * N)) : bool :=
  match l with
  | [] => true
  | r :: rest =>
      if has_lsn (l_kind r) then
        (match l_prev r, aget lastof (l_txn r) with
         | None, None => true
         | Some a, Some b => a =? b
         | _, _ => false
         end) && chains_ok_from rest (aset lastof (l_txn r) (l_lsn r))
      else chains_ok_from rest lastof
  end.
Definition chains_ok (l : list lrec) : bool := chains_ok_from l [].

(** the slot a record works on *)
Definition slot_of (k : rkind) : option (N * N) :=
  match k with
  | KInsert p s _ | KMark p s | KApply p s _ | KRollback p s | KUpdate p s _ _ => Some (p, s)
  | _ => None
  end.
Definition on_slot (p s : N) (r : lrec) : bool :=
  match slot_of (l_kind r) with Some (p', s') => (p' =? p) && (s' =? s) | None => false end.

(** strictness (what strict two-phase locking gives): once an unfinished transaction has touched a
    slot, nobody else touches that slot, and nobody re-creates its page *)
Fixpoint strict_ok_from (ls : list N) (l : list lrec) : bool :=
  match l with
  | [] => true
  | r :: rest =>
      (if memN (l_txn r) ls then
         match slot_of (l_kind r) with
         | Some (p, s) =>
             forallb (fun r' => negb (on_slot p s r') || (l_txn r' =? l_txn r)) rest &&
             forallb (fun r' => match l_kind r' with KNewPage _ p' => negb (p' =? p) | _ => true end) rest
         | None => true
         end
       else true) && strict_ok_from ls rest
  end.
Definition strict_ok (l : list lrec) : bool := strict_ok_from (losers l) l.

(** every disk page is the state of that page after some prefix of the log: pages are written whole and,
    by write-ahead logging, only after their records are durable.  Pages absent from [disk] were never written. *)
Definition page_is_prefix_state (l : list lrec) (p : N) (img : apage) : bool :=
  existsb (fun k => let pg := get_page (replay (firstn k l) []) p in
                    (plsn pg =? plsn img) && astate_beq (pslots pg) (pslots img))
          (seq 0 (S (length l))).
Definition disk_ok (l : list lrec) (disk : pages) : bool :=
  forallb (fun e => page_is_prefix_state l (fst e) (snd e)) disk.

(** no unfinished transaction has an applied delete in the log (the crash did not hit the middle of a
    commit that applies deletes) *)
Definition no_loser_apply (l : list lrec) : bool :=
  forallb (fun r => negb (memN (l_txn r) (losers l) && match l_kind r with KApply _ _ _ => true | _ => false end)) l.

(** The catalog's own pages are created while logging is off (bootstrap), so the log does not describe
    them from their creation; the recovery theorems are stated for the pages whose creation IS in the
    log (every user-table page).  [scope] turns the records of all other pages into no-ops. *)
Definition tracked (l : list lrec) : list N :=
  flat_map (fun r => match l_kind r with KNewPage _ p => [p] | _ => [] end) l.
Definition scope (l : list lrec) : list lrec :=
  map (fun r => match page_of (l_kind r) with
                | Some p => if memN p (tracked l) then r else mkR (l_lsn r) (l_txn r) (l_prev r) KNop
                | None => r
                end) l.

(** the updates of unfinished transactions in the log do not shrink rows: forward updates never do; only the
    records of a rollback in progress can (the crash did not hit the middle of an abort that shrank a row) *)
Definition loser_updates_grow (l : list lrec) : bool :=
  forallb (fun r => negb (memN (l_txn r) (losers l)) ||
                    match l_kind r with KUpdate _ _ old new => blen old <=? blen new | _ => true end) l.

(** * What recovery should produce, slot by slot *)

Definition slot_step (v : aentry) (k : rkind) : aentry :=
  match k with
  | KInsert _ _ b => Some (b, false)
  | KMark _ _ => match v with Some (b, _) => Some (b, true) | None => None end
  | KApply _ _ _ => None
  | KRollback _ _ => match v with Some (b, _) => Some (b, false) | None => None end
  | KUpdate _ _ _ new => Some (new, false)
  | _ => v
  end.

(** value of slot (p,s) after the given records (a re-creation of the page empties it) *)
Definition slot_val (l : list lrec) (p s : N) : aentry :=
  fold_left (fun v r =>
    match l_kind r with
    | KNewPage _ p' => if p' =? p then None else v
    | k => if on_slot p s r then slot_step v k else v
    end) l None.

(** the committed state: what the finished (committed or completely rolled back) transactions left *)
Definition committed_val (l : list lrec) (p s : N) : aentry :=
  slot_val (filter (fun r => negb (memN (l_txn r) (losers l))) l) p s.

Definition page_val (ps : pages) (p s : N) : aentry :=
  match a_at (pslots (get_page ps p)) s with Some e => e | None => None end.

(** every page operation performed by redo and undo succeeds (no panic, no "no space", no failure) *)
Definition out_ok (o : pout) : bool :=
  match o with
  | OInserted _ | OUpdated _ | OMarked _ | ODone => true
  | _ => false
  end.

(** * The outcomes of the page operations performed by a restart (to state "restart succeeds") *)

Definition redo_out (ps : pages) (r : lrec) : list pout :=
  match page_of (l_kind r), op_of (l_kind r) with
  | Some p, Some o => if plsn (get_page ps p) <? l_lsn r then [snd (astep (pslots (get_page ps p)) o)] else []
  | _, _ => []
  end.

Fixpoint redo_outs (l : list lrec) (ps : pages) : list pout :=
  match l with
  | [] => []
  | r :: rest => redo_out ps r ++ redo_outs rest (redo_rec ps r)
  end.

Definition undo_out (ps : pages) (r : lrec) : list pout :=
  match page_of (l_kind r), inv_of (l_kind r) with
  | Some p, Some o => [snd (astep (pslots (get_page ps p)) o)]
  | _, _ => []
  end.

Fixpoint undo_chain_outs (fuel : nat) (l : list lrec) (ps : pages) (cur : option N) : list pout :=
  match fuel, cur with
  | S f, Some n =>
      match find_lsn l n with
      | Some r => undo_out ps r ++ undo_chain_outs f l (undo_rec ps r) (l_prev r)
      | None => []
      end
  | _, _ => []
  end.

Fixpoint undo_all_outs (l : list lrec) (order : list N) (ps : pages) : list pout :=
  match order with
  | [] => []
  | t :: rest =>
      undo_chain_outs (length l) l ps (last_of l t) ++
      undo_all_outs l rest (undo_chain (length l) l ps (last_of l t))
  end.

Definition recover_outs (l : list lrec) (order : list N) (disk : pages) : list pout :=
  redo_outs l disk ++ undo_all_outs l order (redo l disk).

(** table pages are not re-created within one log: a NewTablePage record is the first record of its page *)
Fixpoint fresh_pages_ok (l : list lrec) (seen : list N) : bool :=
  match l with
  | [] => true
  | r :: rest =>
      match l_kind r with
      | KNewPage _ p => negb (memN p seen) && fresh_pages_ok rest (p :: seen)
      | k => match page_of k with
             | Some p => memN p seen && fresh_pages_ok rest seen     (* and every record's page was created in this log *)
             | None => fresh_pages_ok rest seen
             end
      end
  end.

(** everything the theorems assume about a crash image, as one checkable predicate *)
Definition image_wf (l : list lrec) (disk : pages) : bool :=
  log_ok l && chains_ok l && strict_ok l && fresh_pages_ok l [] && disk_ok l disk && no_loser_apply l && loser_updates_grow l.

(** the inverse record a rollback writes for a record *)
Definition inv_kind (k : rkind) : rkind :=
  match k with
  | KInsert p s b => KApply p s b
  | KMark p s => KRollback p s
  | KUpdate p s old new => KUpdate p s new old
  | KRollback p s => KMark p s
  | KApply p s b => KInsert p s b
  | k => k
  end.

(** the recorded before-image of a forward record matches the slot's value *)
Definition pre_ok (v : aentry) (k : rkind) : bool :=
  match k, v with
  | KInsert _ _ _, None => true
  | KMark _ _, Some (_, false) => true
  | KUpdate _ _ old _, Some (b, false) => eqb_bytes old b
  | _, _ => false
  end.

Fixpoint pre_ok_seq (v : aentry) (ks : list rkind) : bool :=
  match ks with
  | [] => true
  | k :: rest => pre_ok v k && pre_ok_seq (slot_step v k) rest
  end.
