(** M17b — executable sequential model of the block skip list behind the
    skip-list index (lib/container/skip_list/skip_list.go,
    lib/storage/page/skip_list_page/skip_list_block_page.go).

    A node is a page holding a sorted array of (key, value) entries and a tower
    of forward pointers.  The start node carries the "-infinity" entry (not
    stored in [n_entries] here, but counted against the capacity exactly as the
    engine counts it); the sentinel node ("+infinity") is the distinguished id
    [sl_sentinel], never a member of the node map.

    What is mirrored from the Go code:
    - [sl_find] = FindNode: levels top-down, at each level walk forward while the
      smallest key of the next node is <= key; record the corner node of every
      level and the node the traversal last moved from ("pred of corner").
      For Remove, when the node reached at a level > 0 is a single-entry node
      holding exactly the key, the corner of that level is the node the
      traversal came from and the search resumes from there.
    - [sl_insert_with] = SkipList.Insert / SkipListBlockPage.Insert: overwrite on
      an equal key; otherwise insert in place; a full node is split at
      [splitIdx]: entries [0..splitIdx] stay, entries (splitIdx, cnt) move to a
      fresh node of the given level which is linked after corners[0..level) with
      corners[0] := the node itself (SplitNode / newNodeAndUpdateChain); the new
      entry goes to the new node iff its nearest smaller entry moved there.
    - [sl_remove] = SkipList.Remove / SkipListBlockPage.Remove: a found entry of a
      one-entry node unlinks the node at levels 1..level-1 through corners[ii]
      and at level 0 through predOfCorners[0], then the page is deallocated; the
      start node always has entry count >= 2 when it holds a real key, so it is
      never removed.
    - [sl_to_list] / [sl_range] = SkipListIterator.initRIDList: walk of level 0.

    Abstractions: the capacity is a number of entries [sl_cap] (the engine's is a
    number of bytes); binary search inside a page and the slotted layout are the
    sorted-list functions [om_insert] / [om_remove] / [om_find] on the entries of
    ONE node; latches, pins, update counters (LSN), retries and page-id reuse
    are not modelled; the split index is a policy [spf] (the engine: cnt / 2 for
    fixed-size keys, a size-based index for varchar) clamped to the range in
    which both halves are non-empty; the random level is an input.

    Observed in the engine and NOT covered by the entry-count capacity: overwriting
    an existing key (SetEntry on the found index) appends the new bytes without
    reclaiming the old ones and without a free-space check, so about
    PageSize / entrySize overwrites of keys of one page make the page panic
    (slice bounds out of range); the model's overwrite never consumes capacity.

    Walks are fuelled ([sl_fuel] = number of nodes + 1); running out of fuel and
    following a dangling pointer are explicit errors.

    Model only: no proofs in this file. *)
From Coq Require Import List NArith ZArith Bool Arith.
From SDB Require Import Base.Bytes Base.Assoc Model.IndexWrap.
Import ListNotations.
Local Open Scope nat_scope.

(** * Results *)

Inductive sl_err : Type := SlOutOfFuel | SlDangling.

Inductive res (A : Type) : Type :=
| Ok (a : A)
| Err (e : sl_err).
Arguments Ok {A}.
Arguments Err {A}.

Definition rbind {A B} (m : res A) (f : A -> res B) : res B :=
  match m with Ok a => f a | Err e => Err e end.

(** * Nodes and lists *)

Notation skey := (list N) (only parsing).
Notation sval := rid (only parsing).
Notation sentry := (list N * rid)%type (only parsing).

Record node : Type := mkNode {
  n_entries : list sentry;   (* strictly sorted; non-empty except the start node *)
  n_level : nat;             (* number of levels the node is linked at *)
  n_fwd : list N             (* forward pointers, index 0 = level 0 *)
}.

Record slist : Type := mkSl {
  sl_nodes : list (N * node);
  sl_next : N;               (* next fresh node id *)
  sl_cap : nat;              (* entries per node, the start node's -inf entry included *)
  sl_maxl : nat              (* MaxForwardListLen *)
}.

Definition sl_start : N := 0%N.
Definition sl_sentinel : N := 1%N.

(** NewSkipListStartBlockPage: every forward pointer of the start node is the
    sentinel. *)
Definition sl_empty (cap maxl : nat) : slist :=
  mkSl [(sl_start, mkNode [] maxl (repeat sl_sentinel maxl))] 2%N cap maxl.

Definition sl_fuel (s : slist) : nat := S (length (sl_nodes s)).

(** Accessors on the node map. *)
Definition ent (ns : list (N * node)) (id : N) : list sentry :=
  match aget ns id with Some n => n_entries n | None => [] end.

Definition lev (ns : list (N * node)) (id : N) : nat :=
  match aget ns id with Some n => n_level n | None => 0 end.

Definition fw (ns : list (N * node)) (id : N) (l : nat) : option N :=
  match aget ns id with Some n => nth_error (n_fwd n) l | None => None end.

(** GetSmallestKey of a non-start node. *)
Definition first_key (ns : list (N * node)) (id : N) : option skey :=
  match ent ns id with (k, _) :: _ => Some k | [] => None end.

Fixpoint lset (l : list N) (i : nat) (x : N) : list N :=
  match l, i with
  | [], _ => []
  | _ :: r, O => x :: r
  | y :: r, S i' => y :: lset r i' x
  end.

(** SetForwardEntry / SetEntries. *)
Definition set_fwd (ns : list (N * node)) (id : N) (l : nat) (x : N) : list (N * node) :=
  match aget ns id with
  | Some n => aset ns id (mkNode (n_entries n) (n_level n) (lset (n_fwd n) l x))
  | None => ns
  end.

Definition set_ent (ns : list (N * node)) (id : N) (es : list sentry) : list (N * node) :=
  match aget ns id with
  | Some n => aset ns id (mkNode es (n_level n) (n_fwd n))
  | None => ns
  end.

(** * FindNode *)

(** The inner loop of FindNode at level [l]: returns the node the walk stops on
    and the node it last moved from. *)
Fixpoint sl_walk (fuel : nat) (ns : list (N * node)) (key : skey) (l : nat)
    (pred : N) (pp : option N) : res (N * option N) :=
  match fuel with
  | O => Err SlOutOfFuel
  | S f =>
      match fw ns pred l with
      | None => Err SlDangling
      | Some cur =>
          if (cur =? sl_sentinel)%N then Ok (pred, pp)
          else match first_key ns cur with
               | None => Err SlDangling
               | Some k0 =>
                   if lex_leb k0 key then sl_walk f ns key l cur (Some pred)
                   else Ok (pred, pp)
               end
      end
  end.

(** [pred.GetEntryCnt() == 1 && key.CompareEquals(pred.GetSmallestKey())]; the
    start node's entry 0 is -infinity, which equals no key. *)
Definition is_target (ns : list (N * node)) (key : skey) (id : N) : bool :=
  negb (id =? sl_start)%N &&
  match ent ns id with
  | [(k0, _)] => match lex_cmp key k0 with Eq => true | _ => false end
  | _ => false
  end.

(** The level loop: [nl] levels remain (the next one is [nl - 1]); [corners] and
    [pocs] (predOfCorners) are filled from the top, so index 0 = level 0. *)
Fixpoint sl_levels (fuel : nat) (ns : list (N * node)) (key : skey) (rm : bool)
    (nl : nat) (pred : N) (pp : option N) (corners : list N) (pocs : list (option N))
    : res (N * list N * list (option N)) :=
  match nl with
  | O => Ok (pred, corners, pocs)
  | S l =>
      match sl_walk fuel ns key l pred pp with
      | Err e => Err e
      | Ok (p, q) =>
          if rm && negb (l =? 0) && is_target ns key p then
            (* the node to be removed is reached: its corner is where we came from *)
            match q with
            | None => Err SlDangling
            | Some c => sl_levels fuel ns key rm l c q (c :: corners) (None :: pocs)
            end
          else sl_levels fuel ns key rm l p q (p :: corners) (q :: pocs)
      end
  end.

(** FindNode(key, opType): [rm] = (opType == SkipListOpRemove). *)
Definition sl_find (rm : bool) (key : skey) (s : slist)
    : res (N * list N * list (option N)) :=
  sl_levels (sl_fuel s) (sl_nodes s) key rm (sl_maxl s) sl_start None [] [].

(** * Lookup *)

Definition om_find (k : skey) (m : list sentry) : option sval :=
  match find (fun e => match lex_cmp k (fst e) with Eq => true | _ => false end) m with
  | Some e => Some (snd e)
  | None => None
  end.

(** GetValue: [None] = math.MaxUint64. *)
Definition sl_get (k : skey) (s : slist) : res (option sval) :=
  rbind (sl_find false k s) (fun r =>
    let '(n, _, _) := r in Ok (om_find k (ent (sl_nodes s) n))).

(** * Insert *)

(** Entry count of a node as the engine counts it. *)
Definition node_cnt (id : N) (es : list sentry) : nat :=
  length es + (if (id =? sl_start)%N then 1 else 0).

(** A split policy maps (is start node, real entries) to splitIdx, an index
    into the engine's entry array (which for the start node begins with the
    -infinity entry). *)
Definition split_policy : Type := bool -> list sentry -> nat.

(** [splitIdx = node.GetEntryCnt() / 2] (fixed-size keys). *)
Definition sl_half : split_policy :=
  fun isst es => (length es + (if isst then 1 else 0)) / 2.

(** Number of real entries that stay: entries [0..splitIdx] of the array, with
    splitIdx clamped to [0, cnt - 2] (the engine panics or misbehaves outside). *)
Definition split_keep (spf : split_policy) (isst : bool) (es : list sentry) : nat :=
  let b := if isst then 1 else 0 in
  Nat.min (spf isst es) (length es + b - 2) + 1 - b.

(** GetNodeLevel's result: 1 <= level <= MaxForwardListLen. *)
Definition clamp_level (maxl lvl : nat) : nat := Nat.max 1 (Nat.min lvl maxl).

(** newNodeAndUpdateChain: for ii in [l, l + |cs|): new.fwd[ii] := c.fwd[ii];
    c.fwd[ii] := new.  Returns the updated map and the new node's tower. *)
Fixpoint sl_relink (ns : list (N * node)) (nid : N) (cs : list N) (l : nat)
    : res (list (N * node) * list N) :=
  match cs with
  | [] => Ok (ns, [])
  | c :: cs' =>
      match fw ns c l with
      | None => Err SlDangling
      | Some nx =>
          match sl_relink (set_fwd ns c l nid) nid cs' (S l) with
          | Err e => Err e
          | Ok (ns', fws) => Ok (ns', nx :: fws)
          end
      end
  end.

(** The full-node branch of SkipListBlockPage.Insert: SplitNode, then insert the
    entry into the proper half.  [n] = the node, [cs] = corners, [es] = its
    entries. *)
Definition sl_split_insert (spf : split_policy) (k : skey) (v : sval) (lvl : nat)
    (s : slist) (n : N) (cs : list N) (es : list sentry) : res slist :=
  let ns := sl_nodes s in
  let keep := split_keep spf (n =? sl_start)%N es in
  let lo := firstn keep es in
  let hi := skipn keep es in
  let lv := clamp_level (sl_maxl s) lvl in
  let nid := sl_next s in
  (* corners[0] = this node *)
  match sl_relink ns nid (firstn lv (n :: tl cs)) 0 with
  | Err e => Err e
  | Ok (ns1, fws) =>
      (* foundIdx > splitIdx  <->  the first moved entry is smaller than k *)
      let to_new := match hi with
                    | (k0, _) :: _ =>
                        match lex_cmp k0 k with Lt => true | _ => false end
                    | [] => false
                    end in
      let lo' := if to_new then lo else om_insert k v lo in
      let hi' := if to_new then om_insert k v hi else hi in
      Ok (mkSl (aset (set_ent ns1 n lo') nid (mkNode hi' lv fws))
               (nid + 1)%N (sl_cap s) (sl_maxl s))
  end.

Definition sl_insert_with (spf : split_policy) (k : skey) (v : sval) (lvl : nat)
    (s : slist) : res slist :=
  rbind (sl_find false k s) (fun r =>
    let '(n, cs, _) := r in
    let ns := sl_nodes s in
    match aget ns n with
    | None => Err SlDangling
    | Some nd =>
        let es := n_entries nd in
        if om_mem k es || (node_cnt n es <? sl_cap s) then
          (* overwrite, or room left: insert in place *)
          Ok (mkSl (set_ent ns n (om_insert k v es)) (sl_next s) (sl_cap s) (sl_maxl s))
        else sl_split_insert spf k v lvl s n cs es
    end).

Definition sl_insert : skey -> sval -> nat -> slist -> res slist := sl_insert_with sl_half.

(** * Remove *)

(** corner.fwd[ii] := node.fwd[ii] for the corners of levels [l, l + |cs|). *)
Fixpoint sl_unlink (ns : list (N * node)) (n : N) (cs : list N) (l : nat)
    : res (list (N * node)) :=
  match cs with
  | [] => Ok ns
  | c :: cs' =>
      match fw ns n l with
      | None => Err SlDangling
      | Some nx => sl_unlink (set_fwd ns c l nx) n cs' (S l)
      end
  end.

Definition sl_remove (k : skey) (s : slist) : res slist :=
  rbind (sl_find true k s) (fun r =>
    let '(n, cs, ps) := r in
    let ns := sl_nodes s in
    match aget ns n with
    | None => Err SlDangling
    | Some nd =>
        let es := n_entries nd in
        if om_mem k es then
          if negb (n =? sl_start)%N && (length es =? 1) then
            (* the node becomes empty: level 0 through predOfCorners[0],
               levels 1..level-1 through corners[ii]; then DeallocatePage *)
            match ps with
            | Some p0 :: _ =>
                match sl_unlink ns n (p0 :: tl (firstn (n_level nd) cs)) 0 with
                | Err e => Err e
                | Ok ns1 => Ok (mkSl (adel ns1 n) (sl_next s) (sl_cap s) (sl_maxl s))
                end
            | _ => Err SlDangling
            end
          else
            Ok (mkSl (set_ent ns n (om_remove k es)) (sl_next s) (sl_cap s) (sl_maxl s))
        else Ok s
    end).

(** * Iterator *)

(** Entries of the level-0 chain starting at node [id]. *)
Fixpoint sl_collect (fuel : nat) (ns : list (N * node)) (id : N) : res (list sentry) :=
  match fuel with
  | O => Err SlOutOfFuel
  | S f =>
      if (id =? sl_sentinel)%N then Ok []
      else match aget ns id with
           | None => Err SlDangling
           | Some n =>
               match nth_error (n_fwd n) 0 with
               | None => Err SlDangling
               | Some nx =>
                   match sl_collect f ns nx with
                   | Err e => Err e
                   | Ok r => Ok (n_entries n ++ r)
                   end
               end
           end
  end.

Definition sl_to_list (s : slist) : res (list sentry) :=
  sl_collect (sl_fuel s) (sl_nodes s) sl_start.

Fixpoint drop_while {A} (f : A -> bool) (l : list A) : list A :=
  match l with
  | [] => []
  | x :: r => if f x then drop_while f r else l
  end.

Fixpoint take_while {A} (f : A -> bool) (l : list A) : list A :=
  match l with
  | [] => []
  | x :: r => if f x then x :: take_while f r else []
  end.

(** Iterator(lo, hi): position on the node FindNode returns for [lo] (the start
    node when unbounded), skip the entries smaller than [lo], yield entries
    until one is greater than [hi]. *)
Definition sl_range (lo hi : option skey) (s : slist) : res (list sentry) :=
  rbind (match lo with
         | None => Ok sl_start
         | Some l => rbind (sl_find false l s) (fun r => let '(n, _, _) := r in Ok n)
         end) (fun n0 =>
  rbind (sl_collect (sl_fuel s) (sl_nodes s) n0) (fun all =>
    Ok (take_while (fun e => match hi with None => true | Some h => lex_leb (fst e) h end)
         (drop_while (fun e => match lo with
                               | None => false
                               | Some l => negb (lex_leb l (fst e))
                               end) all)))).

(** * Operation sequences *)

Inductive sl_op : Type :=
| SlIns (k : skey) (v : sval) (lvl : nat)
| SlDel (k : skey).

Definition sl_apply (spf : split_policy) (s : slist) (o : sl_op) : res slist :=
  match o with
  | SlIns k v lvl => sl_insert_with spf k v lvl s
  | SlDel k => sl_remove k s
  end.

Fixpoint sl_run_from (spf : split_policy) (s : slist) (ops : list sl_op) : res slist :=
  match ops with
  | [] => Ok s
  | o :: r => rbind (sl_apply spf s o) (fun s' => sl_run_from spf s' r)
  end.

Definition sl_run (spf : split_policy) (cap maxl : nat) (ops : list sl_op) : res slist :=
  sl_run_from spf (sl_empty cap maxl) ops.

(** The specification side. *)
Definition om_apply (m : omap) (o : sl_op) : omap :=
  match o with
  | SlIns k v _ => om_insert k v m
  | SlDel k => om_remove k m
  end.

Definition om_run (ops : list sl_op) : omap := fold_left om_apply ops om_empty.

(** * Executable check of the structural invariant (for the driver)

    The level-[l] chain from the start node, as a list of ids (sentinel
    excluded). *)
Fixpoint sl_chain (fuel : nat) (ns : list (N * node)) (l : nat) (id : N) : res (list N) :=
  match fuel with
  | O => Err SlOutOfFuel
  | S f =>
      if (id =? sl_sentinel)%N then Ok []
      else match fw ns id l with
           | None => Err SlDangling
           | Some nx =>
               match sl_chain f ns l nx with
               | Err e => Err e
               | Ok r => Ok (id :: r)
               end
           end
  end.

Fixpoint list_N_eqb (a b : list N) : bool :=
  match a, b with
  | [], [] => true
  | x :: a', y :: b' => (x =? y)%N && list_N_eqb a' b'
  | _, _ => false
  end.

Definition sl_checkb (s : slist) : bool :=
  let ns := sl_nodes s in
  match sl_chain (sl_fuel s) ns 0 sl_start with
  | Err _ => false
  | Ok c0 =>
      (length c0 =? length ns) &&
      forallb (fun l =>
        match sl_chain (sl_fuel s) ns l sl_start with
        | Err _ => false
        | Ok cl => list_N_eqb cl (filter (fun id => l <? lev ns id) c0)
        end) (seq 0 (sl_maxl s)) &&
      forallb (fun id =>
        (Nat.leb 1 (lev ns id)) && (Nat.leb (lev ns id) (sl_maxl s)) &&
        (node_cnt id (ent ns id) <=? sl_cap s) &&
        ((id =? sl_start)%N || negb (length (ent ns id) =? 0))) c0 &&
      om_sortedb (concat (map (ent ns) c0))
  end.
