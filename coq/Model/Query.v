(** M6 — executable model of single-table query planning (property C06).
    Mirrors, branch for branch and quirks included,
      lib/types/column_value.go                       Compare*, IsInfMax, IsInfMin      -> [cv_*]
      lib/planner/optimizer/selinger_optimizer.go     NewRange, Range.Empty, Range.Update,
                                                      touchOnly, findBestScan            -> [range_*], [walk], [candidates]
      lib/planner/simple_planner.go                   MakeSelectPlanWithoutJoin (OR path) -> [or_plan]
      lib/execution/executors/{range_scan_with_index,selection,seq_scan,projection}_executor.go
      lib/execution/expression/{comparison,loggical_op}.go                              -> [run_plan], [eng_eval]
    on the value / predicate types of the reference semantics (Model/SqlRef.v).
    Model only: no proofs in this file.

    What the model takes as given (and where that is established):
    - the index range scan over [lo,hi] returns exactly the entries whose key k
      satisfies lo <= k <= hi in the reference order [vcmp] (both bounds
      inclusive), in key order: SkipListIndex.GetRangeScanIterator compares the
      encoded keys bytewise, and the encoded order is the value order for
      integers, non-NaN floats and NUL-free strings (C18: int_order, float_order,
      str_order, *_scankey; C17 for the container).  A bound the plan carries that
      IsInfMin() (start) / IsInfMax() (end) is replaced by nil in
      RangeScanWithIndexExecutor.Init: that side is scanned unbounded ([scan_in]);
    - a row whose indexed column is NULL is stored in the index under the zero
      value of the column type (EncodeValueAndRIDToDicOrderComparableVarchar reads
      ToInteger()/ToFloat()/Serialize() of a value whose payload SetNull() zeroed);
      when a range scan meets such an entry the executor's "value updated after
      iterator creation" test (curKeyVal.CompareEquals(key), NULL vs. zero) fails and
      the transaction is aborted: [run_plan] returns [None];
    - entries with equal keys come in row-id order; the model uses table order;
    - column names are resolved (RewriteQueryInfo rejects unknown ones), so every
      comparison [column op literal] of the WHERE tree is "related";
    - the engine projects twice (push-down onto the touched columns in findBestScan,
      final projection onto the select list in findBestJoin), eliding a projection
      that would be the identity; the model has the composition, one Projection
      onto the select list;
    - which candidate the cost model picks is an input ([chosen]): the theorems
      hold for every candidate. *)
From Coq Require Import List NArith ZArith Bool.
From SDB Require Import Base.Bytes Model.Codec Model.SqlRef.
Import ListNotations.

Inductive coltype := TInt | TFloat | TStr.

(** * types.Value: sentinels *)

Definition max_int32 : Z := 2147483647.
Definition min_int32 : Z := (-2147483648)%Z.
(** math.MaxFloat32 = 0x7f7fffff, -math.MaxFloat32 = 0xff7fffff (bit patterns) *)
Definition max_f32 : N := 2139095039%N.
Definition neg_max_f32 : N := 4286578687%N.
(** "SamehadaDBInfMaxValue" / "SamehadaDBInfMinValue" *)
Definition inf_max_str : list N :=
  [83;97;109;101;104;97;100;97;68;66;73;110;102;77;97;120;86;97;108;117;101]%N.
Definition inf_min_str : list N :=
  [83;97;109;101;104;97;100;97;68;66;73;110;102;77;105;110;86;97;108;117;101]%N.

(** Go's float32 operators on bit patterns: every comparison with a NaN is
    false except [!=]. *)
Definition go_feq (u v : N) : bool :=
  negb (f_is_nan u) && negb (f_is_nan v) && (f_key u =? f_key v)%Z.
Definition go_flt (u v : N) : bool :=
  negb (f_is_nan u) && negb (f_is_nan v) && (f_key u <? f_key v)%Z.
Definition go_fle (u v : N) : bool :=
  negb (f_is_nan u) && negb (f_is_nan v) && (f_key u <=? f_key v)%Z.
Definition go_fgt (u v : N) : bool :=
  negb (f_is_nan u) && negb (f_is_nan v) && (f_key u >? f_key v)%Z.
Definition go_fge (u v : N) : bool :=
  negb (f_is_nan u) && negb (f_is_nan v) && (f_key u >=? f_key v)%Z.

(** Go's string operators (bytewise). *)
Definition s_eq (s t : list N) : bool := match lex_cmp s t with Eq => true | _ => false end.
Definition s_lt (s t : list N) : bool := match lex_cmp s t with Lt => true | _ => false end.
Definition s_le (s t : list N) : bool := match lex_cmp s t with Gt => false | _ => true end.
Definition s_gt (s t : list N) : bool := match lex_cmp s t with Gt => true | _ => false end.
Definition s_ge (s t : list N) : bool := match lex_cmp s t with Lt => false | _ => true end.

Definition zero_of (ty : coltype) : value :=
  match ty with TInt => VInt 0 | TFloat => VFloat 0 | TStr => VStr [] end.

(** The payload Go reads from a Value without looking at isNull.  A NULL carries
    the zero value of its type (SetNull); the model's [VNull] is untyped and takes
    the type of the other operand (NewNull() itself is Integer-typed: comparing it
    with a Float/Varchar value dereferences a nil pointer in Go — outside the model). *)
Definition payload (like v : value) : value :=
  match v with
  | VNull => match like with VInt _ => VInt 0 | VFloat _ => VFloat 0 | VStr _ => VStr [] | VNull => VInt 0 end
  | _ => v
  end.

(** Value.IsInfMax / Value.IsInfMin (a NULL has the zero payload: never a sentinel) *)
Definition cv_is_inf_max (v : value) : bool :=
  match v with
  | VInt z => (z =? max_int32)%Z
  | VFloat u => go_feq u max_f32
  | VStr s => s_eq s inf_max_str
  | VNull => false
  end.
Definition cv_is_inf_min (v : value) : bool :=
  match v with
  | VInt z => (z =? min_int32)%Z
  | VFloat u => go_feq u neg_max_f32
  | VStr s => s_eq s inf_min_str
  | VNull => false
  end.

(** The final [switch v.valueType] of each Compare* method.  Operands of
    different types make Go dereference a nil pointer: [false] here, outside the
    domain of every theorem. *)
Definition raw_eq (a b : value) : bool :=
  match a, b with
  | VInt x, VInt y => (x =? y)%Z | VFloat u, VFloat v => go_feq u v | VStr s, VStr t => s_eq s t
  | _, _ => false end.
Definition raw_ne (a b : value) : bool :=
  match a, b with
  | VInt x, VInt y => negb (x =? y)%Z | VFloat u, VFloat v => negb (go_feq u v) | VStr s, VStr t => negb (s_eq s t)
  | _, _ => false end.
Definition raw_gt (a b : value) : bool :=
  match a, b with
  | VInt x, VInt y => (x >? y)%Z | VFloat u, VFloat v => go_fgt u v | VStr s, VStr t => s_gt s t
  | _, _ => false end.
Definition raw_ge (a b : value) : bool :=
  match a, b with
  | VInt x, VInt y => (x >=? y)%Z | VFloat u, VFloat v => go_fge u v | VStr s, VStr t => s_ge s t
  | _, _ => false end.
Definition raw_lt (a b : value) : bool :=
  match a, b with
  | VInt x, VInt y => (x <? y)%Z | VFloat u, VFloat v => go_flt u v | VStr s, VStr t => s_lt s t
  | _, _ => false end.
Definition raw_le (a b : value) : bool :=
  match a, b with
  | VInt x, VInt y => (x <=? y)%Z | VFloat u, VFloat v => go_fle u v | VStr s, VStr t => s_le s t
  | _, _ => false end.

(** * types.Value: the six Compare* methods, branch for branch *)

Definition cv_eq (v r : value) : bool :=
  if is_null v && is_null r then true
  else if is_null v || is_null r then false
  else if cv_is_inf_max v && cv_is_inf_max r then true
  else raw_eq v r.

Definition cv_ne (v r : value) : bool :=
  if is_null v && is_null r then false
  else if is_null v || is_null r then true
  else if cv_is_inf_max v && cv_is_inf_max r then false
  else if cv_is_inf_max v || cv_is_inf_max r then true
  else raw_ne v r.

(** CompareGreaterThan / CompareLessThan: false when either side is NULL (they tested only the receiver before the
    repair F-NULL-RIGHT; [payload] is then the identity on the right operand). *)
Definition cv_gt (v r0 : value) : bool :=
  if is_null v || is_null r0 then false
  else let r := payload v r0 in
  if cv_is_inf_max v && cv_is_inf_max r then false
  else if cv_is_inf_max v then true
  else if cv_is_inf_max r then false
  else if cv_is_inf_min v && cv_is_inf_min r then false
  else if cv_is_inf_min v then false
  else if cv_is_inf_min r then true
  else raw_gt v r.

Definition cv_ge (v r : value) : bool :=
  if is_null v && is_null r then true
  else if is_null v || is_null r then false
  else if cv_is_inf_max v && cv_is_inf_max r then true
  else if cv_is_inf_max v then true
  else if cv_is_inf_max r then false
  else if cv_is_inf_min v && cv_is_inf_min r then true
  else if cv_is_inf_min v then false
  else if cv_is_inf_min r then true
  else raw_ge v r.

Definition cv_lt (v r0 : value) : bool :=
  if is_null v || is_null r0 then false
  else let r := payload v r0 in
  if cv_is_inf_max v && cv_is_inf_max r then false
  else if cv_is_inf_max v then false
  else if cv_is_inf_max r then true
  else if cv_is_inf_min v && cv_is_inf_min r then false
  else if cv_is_inf_min v then true
  else if cv_is_inf_min r then false
  else raw_lt v r.

Definition cv_le (v r : value) : bool :=
  if is_null v && is_null r then true
  else if is_null v || is_null r then false
  else if cv_is_inf_max v && cv_is_inf_max r then true
  else if cv_is_inf_max v then false
  else if cv_is_inf_max r then true
  else if cv_is_inf_min v && cv_is_inf_min r then true
  else if cv_is_inf_min v then true
  else if cv_is_inf_min r then false
  else raw_le v r.

(** Comparison.performComparison *)
Definition cv_cmp (o : cmpop) (v r : value) : bool :=
  match o with
  | OEq => cv_eq v r | ONe => cv_ne v r
  | OGt => cv_gt v r | OGe => cv_ge v r
  | OLt => cv_lt v r | OLe => cv_le v r
  end.

(** * optimizer.Range *)

Record range := { rmin : value; rmax : value; rmin_inc : bool; rmax_inc : bool }.

Inductive direction := DirRight | DirLeft.

(** SetInfMin / SetInfMax of the column type *)
Definition inf_min (ty : coltype) : value :=
  match ty with TInt => VInt min_int32 | TFloat => VFloat neg_max_f32 | TStr => VStr inf_min_str end.
Definition inf_max (ty : coltype) : value :=
  match ty with TInt => VInt max_int32 | TFloat => VFloat max_f32 | TStr => VStr inf_max_str end.

Definition new_range (ty : coltype) : range :=
  {| rmin := inf_min ty; rmax := inf_max ty; rmin_inc := false; rmax_inc := false |}.

(** Range.Empty: "field is changed from initial value" *)
Definition range_empty (r : range) : bool := cv_is_inf_min (rmin r) && cv_is_inf_max (rmax r).

Definition set_max (r : range) (v : value) (inc : bool) : range :=
  {| rmin := rmin r; rmax := v; rmin_inc := rmin_inc r; rmax_inc := inc |}.
Definition set_min (r : range) (v : value) (inc : bool) : range :=
  {| rmin := v; rmax := rmax r; rmin_inc := inc; rmax_inc := rmax_inc r |}.

Definition is_right (d : direction) : bool := match d with DirRight => true | DirLeft => false end.

(** Range.Update.  '=' and '>=' overwrite without comparing, '<>' does nothing. *)
Definition range_update (o : cmpop) (rhs : value) (d : direction) (r : range) : range :=
  match o with
  | OEq => {| rmin := rhs; rmax := rhs; rmin_inc := true; rmax_inc := true |}
  | ONe => r
  | OLt | OGt =>
      if (is_right d && match o with OLt => true | _ => false end)
         || (negb (is_right d) && match o with OGt => true | _ => false end)
      then
        if cv_is_inf_max (rmax r) || (negb (cv_is_inf_max (rmax r)) && cv_lt rhs (rmax r))
        then set_max r rhs false else r
      else
        if cv_is_inf_min (rmin r) || (negb (cv_is_inf_min (rmin r)) && cv_lt (rmin r) rhs)
        then set_min r rhs false else r
  | OLe | OGe =>
      if (is_right d && match o with OLe => true | _ => false end)
         || (negb (is_right d) && match o with OGe => true | _ => false end)
      then
        if cv_is_inf_max (rmax r) || (negb (cv_is_inf_max (rmax r)) && cv_le rhs (rmax r))
        then set_max r rhs true else r
      else set_min r rhs true
  end.

(** * findBestScan: the conjunct walk *)

(** Per column: type and whether it has an index. *)
Definition schema := list (coltype * bool).
Definition col_type (sch : schema) (c : nat) : coltype := fst (nth c sch (TInt, false)).
Definition col_indexed (sch : schema) (c : nat) : bool := snd (nth c sch (TInt, false)).

Definition cmp3 : Type := (nat * cmpop * value)%type.
Definition c3col (x : cmp3) : nat := fst (fst x).
Definition c3op (x : cmp3) : cmpop := snd (fst x).
Definition c3lit (x : cmp3) : value := snd x.

(** ranges / opCntOfCol / inexactRanges (Go maps keyed by column index, total
    functions here; only indexed columns are ever updated) and relatedOps. *)
Record wstate := {
  ws_rng : nat -> range;
  ws_cnt : nat -> nat;
  ws_inexact : nat -> bool;
  ws_related : list cmp3 }.

Definition upd_fn {A} (f : nat -> A) (k : nat) (v : A) : nat -> A :=
  fun j => if Nat.eqb j k then v else f j.

Definition winit (sch : schema) : wstate :=
  {| ws_rng := fun c => new_range (col_type sch c);
     ws_cnt := fun _ => O;
     ws_inexact := fun _ => false;
     ws_related := [] |}.

Definition is_ne (o : cmpop) : bool := match o with ONe => true | _ => false end.

(** One comparison [column op literal] popped from the stack:
    relatedOps = append(relatedOps, exp); if the column has a range:
    rng.Update(op, literal, DirRight); noteOp(col, op). *)
Definition visit (sch : schema) (st : wstate) (x : cmp3) : wstate :=
  let c := c3col x in
  if col_indexed sch c then
    let n := S (ws_cnt st c) in
    {| ws_rng := upd_fn (ws_rng st) c (range_update (c3op x) (c3lit x) DirRight (ws_rng st c));
       ws_cnt := upd_fn (ws_cnt st) c n;
       ws_inexact := upd_fn (ws_inexact st) c (if Nat.ltb 1 n || is_ne (c3op x) then true else ws_inexact st c);
       ws_related := ws_related st ++ [x] |}
  else
    {| ws_rng := ws_rng st; ws_cnt := ws_cnt st; ws_inexact := ws_inexact st;
       ws_related := ws_related st ++ [x] |}.

Fixpoint pred_size (p : pred) : nat :=
  match p with
  | PAnd a b | POr a b => S (pred_size a + pred_size b)
  | _ => 1
  end.

(** The loop [for stk.Len() > 0]: pop; on AND push Left then Right (so Right is
    popped first); on OR panic ([None]).  [fuel] bounds the number of pops; the
    total size of the stacked trees is enough. *)
Fixpoint walk_stk (sch : schema) (fuel : nat) (stk : list pred) (st : wstate) : option wstate :=
  match stk with
  | [] => Some st
  | e :: s =>
      match fuel with
      | O => None
      | S f =>
          match e with
          | PAnd a b => walk_stk sch f (b :: a :: s) st
          | POr _ _ => None
          | PCmp c o l => walk_stk sch f s (visit sch st (c, o, l))
          | PTrue => walk_stk sch f s st
          end
      end
  end.

Definition walk (sch : schema) (p : pred) : option wstate :=
  walk_stk sch (pred_size p) [p] (winit sch).

(** scanExp: relatedOps[0] AND relatedOps[1] AND ... (left-nested), nil if none *)
Definition pcmp3 (x : cmp3) : pred := PCmp (c3col x) (c3op x) (c3lit x).
Definition scan_exp (rel : list cmp3) : option pred :=
  match rel with
  | [] => None
  | x :: rest => Some (fold_left (fun acc y => PAnd acc (pcmp3 y)) rest (pcmp3 x))
  end.

(** touchOnly(from, where, colName) *)
Fixpoint touch_only (e : pred) (c : nat) : bool :=
  match e with
  | PCmp c' _ _ => Nat.eqb c' c
  | PAnd a b | POr a b => touch_only a c && touch_only b c
  | PTrue => true
  end.

(** * Plans *)

Inductive plan :=
| PSeqScan                                             (* SeqScanPlanNode, no predicate, table schema *)
| PSeqScanPred (p : pred) (out : list nat)             (* SeqScanPlanNode with predicate and output schema (OR path) *)
| PIndexRange (col : nat) (ty : coltype) (lo hi : value) (* RangeScanWithIndexPlanNode, predicate nil *)
| PSelection (child : plan) (e : pred)
| PProjection (child : plan) (cols : list nat).

(** The candidate built for the index on column [c] (loop "Build all IndexScan"). *)
Definition index_candidate (sch : schema) (st : wstate) (cols : list nat) (c : nat) : option plan :=
  let r := ws_rng st c in
  if range_empty r then None
  else
    let scan := PIndexRange c (col_type sch c) (rmin r) (rmax r) in
    (* isPredicateCheckNeeded: a literal equal to a sentinel set a bound inclusively (the executor
       scans that side unbounded), or a bound is exclusive, or the range is inexact *)
    let check_needed :=
      (cv_is_inf_min (rmin r) && rmin_inc r) || (cv_is_inf_max (rmax r) && rmax_inc r)
      || (negb (rmin_inc r) || negb (rmax_inc r) || ws_inexact st c) in
    let body :=
      match scan_exp (ws_related st) with
      | Some e => if negb (touch_only e c) || check_needed then PSelection scan e else scan
      | None => scan   (* unreachable: a range only changes through a related comparison *)
      end in
    Some (PProjection body cols).

Definition seq_candidate (st : wstate) (cols : list nat) : plan :=
  PProjection (match scan_exp (ws_related st) with
               | Some e => PSelection PSeqScan e
               | None => PSeqScan
               end) cols.

Definition indexed_cols (sch : schema) : list nat :=
  filter (col_indexed sch) (seq 0 (length sch)).

Fixpoint opt_list {A} (l : list (option A)) : list A :=
  match l with
  | [] => []
  | Some x :: l' => x :: opt_list l'
  | None :: l' => opt_list l'
  end.

(** Every plan findBestScan compares by cost; [None] = the panic on OR. *)
Definition candidates (sch : schema) (p : pred) (cols : list nat) : option (list plan) :=
  match walk sch p with
  | None => None
  | Some st =>
      Some (opt_list (map (index_candidate sch st cols) (indexed_cols sch)) ++ [seq_candidate st cols])
  end.

(** The cost model picks one of them: the pick [k] is an input. *)
Definition chosen (sch : schema) (p : pred) (cols : list nat) (k : nat) : option plan :=
  match candidates sch p cols with
  | None => None
  | Some l => nth_error l k
  end.

Fixpoint has_or (p : pred) : bool :=
  match p with
  | POr _ _ => true
  | PAnd a b => has_or a || has_or b
  | _ => false
  end.

(** MakeSelectPlan: predicates containing OR bypass the optimizer. *)
Definition or_plan (p : pred) (cols : list nat) : plan := PSeqScanPred p cols.

Definition plan_for (sch : schema) (p : pred) (cols : list nat) (k : nat) : option plan :=
  if has_or p then Some (or_plan p cols) else chosen sch p cols k.

(** * Execution *)

(** Expression.Evaluate on a tuple: Comparison -> Compare*, LogicalOp -> && / || *)
Fixpoint eng_eval (r : row) (p : pred) : bool :=
  match p with
  | PTrue => true
  | PCmp c o l => cv_cmp o (nth c r VNull) l
  | PAnd a b => eng_eval r a && eng_eval r b
  | POr a b => eng_eval r a || eng_eval r b
  end.

(** Index key of a row: NULL is stored under the zero value of the column type. *)
Definition index_key (ty : coltype) (v : value) : value :=
  match v with VNull => zero_of ty | _ => v end.

Definition vle (a b : value) : bool :=
  match vcmp a b with Some Lt | Some Eq => true | _ => false end.
Definition vlt (a b : value) : bool :=
  match vcmp a b with Some Lt => true | _ => false end.

Definition in_range (lo hi k : value) : bool := vle lo k && vle k hi.

(** The keys the executor's scan covers: Init() drops a start bound that IsInfMin()
    and an end bound that IsInfMax() (nil = unbounded on that side). *)
Definition scan_in (lo hi k : value) : bool :=
  (cv_is_inf_min lo || vle lo k) && (cv_is_inf_max hi || vle k hi).

(** Stable insertion sort of rows by index key. *)
Fixpoint insert_row (c : nat) (ty : coltype) (x : row) (l : list row) : list row :=
  match l with
  | [] => [x]
  | y :: l' =>
      if vlt (index_key ty (nth c y VNull)) (index_key ty (nth c x VNull))
      then y :: insert_row c ty x l'
      else x :: l
  end.
Definition sort_rows (c : nat) (ty : coltype) (l : list row) : list row :=
  fold_right (insert_row c ty) [] l.

(** RangeScanWithIndexExecutor over the skip-list index of column [c]. *)
Definition idx_scan (c : nat) (ty : coltype) (lo hi : value) (t : table) : option table :=
  let hits := filter (fun r => scan_in lo hi (index_key ty (nth c r VNull))) t in
  if existsb (fun r => is_null (nth c r VNull)) hits then None
  else Some (sort_rows c ty hits).

(** [None]: the statement aborts. *)
Fixpoint run_plan (p : plan) (t : table) : option table :=
  match p with
  | PSeqScan => Some t
  | PSeqScanPred e out => Some (map (project out) (filter (fun r => eng_eval r e) t))
  | PIndexRange c ty lo hi => idx_scan c ty lo hi t
  | PSelection ch e =>
      match run_plan ch t with
      | Some rows => Some (filter (fun r => eng_eval r e) rows)
      | None => None
      end
  | PProjection ch cols =>
      match run_plan ch t with
      | Some rows => Some (map (project cols) rows)
      | None => None
      end
  end.

(** Whole statement: plan, then run. [None] = panic or abort. *)
Definition run_select (sch : schema) (p : pred) (cols : list nat) (k : nat) (t : table) : option table :=
  match plan_for sch p cols k with
  | Some pl => run_plan pl t
  | None => None
  end.

(** * Where Compare* departs from the reference order

    The sentinel tests treat MaxInt32 / MaxFloat32 / "SamehadaDBInfMaxValue" as
    +infinity and MinInt32 / -MaxFloat32 / "SamehadaDBInfMinValue" as -infinity
    even when they are ordinary operands.  [cv_bad v r] is exactly the set of
    (receiver, argument) pairs on which the four ordered comparisons are wrong
    (Proofs/QueryProofs.v, compare_matches_reference); it is empty for integers,
    needs an infinity for floats, and for strings needs one operand equal to a
    sentinel string and the other outside it on the "impossible" side. *)
Definition vgt (a b : value) : bool :=
  match vcmp a b with Some Gt => true | _ => false end.
Definition max_like (v : value) : value :=
  match v with
  | VInt _ => VInt max_int32 | VFloat _ => VFloat max_f32 | VStr _ => VStr inf_max_str | VNull => VNull
  end.
Definition min_like (v : value) : value :=
  match v with
  | VInt _ => VInt min_int32 | VFloat _ => VFloat neg_max_f32 | VStr _ => VStr inf_min_str | VNull => VNull
  end.
Definition ordered (o : cmpop) : bool := match o with OEq | ONe => false | _ => true end.

Definition cv_bad (v r : value) : bool :=
  if is_null v || is_null r then false
  else if cv_is_inf_max v then negb (cv_is_inf_max r) && vgt r (max_like v)
  else if cv_is_inf_max r then vgt v (max_like v)
  else if cv_is_inf_min v then negb (cv_is_inf_min r) && vlt r (min_like v)
  else if cv_is_inf_min r then vlt v (min_like v)
  else false.

(** The comparisons of a predicate, in the order the conjunct walk visits them. *)
Fixpoint cmps (p : pred) : list cmp3 :=
  match p with
  | PTrue => []
  | PCmp c o l => [(c, o, l)]
  | PAnd a b | POr a b => cmps b ++ cmps a
  end.

(** Some (row, comparison) pair of the statement hits [cv_bad]: the signature of
    the sentinel defect for a concrete statement and table. *)
Definition stmt_hits_bad (p : pred) (t : table) : bool :=
  existsb (fun r => existsb (fun x => ordered (c3op x) && cv_bad (nth (c3col x) r VNull) (c3lit x)) (cmps p)) t.

(** Some row holds NULL in an indexed column: the signature of the NULL-in-index
    defect (such a row sits in the index under the zero key; a range scan that
    meets it aborts the statement). *)
Definition has_null_in_indexed_col (sch : schema) (t : table) : bool :=
  existsb (fun r => existsb (fun c => is_null (nth c r VNull)) (indexed_cols sch)) t.

(** The same for one plan: the index scan inside [pl] meets a NULL entry. *)
Fixpoint plan_hits_null (pl : plan) (t : table) : bool :=
  match pl with
  | PIndexRange c ty lo hi =>
      existsb (fun r => is_null (nth c r VNull) && scan_in lo hi (zero_of ty)) t
  | PSelection ch _ | PProjection ch _ => plan_hits_null ch t
  | _ => false
  end.
