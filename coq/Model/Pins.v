(** Pin accounting (C14): the pool's pin vector under the pin / unpin events a
    statement performs (FetchPage/NewPage/IncPinOfPage pin; UnpinPage/DecPinOfPage
    unpin).  Model only. *)
From Coq Require Import List ZArith NArith Bool.
Import ListNotations.
Open Scope Z_scope.

Inductive pev := Pin (p : N) | Unpin (p : N).

Definition pinvec := N -> Z.

Definition apply_ev (v : pinvec) (e : pev) : pinvec :=
  match e with
  | Pin p => fun q => if N.eqb q p then v q + 1 else v q
  | Unpin p => fun q => if N.eqb q p then v q - 1 else v q
  end.

Definition apply_trace (v : pinvec) (tr : list pev) : pinvec := fold_left apply_ev tr v.

(** net pins a trace takes on page q *)
Fixpoint net (tr : list pev) (q : N) : Z :=
  match tr with
  | [] => 0
  | Pin p :: r => (if N.eqb q p then 1 else 0) + net r q
  | Unpin p :: r => (if N.eqb q p then -1 else 0) + net r q
  end.

(** a statement's trace is balanced when it releases every pin it takes *)
Definition balanced (tr : list pev) : Prop := forall q, net tr q = 0.

(** executable check of balance over the pages mentioned in the trace *)
Definition pages_of (tr : list pev) : list N :=
  map (fun e => match e with Pin p | Unpin p => p end) tr.
Definition balancedb (tr : list pev) : bool :=
  forallb (fun q => Z.eqb (net tr q) 0) (pages_of tr).

(** total number of pins held (over a finite set of pages) *)
Definition total (v : pinvec) (pages : list N) : Z := fold_right (fun p acc => v p + acc) 0 pages.

(** the largest number of extra pins a trace holds at any moment on the given pages *)
Fixpoint peak_from (cur best : Z) (tr : list pev) : Z :=
  match tr with
  | [] => best
  | Pin _ :: r => peak_from (cur + 1) (Z.max best (cur + 1)) r
  | Unpin _ :: r => peak_from (cur - 1) best r
  end.
Definition peak (tr : list pev) : Z := peak_from 0 0 tr.
