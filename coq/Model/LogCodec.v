(** M6b — the byte layout of the write-ahead log.
    [ser_rec] mirrors lib/recovery/log_manager.go AppendLogRecord (header written by
    LogRecord.GetLogHeaderData, RID written with binary.Write little endian, tuples
    written by lib/storage/tuple/tuple.go SerializeTo: 4-byte little-endian size + data);
    [parse_rec] mirrors lib/recovery/log_recovery/log_recovery.go DeserializeLogRecord:
    a record is accepted only if 20 header bytes are there, its size field is >= 20 and
    the whole record lies inside the input; the fields of the body are taken from the
    bytes of the record itself (a body that overruns its own record is not parsable).
    Model only: no proofs here. *)
From Coq Require Import List NArith ZArith Bool.
From SDB Require Import Base.Bytes Params Model.Wal.
Import ListNotations.
Open Scope N_scope.

(** * Records as they are in the file *)

(** what follows the 20-byte header *)
Inductive fbody :=
| FNone                                         (* BEGIN / COMMIT / ABORT / GracefulShutdown / INVALID / unknown types *)
| FTuple (pid slot : N) (t : list N)            (* INSERT / MARKDELETE / APPLYDELETE / ROLLBACKDELETE: RID + tuple
                                                   (MARKDELETE and ROLLBACKDELETE log a dummy tuple of size 0) *)
| FUpdate (pid slot : N) (old new : list N)     (* UPDATE: RID + old tuple + new tuple *)
| FNewPage (prev pid : N)                       (* NewTablePage: prevPageID + pageID *)
| FPage (pid : N).                              (* DeallocatePage / ReusePage: pageID *)

(** page ids, slot numbers and the record type are kept as the unsigned 32-bit words
    found in the file; LSN, transaction id and prevLSN are signed (Go: int32). *)
Record lrec_full := mkF {
  f_size : N;            (* the size field (uint32) *)
  f_lsn : Z;
  f_txn : Z;
  f_prev : Z;
  f_type : N;            (* raw LogRecordType *)
  f_body : fbody;
  f_pad : list N         (* bytes of the record after the fields its type defines
                            (always empty in records written by AppendLogRecord) *)
}.

Definition pow2_31 : Z := 2147483648.
Definition pow2_32 : Z := 4294967296.
Definition pow2_32N : N := 4294967296.

(** int32 <-> the unsigned word stored in the file *)
Definition u32_of_s (z : Z) : N := Z.to_N (z mod pow2_32).
Definition s_of_u32 (n : N) : Z := if n <? 2147483648 then Z.of_N n else (Z.of_N n - pow2_32)%Z.

(** * Writer *)

Definition lenN (l : list N) : N := N.of_nat (length l).

Definition ser_tuple (t : list N) : list N := le 4 (lenN t) ++ t.

Definition ser_body (b : fbody) : list N :=
  match b with
  | FNone => []
  | FTuple p s t => le 4 p ++ le 4 s ++ ser_tuple t
  | FUpdate p s o n => le 4 p ++ le 4 s ++ ser_tuple o ++ ser_tuple n
  | FNewPage prev p => le 4 prev ++ le 4 p
  | FPage p => le 4 p
  end.

Definition ser_rec (r : lrec_full) : list N :=
  le 4 (f_size r) ++ le 4 (u32_of_s (f_lsn r)) ++ le 4 (u32_of_s (f_txn r)) ++
  le 4 (u32_of_s (f_prev r)) ++ le 4 (f_type r) ++ ser_body (f_body r) ++ f_pad r.

(** * Reader *)

(** [split_at l n acc = Some (rev acc ++ first n bytes of l, the rest)], [None] when [l] is
    shorter than [n].  Recursion on the list (never on the untrusted number [n]). *)
Fixpoint split_at (l : list N) (n : N) (acc : list N) : option (list N * list N) :=
  if n =? 0 then Some (rev_append acc [], l)
  else match l with
       | [] => None
       | x :: l' => split_at l' (N.pred n) (x :: acc)
       end.

Definition get32 (l : list N) : option (N * list N) :=
  match split_at l 4 [] with
  | Some (w, rest) => Some (le_dec w, rest)
  | None => None
  end.

Definition get_tuple (l : list N) : option (list N * list N) :=
  match get32 l with
  | Some (n, rest) => split_at rest n []
  | None => None
  end.

(** the shape of the body is decided by the record type *)
Inductive shape := ShNone | ShTuple | ShUpdate | ShNewPage | ShPage.

Definition shape_of (ty : N) : shape :=
  if (ty =? lr_insert) || (ty =? lr_markdelete) || (ty =? lr_applydelete) || (ty =? lr_rollbackdelete) then ShTuple
  else if ty =? lr_update then ShUpdate
  else if ty =? lr_new_table_page then ShNewPage
  else if (ty =? lr_deallocate_page) || (ty =? lr_reuse_page) then ShPage
  else ShNone.

Definition parse_body (ty : N) (b : list N) : option (fbody * list N) :=
  match shape_of ty with
  | ShNone => Some (FNone, b)
  | ShTuple =>
      match get32 b with Some (p, b1) =>
      match get32 b1 with Some (s, b2) =>
      match get_tuple b2 with Some (t, pad) => Some (FTuple p s t, pad)
      | None => None end | None => None end | None => None end
  | ShUpdate =>
      match get32 b with Some (p, b1) =>
      match get32 b1 with Some (s, b2) =>
      match get_tuple b2 with Some (o, b3) =>
      match get_tuple b3 with Some (n, pad) => Some (FUpdate p s o n, pad)
      | None => None end | None => None end | None => None end | None => None end
  | ShNewPage =>
      match get32 b with Some (prev, b1) =>
      match get32 b1 with Some (p, pad) => Some (FNewPage prev p, pad)
      | None => None end | None => None end
  | ShPage =>
      match get32 b with Some (p, pad) => Some (FPage p, pad) | None => None end
  end.

(** one record from the front of [inp]: the record and the bytes after it *)
Definition parse_rec (inp : list N) : option (lrec_full * list N) :=
  match get32 inp with Some (size, i1) =>
  match get32 i1 with Some (lsn, i2) =>
  match get32 i2 with Some (txn, i3) =>
  match get32 i3 with Some (prev, i4) =>
  match get32 i4 with Some (ty, i5) =>
    if size <? log_header_size then None
    else match split_at i5 (size - log_header_size) [] with
         | Some (bodyb, rest) =>
             match parse_body ty bodyb with
             | Some (b, pad) => Some (mkF size (s_of_u32 lsn) (s_of_u32 txn) (s_of_u32 prev) ty b pad, rest)
             | None => None
             end
         | None => None
         end
  | None => None end | None => None end | None => None end | None => None end | None => None end.

Fixpoint parse_fuel (fuel : nat) (inp : list N) : list lrec_full * list N :=
  match fuel with
  | O => ([], inp)
  | S f =>
      match parse_rec inp with
      | None => ([], inp)
      | Some (r, rest) => let (rs, left) := parse_fuel f rest in (r :: rs, left)
      end
  end.

(** all the records at the front of [inp] and the unparsable leftover
    (every record takes at least 20 bytes, so the length is enough fuel) *)
Definition parse_all (inp : list N) : list lrec_full * list N := parse_fuel (length inp) inp.

(** * To the abstract records of Model/Wal.v (as ocaml/wal_driver.ml's parse_log did) *)

Definition kind_of (r : lrec_full) : rkind :=
  let ty := f_type r in
  match f_body r with
  | FTuple p s t =>
      if ty =? lr_insert then KInsert p s t
      else if ty =? lr_markdelete then KMark p s
      else if ty =? lr_applydelete then KApply p s t
      else if ty =? lr_rollbackdelete then KRollback p s
      else KOther
  | FUpdate p s o n => if ty =? lr_update then KUpdate p s o n else KOther
  | FNewPage prev p => if ty =? lr_new_table_page then KNewPage prev p else KOther
  | FPage _ => KOther
  | FNone =>
      if ty =? lr_begin then KBegin
      else if ty =? lr_commit then KCommit
      else if ty =? lr_abort then KAbort
      else KOther
  end.

Definition to_lrec (r : lrec_full) : lrec :=
  mkR (Z.to_N (f_lsn r)) (Z.to_N (f_txn r))
      (if (f_prev r <? 0)%Z then None else Some (Z.to_N (f_prev r)))
      (kind_of r).

(** * Well-formed records (what the round-trip theorem assumes) *)

Definition shape_matches (ty : N) (b : fbody) : Prop :=
  match shape_of ty, b with
  | ShNone, FNone | ShTuple, FTuple _ _ _ | ShUpdate, FUpdate _ _ _ _
  | ShNewPage, FNewPage _ _ | ShPage, FPage _ => True
  | _, _ => False
  end.

Definition body_words_ok (b : fbody) : Prop :=
  match b with
  | FNone => True
  | FTuple p s _ | FUpdate p s _ _ | FNewPage p s => p < pow2_32N /\ s < pow2_32N
  | FPage p => p < pow2_32N
  end.

Definition s32_ok (z : Z) : Prop := (- pow2_31 <= z < pow2_31)%Z.

(** field ranges; the body has the shape of the record type; the size field counts the
    whole record and fits in 32 bits (so every tuple length does, too) *)
Definition wf_rec (r : lrec_full) : Prop :=
  s32_ok (f_lsn r) /\ s32_ok (f_txn r) /\ s32_ok (f_prev r) /\
  f_type r < pow2_32N /\ f_size r < pow2_32N /\
  shape_matches (f_type r) (f_body r) /\ body_words_ok (f_body r) /\
  f_size r = log_header_size + lenN (ser_body (f_body r)) + lenN (f_pad r).

(** the records AppendLogRecord is given: no padding *)
Definition exact_rec (r : lrec_full) : Prop := wf_rec r /\ f_pad r = [].
