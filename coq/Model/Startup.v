(** M6s — the start-up sequence and LSN allocation across restarts.

    Mirrors lib/samehada/samehada.go (NewSamehadaDB, the [isExistingDB] branch),
    the LSN guard of lib/recovery/log_recovery/log_recovery.go (Redo:
    [pg.GetLSN() < logRecord.GetLSN()]) and the LSN counter of
    lib/recovery/log_manager.go (AppendLogRecord), on LSNs only:

      1. greatestLSN := Redo()            (largest LSN in the log, 0 if none)
      2. if greatestLSN == 0 then greatestLSN := greatest LSN in a page of the db file   (fix 44ca03e)
      3. Undo                             (no LSN stamp: invisible here)
      4. FlushAllPages                    (one WritePage per page, any order)
      5. GCLogFile                        (log truncated to empty)
      6. SetNextLSN(greatestLSN+1); floor record (fix a7abb31); Flush (one WriteLog)
      7. normal operation

    A crash may fall between any two I/O events, also inside a start-up, any
    number of times.  Model/Wal.v treats redo/undo on one fixed log; this file
    is the missing piece: which LSNs the records of the NEXT log get.

    Durable state: the log file (records = LSN, page id, ghost id), the db
    file (page id -> page LSN, ghost image) and the pages that carry no LSN
    but are read by the page scan of step 2 (skip list pages keep an update
    counter in the LSN field).  Ghost fields ([st_rid], [st_pimg], [st_gseq],
    [st_ghist]) are never read by a guard or by an LSN computation; they exist
    so that "the effect of record r is in this page image" can be stated.

    A fresh database starts with nextLSN = 0 (NewLogManager) and its first
    record is the BEGIN of the first transaction, so LSN 0 never stamps a page:
    [StEvAppend p] for a real page requires 0 < nextLSN.

    Model only: no proofs here. *)
From Coq Require Import List NArith Bool.
From SDB Require Import Base.Assoc.
Import ListNotations.
Open Scope N_scope.

(** [floor_record]: fix a7abb31 present (step 6 writes a record carrying the LSN floor);
    [empty_log_scan]: fix 44ca03e present (step 2). *)
Record st_config := st_mkcfg { floor_record : bool; empty_log_scan : bool }.
Definition cfg_now : st_config := st_mkcfg true true.

(** page id of the records that belong to no page (BEGIN / COMMIT / ABORT / the floor record):
    InvalidPageID = -1 as uint32.  DeallocatePage / ReusePage records carry LSN -1 and take no LSN
    from the counter: they do not appear in this model at all. *)
Definition st_nopage : N := 4294967295.

Record st_rec := st_mkrec { st_rlsn : N; st_rpage : N; st_rid : N (* ghost: unique id of the record *) }.
Record st_page := st_mkpage { st_plsn : N; st_pimg : list N (* ghost: ids of the records whose effect the image holds *) }.
Definition st_pmap := list (N * st_page).

(** a page absent from the map was never stamped: LSN 0 *)
Definition st_getp (m : st_pmap) (p : N) : st_page :=
  match aget m p with Some pg => pg | None => st_mkpage 0 [] end.

Definition st_max_lsn (l : list st_rec) : N := fold_right (fun r a => N.max (st_rlsn r) a) 0 l.
Definition st_max_pages (m : st_pmap) : N := fold_right (fun e a => N.max (st_plsn (snd e)) a) 0 m.
Definition st_max_other (m : list (N * N)) : N := fold_right (fun e a => N.max (snd e) a) 0 m.

Inductive st_phase :=
| StDown        (* process not running: the next event is the start of a restart *)
| StFlushing    (* steps 1-3 done (in memory), FlushAllPages of step 4 in progress *)
| StTruncated   (* step 5 done: log empty, log write of step 6 not yet done *)
| StNormal.     (* normal operation *)

Record st_state := st_mk {
  (* durable *)
  st_dlog : list st_rec;            (* the log file, in order *)
  st_dpages : st_pmap;              (* the db file: pages that follow the LSN discipline *)
  st_dother : list (N * N);         (* the db file: other pages, value found in their LSN field *)
  (* ghost, never reset *)
  st_gseq : N;                      (* next record id *)
  st_ghist : list st_rec;           (* every record that ever reached the log file *)
  (* volatile *)
  st_vphase : st_phase;
  st_vnext : N;                     (* LogManager.nextLSN *)
  st_vgreat : N;                    (* greatestLSN of the running start-up *)
  st_vpages : st_pmap;              (* current image of every page (buffer pool over the db file) *)
  st_vbuf : list st_rec             (* records appended, not yet written to the log file *)
}.

(** * Redo on LSNs: apply iff page LSN < record LSN, stamp the page *)
Definition st_redo_rec (m : st_pmap) (r : st_rec) : st_pmap :=
  if st_rpage r =? st_nopage then m
  else let pg := st_getp m (st_rpage r) in
       if st_plsn pg <? st_rlsn r then aset m (st_rpage r) (st_mkpage (st_rlsn r) (st_rid r :: st_pimg pg)) else m.
Definition st_redo (l : list st_rec) (m : st_pmap) : st_pmap := fold_left st_redo_rec l m.

(** steps 1-2 *)
Definition st_greatest (cfg : st_config) (s : st_state) : N :=
  let ml := st_max_lsn (st_dlog s) in
  if ml =? 0 then (if empty_log_scan cfg then N.max (st_max_pages (st_dpages s)) (st_max_other (st_dother s)) else 0)
  else ml.

(** FlushAllPages is complete: every page a log record belongs to is on disk with its recovered LSN *)
Definition st_all_flushed (s : st_state) : bool :=
  forallb (fun r => (st_rpage r =? st_nopage) ||
                    (st_plsn (st_getp (st_dpages s) (st_rpage r)) =? st_plsn (st_getp (st_vpages s) (st_rpage r)))) (st_dlog s).

Definition st_init : st_state := st_mk [] [] [] 0 [] StNormal 0 0 [] [].

Definition st_crash (s : st_state) : st_state :=
  st_mk (st_dlog s) (st_dpages s) (st_dother s) (st_gseq s) (st_ghist s) StDown 0 0 [] [].

Inductive st_event :=
| StEvRestart                  (* steps 1-3: Redo, greatest LSN, Undo; reads only *)
| StEvWritePage (p : N)        (* one WritePage of the current image of p: step 4, or normal operation under the write-ahead rule *)
| StEvRedoWrite (p k : N)      (* a WritePage issued while the redo pass runs (eviction): image of p after the first k log records *)
| StEvTruncate                 (* step 5: GCLogFile *)
| StEvStartupLog               (* step 6: SetNextLSN, floor record, WriteLog *)
| StEvAppend (p : N)           (* a record takes nextLSN; p = st_nopage: BEGIN/COMMIT/ABORT, else a change of page p (stamps it) *)
| StEvFlushLog                 (* WriteLog of the buffered records *)
| StEvCommit                   (* COMMIT record + log flush *)
| StEvOther (p v : N)          (* WritePage of a page outside the LSN discipline, v = content of its LSN field *)
| StEvCrash.

Definition st_append (s : st_state) (p : N) : option st_state :=
  let n := st_vnext s in
  let r := st_mkrec n p (st_gseq s) in
  if p =? st_nopage then
    Some (st_mk (st_dlog s) (st_dpages s) (st_dother s) (st_gseq s + 1) (st_ghist s) StNormal (n + 1) (st_vgreat s) (st_vpages s) (st_vbuf s ++ [r]))
  else if 0 <? n then
    Some (st_mk (st_dlog s) (st_dpages s) (st_dother s) (st_gseq s + 1) (st_ghist s) StNormal (n + 1) (st_vgreat s)
               (aset (st_vpages s) p (st_mkpage n (st_gseq s :: st_pimg (st_getp (st_vpages s) p)))) (st_vbuf s ++ [r]))
  else None.

Definition st_flush (s : st_state) : st_state :=
  st_mk (st_dlog s ++ st_vbuf s) (st_dpages s) (st_dother s) (st_gseq s) (st_ghist s ++ st_vbuf s) StNormal (st_vnext s) (st_vgreat s) (st_vpages s) [].

Definition st_set_disk (s : st_state) (p : N) (pg : st_page) : st_state :=
  st_mk (st_dlog s) (aset (st_dpages s) p pg) (st_dother s) (st_gseq s) (st_ghist s) (st_vphase s) (st_vnext s) (st_vgreat s) (st_vpages s) (st_vbuf s).

Definition st_step (cfg : st_config) (s : st_state) (e : st_event) : option st_state :=
  match e, st_vphase s with
  | StEvCrash, _ => Some (st_crash s)
  | StEvRestart, StDown =>
      Some (st_mk (st_dlog s) (st_dpages s) (st_dother s) (st_gseq s) (st_ghist s) StFlushing 0 (st_greatest cfg s)
                 (st_redo (st_dlog s) (st_dpages s)) [])
  | StEvWritePage p, StFlushing => Some (st_set_disk s p (st_getp (st_vpages s) p))
  | StEvRedoWrite p k, StFlushing =>
      Some (st_set_disk s p (st_getp (st_redo (firstn (N.to_nat k) (st_dlog s)) (st_dpages s)) p))
  | StEvTruncate, StFlushing =>
      if st_all_flushed s then
        Some (st_mk [] (st_dpages s) (st_dother s) (st_gseq s) (st_ghist s) StTruncated (st_vnext s) (st_vgreat s) (st_vpages s) [])
      else None
  | StEvStartupLog, StTruncated =>
      let n := st_vgreat s + 1 in
      if floor_record cfg then
        let r := st_mkrec n st_nopage (st_gseq s) in
        Some (st_mk [r] (st_dpages s) (st_dother s) (st_gseq s + 1) (st_ghist s ++ [r]) StNormal (n + 1) (st_vgreat s) (st_vpages s) [])
      else
        Some (st_mk [] (st_dpages s) (st_dother s) (st_gseq s) (st_ghist s) StNormal n (st_vgreat s) (st_vpages s) [])
  | StEvAppend p, StNormal => st_append s p
  | StEvFlushLog, StNormal => Some (st_flush s)
  | StEvCommit, StNormal => match st_append s st_nopage with Some s' => Some (st_flush s') | None => None end
  | StEvWritePage p, StNormal =>
      (* write-ahead rule (C08): the page's records are durable *)
      if st_plsn (st_getp (st_vpages s) p) <=? st_max_lsn (st_dlog s) then Some (st_set_disk s p (st_getp (st_vpages s) p)) else None
  | StEvOther p v, (StFlushing | StNormal) =>
      Some (st_mk (st_dlog s) (st_dpages s) (aset (st_dother s) p v) (st_gseq s) (st_ghist s) (st_vphase s) (st_vnext s) (st_vgreat s) (st_vpages s) (st_vbuf s))
  | _, _ => None
  end.

Fixpoint st_run (cfg : st_config) (s : st_state) (es : list st_event) : option st_state :=
  match es with
  | [] => Some s
  | e :: es' => match st_step cfg s e with Some s' => st_run cfg s' es' | None => None end
  end.

(** * Observations *)
Definition st_next_lsn (s : st_state) : N := st_vnext s.
Definition st_is_normal (s : st_state) : bool := match st_vphase s with StNormal => true | _ => false end.
Definition st_disk_lsn (s : st_state) (p : N) : N := st_plsn (st_getp (st_dpages s) p).
Definition st_mem_lsn (s : st_state) (p : N) : N := st_plsn (st_getp (st_vpages s) p).
Definition st_disk_img (s : st_state) (p : N) : list N := st_pimg (st_getp (st_dpages s) p).
Definition st_mem_img (s : st_state) (p : N) : list N := st_pimg (st_getp (st_vpages s) p).
(** the abstract durable state: dlog = (LSN, page) in order, dpages = page id -> page LSN *)
Definition st_log_lsns (s : st_state) : list (N * N) := map (fun r => (st_rlsn r, st_rpage r)) (st_dlog s).
Definition st_disk_lsns (s : st_state) : list (N * N) := map (fun e => (fst e, st_plsn (snd e))) (st_dpages s).
Definition st_mem_lsns (s : st_state) : list (N * N) := map (fun e => (fst e, st_plsn (snd e))) (st_vpages s).
(** what the redo pass of a restart decides for a durable record *)
Definition st_redo_applies (s : st_state) (r : st_rec) : bool := st_disk_lsn s (st_rpage r) <? st_rlsn r.
(** the defect signature: a durable record that redo skips although its effect is not in the disk page *)
Definition st_lost (s : st_state) (r : st_rec) : bool :=
  negb (st_rpage r =? st_nopage) && negb (st_redo_applies s r) && negb (memN (st_rid r) (st_disk_img s (st_rpage r))).
Definition st_lost_records (s : st_state) : list st_rec := filter (st_lost s) (st_dlog s).
(** the same, seen after the restart: durable records whose effect the recovered page does not hold *)
Definition st_missing_after_redo (s : st_state) : list st_rec :=
  filter (fun r => negb (st_rpage r =? st_nopage) && negb (memN (st_rid r) (st_mem_img s (st_rpage r)))) (st_dlog s).
(** normal operation with nextLSN not above some disk page LSN *)
Definition st_floor_broken (s : st_state) : bool :=
  st_is_normal s && existsb (fun e => (st_vnext s <=? st_plsn (snd e)) && negb (st_plsn (snd e) =? 0)) (st_dpages s).

(** * Replay of a recorded I/O trace (driver layer)

    One line of the engine's trace (hook H1) per [st_line]:
      S                      process start           -> [StLnStart]
      K                      process killed          -> [StLnKill]
      P <page> <pageLSN>     WritePage               -> [StLnPage]   (pages under the LSN discipline)
      X <page> <value>       WritePage               -> [StLnOther]  (other pages: value of the LSN field)
      L <lsn>[:<page>],...   WriteLog                -> [StLnLog]    (records with LSN -1 left out; page omitted = no page)
      G                      GCLogFile               -> [StLnGC]
    The first S of a trace (fresh database) is accepted as a no-op. *)
Inductive st_line :=
| StLnStart | StLnKill | StLnGC
| StLnPage (p lsn : N)
| StLnOther (p v : N)
| StLnLog (recs : list (N * N)).      (* (lsn, page) ; page = st_nopage when unknown / none *)

(** codes of [StBad]:
    1 LSN of an appended record differs from the model's nextLSN (expected = model, actual = trace)
    2 the log write of step 6 carries other LSNs than the model's (expected = model's floor LSN or 0 if none, actual = first LSN of the line or 0)
    3 page written with an LSN that is neither the model's current one nor that of a redo prefix (expected = model's in-memory LSN)
    4 write-ahead rule violated (expected = largest durable LSN, actual = page LSN)
    5 event impossible in this phase (expected = phase number 0..3, actual = 0)
    6 truncation before every recovered page was written
    7 change record with LSN 0 *)
Inductive st_verdict := StOk (s : st_state) | StBad (code expected actual : N).

Definition st_phase_no (s : st_state) : N :=
  match st_vphase s with StDown => 0 | StFlushing => 1 | StTruncated => 2 | StNormal => 3 end.

Definition st_step_or (cfg : st_config) (s : st_state) (e : st_event) (code expected actual : N) : st_verdict :=
  match st_step cfg s e with Some s' => StOk s' | None => StBad code expected actual end.

Fixpoint st_feed_recs (cfg : st_config) (s : st_state) (recs : list (N * N)) : st_verdict :=
  match recs with
  | [] => st_step_or cfg s StEvFlushLog 5 (st_phase_no s) 0
  | (l, p) :: rest =>
      if st_vnext s =? l then
        match st_step cfg s (StEvAppend p) with
        | Some s' => st_feed_recs cfg s' rest
        | None => StBad 7 (st_vnext s) l
        end
      else StBad 1 (st_vnext s) l
  end.

Fixpoint st_eqb_list (a b : list N) : bool :=
  match a, b with
  | [], [] => true
  | x :: a', y :: b' => (x =? y) && st_eqb_list a' b'
  | _, _ => false
  end.

(** the redo prefix after which page p carries LSN l, if any *)
Fixpoint st_find_prefix (s : st_state) (p l : N) (k : nat) : option N :=
  let hit := st_plsn (st_getp (st_redo (firstn k (st_dlog s)) (st_dpages s)) p) =? l in
  match k with
  | O => if hit then Some 0 else None
  | S k' => if hit then Some (N.of_nat k) else st_find_prefix s p l k'
  end.

(** lenient mode: a page write the model cannot justify is taken as is (outside the theorems) *)
Definition st_force_page (s : st_state) (p l : N) : st_state :=
  let s' := st_set_disk s p (st_mkpage l (st_pimg (st_getp (st_dpages s) p))) in
  if st_plsn (st_getp (st_vpages s) p) <? l then
    st_mk (st_dlog s') (st_dpages s') (st_dother s') (st_gseq s') (st_ghist s') (st_vphase s') (st_vnext s') (st_vgreat s')
         (aset (st_vpages s) p (st_mkpage l (st_pimg (st_getp (st_vpages s) p)))) (st_vbuf s')
  else s'.

Definition st_feed (cfg : st_config) (strict : bool) (s : st_state) (ln : st_line) : st_verdict :=
  match ln with
  | StLnKill => st_step_or cfg s StEvCrash 5 (st_phase_no s) 0
  | StLnStart =>
      match st_vphase s with
      | StDown => st_step_or cfg s StEvRestart 5 0 0
      | StNormal =>
          match st_dlog s, st_dpages s, st_vbuf s with
          | [], [], [] => if st_vnext s =? 0 then StOk s else StBad 5 3 0
          | _, _, _ => StBad 5 3 0
          end
      | _ => StBad 5 (st_phase_no s) 0
      end
  | StLnGC => match st_vphase s with
            | StFlushing => st_step_or cfg s StEvTruncate 6 0 0
            | _ => StBad 5 (st_phase_no s) 0
            end
  | StLnOther p v => st_step_or cfg s (StEvOther p v) 5 (st_phase_no s) 0
  | StLnPage p l =>
      if st_disk_lsn s p =? l then StOk s      (* same LSN as the page in the file: no change at this level *)
      else
      let bad code exp := if strict then StBad code exp l else StOk (st_force_page s p l) in
      match st_vphase s with
      | StFlushing =>
          if st_mem_lsn s p =? l then st_step_or cfg s (StEvWritePage p) 5 1 0
          else match st_find_prefix s p l (length (st_dlog s)) with
               | Some k => st_step_or cfg s (StEvRedoWrite p k) 5 1 0
               | None => bad 3 (st_mem_lsn s p)
               end
      | StNormal =>
          if st_mem_lsn s p =? l then
            match st_step cfg s (StEvWritePage p) with
            | Some s' => StOk s'
            | None => bad 4 (st_max_lsn (st_dlog s))
            end
          else bad 3 (st_mem_lsn s p)
      | _ => StBad 5 (st_phase_no s) 0
      end
  | StLnLog recs =>
      match st_vphase s with
      | StTruncated =>
          match st_step cfg s StEvStartupLog with
          | Some s' =>
              if st_eqb_list (map st_rlsn (st_dlog s')) (map fst recs) then StOk s'
              else StBad 2 (match st_dlog s' with r :: _ => st_rlsn r | [] => 0 end) (match recs with (l, _) :: _ => l | [] => 0 end)
          | None => StBad 5 2 0
          end
      | StNormal => st_feed_recs cfg s recs
      | _ => StBad 5 (st_phase_no s) 0
      end
  end.

(** feed a whole trace; on the first [StBad] returns it together with the number of lines consumed *)
Fixpoint st_feed_all (cfg : st_config) (strict : bool) (s : st_state) (lns : list st_line) (n : N) : st_verdict * N :=
  match lns with
  | [] => (StOk s, n)
  | ln :: rest =>
      match st_feed cfg strict s ln with
      | StOk s' => st_feed_all cfg strict s' rest (n + 1)
      | bad => (bad, n)
      end
  end.
