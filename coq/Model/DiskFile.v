(** The file layer under the buffer pool: lib/storage/disk/disk_manager_impl.go (DiskManagerImpl).
    Executable model, no proofs (Proofs/DiskFileProofs.v, Props/C13Disk.v); correspondence: lib/diskcorr.py runs
    `verifharness diskfile` (harness/diskfile.go, the real DiskManagerImpl on files in a scratch directory) against
    build/diskfile_driver (ocaml/diskfile_driver.ml over this file) and compares every answer.

    db file.  WritePage always writes exactly PageSize bytes at pageID*PageSize (it panics otherwise), so the file is
    a list of whole pages [dm_pages] followed by a trailing partial part [dm_tail] (fewer than PageSize bytes) that
    only a file NOT made by this code can have (dm_mk); every write at or beyond the partial part removes it.
      - WritePage beyond the end leaves a hole; the file system reads holes as zeros: the missing pages (and the rest
        of a partial part) become zero bytes.
      - ReadPage: offset > file size (Stat)              -> error "I/O error past end of file"   [DmAErrPast]
                  offset = file size: Read gives 0, EOF   -> error "I/O error while reading"      [DmAErrRead]
                  fewer than PageSize bytes read (only the partial part) -> the WHOLE buffer is zeroed, no error
                  else the bytes.
      - Size() returns the FIELD d.size: the file size at open, then `if offset >= d.size { d.size = offset+4096 }`.
      - AllocatePage: nextPageID++; at open nextPageID = 0 when fileSize/PageSize = 0, else fileSize/PageSize + 1
        (NOT fileSize/PageSize: that id is never handed out).
    log file.  Opened O_RDWR (no O_APPEND) and positioned at its end; WriteLog writes AT THE CURRENT POSITION of the
    descriptor; ReadLog(buf, off, &n): off >= file size -> false (n untouched), else Seek(off); Read -> true with
    n = min(len buf, size-off) bytes -- and the position of the SAME descriptor is now off+n, which is where the next
    WriteLog goes ([dm_lpos]).  GCLogFile: close, remove, create: empty file, position 0.
    Page ids and log offsets are nat (list positions), sizes are N.  Negative ids/offsets are not modelled. *)
From Coq Require Import List NArith Arith Bool.
Import ListNotations.

Definition dm_ps : nat := 4096.
Definition dm_psN : N := 4096%N.
Definition dm_zero_page : list N := repeat 0%N dm_ps.

Record dm := mkDm {
  dm_pages : list (list N);   (* whole pages of the db file *)
  dm_tail  : list N;          (* trailing partial part, < dm_ps bytes; [] for every file this code made *)
  dm_sz    : N;               (* the field d.size *)
  dm_next  : nat;             (* the field d.nextPageID *)
  dm_log   : list N;          (* log file content *)
  dm_lpos  : nat              (* position of the log file descriptor *)
}.

(** files as found on disk (fields of the manager not yet meaningful) *)
Definition dm_mk (pages : list (list N)) (tail : list N) (log : list N) : dm := mkDm pages tail 0%N 0 log 0.
Definition dm_empty : dm := dm_mk [] [] [].

Definition dm_file_size (d : dm) : N := (dm_psN * N.of_nat (length (dm_pages d)) + N.of_nat (length (dm_tail d)))%N.

(** NewDiskManagerImpl on the files of [d] *)
Definition dm_open (d : dm) : dm :=
  let n := length (dm_pages d) in      (* fileSize / PageSize, the partial part being shorter than a page *)
  mkDm (dm_pages d) (dm_tail d) (dm_file_size d) (match n with O => O | _ => S n end) (dm_log d) (length (dm_log d)).

Definition dm_pad (t : list N) : list N := t ++ repeat 0%N (dm_ps - length t).

(** page [p] := data; pages between the old end and [p] are holes *)
Definition dm_set_page (pages : list (list N)) (p : nat) (data : list N) : list (list N) :=
  if p <? length pages then firstn p pages ++ data :: skipn (S p) pages
  else pages ++ repeat dm_zero_page (p - length pages) ++ [data].

Definition dm_write_page (d : dm) (p : nat) (data : list N) : dm :=
  let off := (dm_psN * N.of_nat p)%N in
  let sz' := if (dm_sz d <=? off)%N then (off + dm_psN)%N else dm_sz d in
  if p <? length (dm_pages d) then
    mkDm (dm_set_page (dm_pages d) p data) (dm_tail d) sz' (dm_next d) (dm_log d) (dm_lpos d)
  else
    let base := match dm_tail d with [] => dm_pages d | t => dm_pages d ++ [dm_pad t] end in
    mkDm (dm_set_page base p data) [] sz' (dm_next d) (dm_log d) (dm_lpos d).

Inductive dm_ans :=
| DmABytes (l : list N)
| DmAErrPast                 (* "I/O error past end of file" *)
| DmAErrRead                 (* "I/O error while reading" (EOF at offset = size) *)
| DmAOk
| DmANum (n : N)
| DmAId (n : nat)
| DmALog (ok : bool) (l : list N).   (* ReadLog: return value, the bytes read (readBytes = their number) *)

Definition dm_read_page (d : dm) (p : nat) : dm_ans :=
  let n := length (dm_pages d) in
  if p <? n then DmABytes (nth p (dm_pages d) [])
  else if p =? n then
    match dm_tail d with
    | [] => DmAErrRead                       (* offset = size *)
    | _ => DmABytes dm_zero_page             (* short read: the buffer is zeroed *)
    end
  else DmAErrPast.

Definition dm_size (d : dm) : N := dm_sz d.

Definition dm_allocate (d : dm) : dm * nat :=
  (mkDm (dm_pages d) (dm_tail d) (dm_sz d) (S (dm_next d)) (dm_log d) (dm_lpos d), dm_next d).

(** overwrite at [pos] (pos <= length l in every reachable state) *)
Definition dm_splice (l : list N) (pos : nat) (data : list N) : list N :=
  firstn pos l ++ data ++ skipn (pos + length data) l.

Definition dm_write_log (d : dm) (data : list N) : dm :=
  mkDm (dm_pages d) (dm_tail d) (dm_sz d) (dm_next d) (dm_splice (dm_log d) (dm_lpos d) data) (dm_lpos d + length data).

Definition dm_read_log (d : dm) (off len : nat) : dm * dm_ans :=
  if length (dm_log d) <=? off then (d, DmALog false [])
  else
    let got := firstn len (skipn off (dm_log d)) in
    (mkDm (dm_pages d) (dm_tail d) (dm_sz d) (dm_next d) (dm_log d) (off + length got), DmALog true got).

Definition dm_log_size (d : dm) : N := N.of_nat (length (dm_log d)).

Definition dm_gc_log (d : dm) : dm := mkDm (dm_pages d) (dm_tail d) (dm_sz d) (dm_next d) [] 0.

Inductive dm_op :=
| DmWrite (p : nat) (data : list N)
| DmRead (p : nat)
| DmSize
| DmAlloc
| DmReopen                   (* ShutDown + NewDiskManagerImpl on the same files *)
| DmWriteLog (data : list N)
| DmReadLog (off len : nat)
| DmLogSize
| DmGc.

Definition dm_step (d : dm) (o : dm_op) : dm * dm_ans :=
  match o with
  | DmWrite p data => (dm_write_page d p data, DmAOk)
  | DmRead p => (d, dm_read_page d p)
  | DmSize => (d, DmANum (dm_size d))
  | DmAlloc => let (d', i) := dm_allocate d in (d', DmAId i)
  | DmReopen => (dm_open d, DmAOk)
  | DmWriteLog data => (dm_write_log d data, DmAOk)
  | DmReadLog off len => dm_read_log d off len
  | DmLogSize => (d, DmANum (dm_log_size d))
  | DmGc => (dm_gc_log d, DmAOk)
  end.

Fixpoint dm_run (d : dm) (ops : list dm_op) : dm * list dm_ans :=
  match ops with
  | [] => (d, [])
  | o :: r => let (d1, a) := dm_step d o in let (d2, l) := dm_run d1 r in (d2, a :: l)
  end.
