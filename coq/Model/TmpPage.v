(** C11 — byte-level executable model of the hash join's temporary tuple page.
    Mirrors lib/materialization/tmp_tuple_page.go (Init, Insert, Get,
    Get/SetFreeSpacePointer), tuple.DeserializeFrom (lib/storage/tuple/tuple.go)
    and the spill loop of HashJoinExecutor.Init
    (lib/execution/executors/hash_join_executor.go:86-117).

    A page is the list of its 4096 bytes.  Layout:
      bytes 0..3    page id (little endian int32)
      bytes 4..15   untouched by this code (LSN, unused)
      bytes 16..19  free-space pointer (little endian uint32), [offsetFreeSpace]
      bytes [free, 4096)  records, newest first; a record is a 4-byte little
                    endian size followed by that many bytes of tuple data.
    All header arithmetic is uint32 arithmetic written out with its
    wrap-around, exactly as Go computes it.  A tuple is given by its data
    [d]; its size field is [uint32(len d)], as built by
    [tuple.NewTuple(rid, uint32(len(d)), d)] / [NewTupleFromSchema].
    Model only: no proofs here (Proofs/TmpPageProofs.v). *)
From Coq Require Import List NArith Bool.
From SDB Require Import Params Base.Bytes.
Import ListNotations.
Open Scope N_scope.

Definition tp_w32 : N := 4294967296.
Definition tp_size : N := page_size.             (* common.PageSize = 4096 *)
Definition tp_off_free : nat := 16.              (* offsetFreeSpace *)
Definition tp_hdr : N := 20.                     (* offsetFreeSpace + 4: first byte a record may use *)

(** [p[a : a+n]] (shorter if the page ends before) *)
Definition tp_slice (p : list N) (a n : nat) : list N := firstn n (skipn a p).

(** Go's [copy(p[off:], bs)] for [off <= len p]: overwrites, never grows the
    destination, silently truncates the source at the end of the page. *)
Definition tp_write (p : list N) (off : nat) (bs : list N) : list N :=
  firstn (length p) (firstn off p ++ bs ++ skipn (off + length bs) p).

(** GetFreeSpacePointer / SetFreeSpacePointer *)
Definition tp_free (p : list N) : N := le_dec (tp_slice p tp_off_free 4).
Definition tp_set_free (p : list N) (f : N) : list N := tp_write p tp_off_free (le 4 f).

(** GetTablePageID (as the unsigned value of the four bytes) *)
Definition tp_page_id (p : list N) : N := le_dec (tp_slice p 0 4).

(** Init(pageID, PageSize) on the frame [p] the pool handed out: SetPageID then
    SetFreeSpacePointer(PageSize).  Nothing else is written (Init does not clear
    the frame). [pid] is taken modulo 2^32 (two's complement of the int32). *)
Definition tp_init_page (p : list N) (pid : N) : list N :=
  tp_set_free (tp_write p 0 (le 4 pid)) tp_size.

(** ... on a zeroed frame, which is what BufferPoolManager.NewPage returns *)
Definition tp_init (pid : N) : list N := tp_init_page (zeros (N.to_nat tp_size)) pid.

(** What a call of Insert does. *)
Inductive tp_out :=
| TpFull                               (* returns false, page untouched *)
| TpPanic                              (* a slice bound panic inside Insert *)
| TpOk (p : list N) (off : N).         (* returns true; [off] is the offset put into the TmpTuple *)

(** Insert with the room check [freeOffset < needSize + slack].
    The Go code has [slack = offsetFreeSpace + 4 = 20]. Statement by statement:
      freeOffset := GetFreeSpacePointer()
      needSize   := 4 + tpl.Size()                          (uint32)
      if freeOffset < needSize + slack { return false }     (uint32)
      freeOffset -= needSize                                (uint32)
      SetFreeSpacePointer(freeOffset)
      addr := GetData()[GetFreeSpacePointer():]             (panics above 4096)
      copy(addr[0:], le32(size))                            (truncating copy)
      copy(addr[4:], data[:size])                           (panics if len addr < 4; truncating copy)
      *out = TmpTuple{GetTablePageID(), GetFreeSpacePointer()}   (read back from the page) *)
Definition tp_insert_gen (slack : N) (p : list N) (d : list N) : tp_out :=
  let f := tp_free p in
  let s := N.of_nat (length d) mod tp_w32 in
  let need := (4 + s) mod tp_w32 in
  if f <? (need + slack) mod tp_w32 then TpFull
  else
    let f' := (f + tp_w32 - need) mod tp_w32 in
    let p1 := tp_set_free p f' in
    if tp_size <? f' then TpPanic
    else if tp_size - f' <? 4 then TpPanic
    else
      let p2 := tp_write p1 (N.to_nat f') (le 4 s ++ firstn (N.to_nat s) d) in
      TpOk p2 (tp_free p2).

Definition tp_insert_go (p d : list N) : tp_out := tp_insert_gen tp_hdr p d.

(** The same with the weaker room check [freeOffset < needSize + offsetFreeSpace]
    (no "+4"): refuted in the proofs, to document why the +4 matters. *)
Definition tp_insert_weak_go (p d : list N) : tp_out := tp_insert_gen 16 p d.

Definition tp_view (o : tp_out) : option (list N * N) :=
  match o with TpOk p off => Some (p, off) | _ => None end.

(** Insert as the executor sees it: [Some (page', offset)] for true, [None] for
    false (a panic is [None] here; [tp_insert_go] tells them apart and the proofs
    show that a well-formed page and a tuple below 4 GB never panic). *)
Definition tp_insert (p d : list N) : option (list N * N) := tp_view (tp_insert_go p d).
Definition tp_insert_weak (p d : list N) : option (list N * N) := tp_view (tp_insert_weak_go p d).

(** Get(offset) = tuple.DeserializeFrom(GetData()[offset:]): the uint32 size
    field, then that many bytes. *)
Definition tp_get (p : list N) (off : N) : list N :=
  tp_slice p (N.to_nat off + 4) (N.to_nat (le_dec (tp_slice p (N.to_nat off) 4))).

(** ... with the panics of the Go code: [GetData()[offset:]] above 4096, and
    [storage[4:4+size]] beyond the end of the page ([None] = panic). *)
Definition tp_get_go (p : list N) (off : N) : option (list N) :=
  if tp_size <? off + 4 then None
  else if tp_size <? off + 4 + le_dec (tp_slice p (N.to_nat off) 4) then None
  else Some (tp_get p off).

(** * Any sequence of inserts on one page
    [ins] is the insert function; a refused tuple leaves the page as it is.
    Result: the final page and, per tuple, the offset it was stored at. *)
Fixpoint tp_inserts_with (ins : list N -> list N -> option (list N * N))
    (p : list N) (ds : list (list N)) : list N * list (option N) :=
  match ds with
  | [] => (p, [])
  | d :: ds' =>
      match ins p d with
      | Some (p1, o) => let (pf, os) := tp_inserts_with ins p1 ds' in (pf, Some o :: os)
      | None => let (pf, os) := tp_inserts_with ins p ds' in (pf, None :: os)
      end
  end.

Definition tp_inserts := tp_inserts_with tp_insert.

(** the records stored by such a run, newest first: (offset, data) *)
Fixpoint tp_recs (ds : list (list N)) (os : list (option N)) (acc : list (N * list N)) : list (N * list N) :=
  match ds, os with
  | d :: ds', Some o :: os' => tp_recs ds' os' ((o, d) :: acc)
  | _ :: ds', None :: os' => tp_recs ds' os' acc
  | _, _ => acc
  end.

(** * The executor's spill loop (HashJoinExecutor.Init)

      var tmpTuple TmpTuple                        // zero value {page 0, offset 0}
      for each build-side tuple:
        if tmpPage == nil || !tmpPage.Insert(tuple, &tmpTuple) {
            ... new page, Init ...
            tmpPage.Insert(tuple, &tmpTuple)       // RESULT IGNORED
        }
        jht.Insert(hash(key), &tmpTuple)

    So a tuple that does not fit into an EMPTY page is neither stored nor
    reported: the hash table receives whatever [tmpTuple] held before — the
    location of the previous build-side row, or the zero value for the first
    row (database page 0, offset 0, which is not a tmp page at all) — and the
    fresh page stays current.  [TpStale] is that outcome. *)
Inductive tp_loc :=
| TpLoc (pg : nat) (off : N)              (* stored: index of the tmp page (allocation order), offset *)
| TpStale (prev : option (nat * N))       (* NOT stored; the stale TmpTuple registered instead
                                             ([None]: the zero value) *)
| TpPanicked.                             (* Insert panicked; the loop ends here *)

Definition tp_opt_list {A} (o : option A) : list A := match o with Some x => [x] | None => [] end.

(** [done]: the full pages already left behind (allocation order); [cur]: the
    current page; [last]: the contents of the variable [tmpTuple].
    Page [k] is initialised with page id [k] (the real ids come from the pool). *)
Fixpoint tp_all (ds : list (list N)) (done : list (list N)) (cur : option (list N))
    (last : option (nat * N)) : list (list N) * list tp_loc :=
  match ds with
  | [] => (done ++ tp_opt_list cur, [])
  | d :: ds' =>
      match (match cur with Some c => tp_insert_go c d | None => TpFull end) with
      | TpOk c' o =>
          let k := length done in
          let (pgs, locs) := tp_all ds' done (Some c') (Some (k, o)) in
          (pgs, TpLoc k o :: locs)
      | TpPanic => (done ++ tp_opt_list cur, [TpPanicked])
      | TpFull =>
          let done' := done ++ tp_opt_list cur in
          let k := length done' in
          let c0 := tp_init (N.of_nat k) in
          match tp_insert_go c0 d with
          | TpOk c' o =>
              let (pgs, locs) := tp_all ds' done' (Some c') (Some (k, o)) in
              (pgs, TpLoc k o :: locs)
          | TpFull =>
              let (pgs, locs) := tp_all ds' done' (Some c0) last in
              (pgs, TpStale last :: locs)
          | TpPanic => (done' ++ [c0], [TpPanicked])
          end
      end
  end.

Definition tp_insert_all (ds : list (list N)) : list (list N) * list tp_loc :=
  tp_all ds [] None None.

(** the value of [tmpTuple] after the locations [l], starting from [init] *)
Definition tp_last_loc (init : option (nat * N)) (l : list tp_loc) : option (nat * N) :=
  fold_left (fun acc x => match x with TpLoc k o => Some (k, o) | _ => acc end) l init.

(** a tuple fits into an empty page / its size arithmetic does not wrap *)
Definition tp_fits (d : list N) : Prop := 4 + N.of_nat (length d) + 20 <= tp_size.
Definition tp_nowrap (d : list N) : Prop := 4 + N.of_nat (length d) + 20 < tp_w32.
