(** M6d — the write-ahead discipline for the one change of a table page that carries no LSN
    of its own: the link to its successor.

    lib/storage/access/table_heap.go InsertTuple sets [currentPage.next = newPage] without
    stamping currentPage's LSN; the change is described only by the successor's NewTablePage
    record (prevPageID, pageID), which redo uses to restore the link
    (lib/recovery/log_recovery/log_recovery.go Redo, NewTablePage branch).  The LSN
    comparison of Model/WalTrace.v ([wal_ok]) therefore cannot see a page that reaches the
    database file with a link to a page whose NewTablePage record is still in the log buffer.

    The rule, over the whole I/O trace from the creation of the database (hook H1; the log
    file may be truncated in between, knowledge accumulates across truncations): whenever a
    table page is written with successor link [q], a NewTablePage record of [q] has been among
    the completely parsed records of the log file at some earlier point.

    Model only: no proofs here (they are in Proofs/WalLinkProofs.v). *)
From Coq Require Import List NArith ZArith Bool.
From SDB Require Import Base.Bytes Base.Assoc Params Model.Wal Model.LogCodec.
Import ListNotations.
Open Scope N_scope.

Inductive lev :=
| LLog (bytes : list N)                (* one WriteLog call: the bytes appended to the log file *)
| LPage (pid : N) (next : option N)    (* one WritePage call: page id and the successor link of the image
                                          (int32, little endian, at byte offset 12; [None] for a negative value) *)
| LTrunc.                              (* GCLogFile: the log file is emptied *)

(** * Specification level: what the log file has shown so far *)

(** the bytes of the log file after a trace prefix: everything written since the last truncation *)
Definition log_file (pre : list lev) : list N :=
  fold_left (fun acc e => match e with LLog b => acc ++ b | LTrunc => [] | LPage _ _ => acc end) pre [].

(** the completely parsed records of the log file (their kinds), and the unparsable rest *)
Definition log_kinds (pre : list lev) : list rkind := map kind_of (fst (parse_all (log_file pre))).
Definition log_left (pre : list lev) : list N := snd (parse_all (log_file pre)).

(** the page a NewTablePage record creates *)
Definition creates (k : rkind) : list N :=
  match k with KNewPage _ p => [p] | _ => [] end.

(** the pages a record names as table pages: the page of a heap record; the page and the
    previous page (when it is not negative as an int32) of a NewTablePage record *)
Definition names (k : rkind) : list N :=
  match k with
  | KInsert p _ _ | KMark p _ | KApply p _ _ | KRollback p _ | KUpdate p _ _ _ => [p]
  | KNewPage prev p => p :: (if prev <? 2147483648 then [prev] else [])
  | _ => []
  end.

(** [p] is among the pages [f] picks from a record that was completely in the log file at
    some point of the trace prefix [pre] (at the end of some prefix [pre'] of [pre]) *)
Definition mentioned (f : rkind -> list N) (pre : list lev) (p : N) : Prop :=
  exists pre' post k, pre = pre' ++ post /\ In k (log_kinds pre') /\ In p (f k).

(** a NewTablePage record [KNewPage _ p] has been in the log file *)
Definition created_ever (pre : list lev) (p : N) : Prop := mentioned creates pre p.

(** a heap record of page [p], or a NewTablePage record with page or previous page [p], has been in the log file *)
Definition table_pages_ever (pre : list lev) (p : N) : Prop := mentioned names pre p.

(** the discipline *)
Definition link_disciplined (tr : list lev) : Prop :=
  forall pre pid q post, tr = pre ++ LPage pid (Some q) :: post ->
    table_pages_ever pre pid -> created_ever pre q.

(** * The checker: one pass, incremental parse *)

Definition add_new (x : N) (l : list N) : list N := if memN x l then l else x :: l.
Definition add_all (xs : list N) (l : list N) : list N := fold_left (fun l x => add_new x l) xs l.

(** add the pages [f] picks from the records [rs] *)
Definition absorb (f : rkind -> list N) (rs : list lrec_full) (l : list N) : list N :=
  fold_left (fun l r => add_all (f (kind_of r)) l) rs l.

Record wl_state := mkL {
  k_left : list N;       (* the unparsed tail of the log file (empty after a write that ends at a record boundary) *)
  k_created : list N;    (* pages with a NewTablePage record seen so far (no duplicates) *)
  k_tables : list N      (* pages named as table pages so far (no duplicates) *)
}.

Definition wl_init : wl_state := mkL [] [] [].

Definition wl_step (s : wl_state) (e : lev) : wl_state :=
  match e with
  | LLog b =>
      let (rs, left) := parse_all (k_left s ++ b) in
      mkL left (absorb creates rs (k_created s)) (absorb names rs (k_tables s))
  | LPage _ _ => s
  | LTrunc => mkL [] (k_created s) (k_tables s)
  end.

(** the offending (page, successor) when event [e] breaks the rule in state [s] *)
Definition wl_check (s : wl_state) (e : lev) : option (N * N) :=
  match e with
  | LPage pid (Some q) =>
      if memN pid (k_tables s) && negb (memN q (k_created s)) then Some (pid, q) else None
  | _ => None
  end.

Fixpoint wl_run (s : wl_state) (tr : list lev) (idx : nat) : option (nat * N * N) :=
  match tr with
  | [] => None
  | e :: rest =>
      match wl_check s e with
      | Some (pid, q) => Some (idx, pid, q)
      | None => wl_run (wl_step s e) rest (S idx)
      end
  end.

(** (event index, page, successor) of the first page write that breaks the rule *)
Definition link_first_violation (tr : list lev) : option (nat * N * N) := wl_run wl_init tr O.

Definition link_ok (tr : list lev) : bool :=
  match link_first_violation tr with None => true | Some _ => false end.

(** statistics for the report line of the driver: the number of page writes the rule had
    something to say about (a table page written with a successor link); meaningful on
    traces that pass *)
Fixpoint wl_count (s : wl_state) (tr : list lev) (n : N) : N :=
  match tr with
  | [] => n
  | e :: rest =>
      let n' := match e with
                | LPage pid (Some _) => if memN pid (k_tables s) then n + 1 else n
                | _ => n
                end in
      wl_count (wl_step s e) rest n'
  end.
Definition link_checked (tr : list lev) : N := wl_count wl_init tr 0.
