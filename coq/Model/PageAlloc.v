(** M5a — page-id allocation and reuse, across restarts.

    Mirrors, on page ids only:
      lib/storage/buffer/buffer_pool_manager.go   NewPage (the head of [reUsablePageList] first, logged
                                                   by a REUSE_PAGE record and flushed; else
                                                   DiskManager.AllocatePage), DeallocatePage (memory half
                                                   under the pool mutex, then — mutex released — a
                                                   DEALLOCATE_PAGE record appended and flushed), the
                                                   cache-out of a frame whose page carries the
                                                   deallocation flag (id appended to the list)
      lib/storage/disk/disk_manager_impl.go        AllocatePage (nextPageID++), NewDiskManagerImpl
                                                   (nextPageID := 0 for an empty file, else
                                                   file size / page size + 1), DeallocatePage (does nothing)
      lib/recovery/log_recovery/log_recovery.go    Redo: DEALLOCATE_PAGE adds the id to a set, REUSE_PAGE
                                                   removes it, the set becomes the reusable list (Go map
                                                   order: the order is an INPUT here, checked to be a
                                                   permutation); NewTablePage of a page that is not in the
                                                   file: AllocatePage until the id is covered, WritePage;
                                                   at the end (fix d99b876): if an id of the rebuilt list
                                                   lies at or beyond the end of the db file,
                                                   [for AllocatePage() < largest such id {}]
      lib/samehada/samehada.go                     NewSamehadaDB: Redo, GCLogFile (log emptied), one
                                                   DEALLOCATE_PAGE record per id of the rebuilt list, Flush
    Deallocation is not transactional: neither record carries a transaction, nothing is undone when the
    calling transaction aborts, and recovery treats the records of committed, aborted and unfinished
    transactions alike.  The table heap never deallocates; callers are SkipList.Remove (flag set on the
    pinned node, then DeallocatePage(id,false) = log record only) and HashJoinExecutor
    (DeallocatePage(id,true) for each temporary page).

    What belongs to the pool model (Model/Pool.v) is an input here: WHICH memory effect a DeallocatePage call
    has ([pa_mode]: the page is resident and unpinned / resident and pinned / not resident or isNoWait=false),
    WHEN a flagged page is cached out ([OEvict]) and WHICH pages are written to the db file ([OWrote]).
    The two halves of DeallocatePage are separate operations ([ORelease], [OLogDealloc]) because the Go
    function releases the pool mutex between them.  Model only: no proofs here. *)
From Coq Require Import List NArith Bool.
From SDB Require Import Base.Assoc.
Import ListNotations.
Open Scope N_scope.

(** allocation-relevant log records *)
Inductive pa_rec :=
| RDealloc (p : N)        (* DEALLOCATE_PAGE *)
| RReuse (p : N)          (* REUSE_PAGE *)
| RNewHeap (p : N).       (* NewTablePage (TablePage.Init), appended without a flush *)

Inductive pa_mode :=
| MNow                    (* isNoWait, resident, pin count 0: frame freed, id appended to the reusable list *)
| MFlag                   (* isNoWait and pinned, or Page.SetIsDeallocated(true) by the pin holder: flag only *)
| MNone.                  (* isNoWait=false, or the page is not resident: no memory effect *)

Record pa_state := mkPA {
  pa_next     : N;             (* DiskManagerImpl.nextPageID *)
  pa_reusable : list N;        (* BufferPoolManager.reUsablePageList, head first *)
  pa_inuse    : list N;        (* ids handed out and not released by their owner *)
  pa_flagged  : list N;        (* released, still resident, deallocation flag set *)
  pa_pending  : list N;        (* released in memory, DEALLOCATE_PAGE record not appended yet *)
  pa_log      : list pa_rec;   (* allocation records since the last truncation of the log *)
  pa_durable  : nat;           (* number of leading records that reached the log file *)
  pa_fsize    : N              (* size of the db file in pages *)
}.

Definition pa_init : pa_state := mkPA 0 [] [] [] [] [] 0 0.

Inductive pa_op :=
| ONew                                   (* BufferPoolManager.NewPage *)
| ONewHeap                               (* NewPage + TablePage.Init: a heap grows *)
| ORelease (p : N) (m : pa_mode)         (* memory half of DeallocatePage / SetIsDeallocated *)
| OLogDealloc (p : N)                    (* log half of DeallocatePage *)
| OEvict (p : N)                         (* a flagged page is cached out *)
| OWrote (p : N)                         (* FlushPage / cache-out of a dirty page: log flushed, page written *)
| OFlushLog                              (* LogManager.Flush (commit of a writing transaction) *)
| OProbe                                 (* DiskManager.AllocatePage called directly *)
| OCleanRestart (order : list N)         (* Shutdown (everything flushed), start-up *)
| OCrashRestart (kept : nat) (surv : list N) (order : list N).
      (* [kept] records of the log are in the file; the owners of [surv] still exist after recovery *)

Inductive pa_out := PONew (p : N) | POOk | POBad.   (* POBad: an input the implementation cannot produce *)

Definition pa_del (p : N) (l : list N) : list N := filter (fun x => negb (x =? p)) l.
Definition pa_add (p : N) (l : list N) : list N := if memN p l then l else l ++ [p].

Fixpoint pa_nodup_b (l : list N) : bool :=
  match l with [] => true | x :: r => negb (memN x r) && pa_nodup_b r end.

(** [order] lists exactly the elements of the duplicate-free [set] *)
Definition pa_perm_b (order set : list N) : bool :=
  Nat.eqb (length order) (length set) && pa_nodup_b order && forallb (fun x => memN x order) set.

(** the id NewPage returns and the allocator state after it *)
Definition pa_alloc (st : pa_state) : N * pa_state :=
  match pa_reusable st with
  | p :: rest =>
      let lg := pa_log st ++ [RReuse p] in
      (p, mkPA (pa_next st) rest (pa_inuse st) (pa_flagged st) (pa_pending st) lg (length lg) (pa_fsize st))
  | [] =>
      (pa_next st, mkPA (pa_next st + 1) [] (pa_inuse st) (pa_flagged st) (pa_pending st)
                        (pa_log st) (pa_durable st) (pa_fsize st))
  end.

Definition pa_own (st : pa_state) (p : N) (lg : list pa_rec) (d : nat) : pa_state :=
  mkPA (pa_next st) (pa_reusable st) (p :: pa_inuse st) (pa_flagged st) (pa_pending st) lg d (pa_fsize st).

(** Redo, set of reusable ids *)
Definition pa_lstep (s : list N) (r : pa_rec) : list N :=
  match r with
  | RDealloc p => pa_add p s
  | RReuse p => pa_del p s
  | RNewHeap _ => s
  end.
Definition pa_lset (l : list pa_rec) : list N := fold_left pa_lstep l [].

(** Redo, allocator and file size: [for AllocatePage() < id {}; WritePage(id)] for a heap page missing from the file *)
Definition pa_bstep (a : N * N) (r : pa_rec) : N * N :=
  match r with
  | RNewHeap p => if snd a <=? p then (N.max (fst a) p + 1, p + 1) else a
  | _ => a
  end.
Definition pa_next_of_fsize (fs : N) : N := if fs =? 0 then 0 else fs + 1.
Definition pa_bump (l : list pa_rec) (fs : N) : N * N := fold_left pa_bstep l (pa_next_of_fsize fs, fs).

(** one above the largest id of a list (0 for the empty list) *)
Definition pa_top (l : list N) : N := fold_right (fun p a => N.max (p + 1) a) 0 l.

(** [fx = true]  (= [pa_now]): the engine as it is now, with the repair d99b876 at the end of Redo:
                     [m] = the largest id of the rebuilt list that is >= DiskManager.Size()/PageSize (the size after
                     the NewTablePage redo); if there is one, [for AllocatePage() < m {}]: the next id becomes
                     max(next, m) + 1 — one id is consumed even when next > m already.
    [fx = false] (= [pa_prefix]): the start-up BEFORE that repair (the allocator stays where the file size and the
                     NewTablePage redo put it); kept as the subject of the machine-checked witness of the defect. *)
Definition pa_now : bool := true.
Definition pa_prefix : bool := false.

(** one above the largest id of [reus] that is at or beyond the end of the file; 0 if there is none *)
Definition pa_topb (reus : list N) (fs : N) : N := pa_top (filter (fun p => fs <=? p) reus).

Definition pa_restart (fx : bool) (st : pa_state) (kept : nat) (surv order : list N) : pa_state :=
  let dl := firstn kept (pa_log st) in
  let set := pa_lset dl in
  let reus := if pa_perm_b order set then order else set in
  let '(nx, fs) := pa_bump dl (pa_fsize st) in
  mkPA (if fx then (if pa_topb reus fs =? 0 then nx else N.max (nx + 1) (pa_topb reus fs)) else nx)
       reus (filter (fun x => memN x surv) (pa_inuse st)) [] [] (map RDealloc reus) (length reus) fs.

Definition pa_step (fx : bool) (st : pa_state) (o : pa_op) : pa_state * pa_out :=
  match o with
  | ONew =>
      let '(p, s1) := pa_alloc st in (pa_own s1 p (pa_log s1) (pa_durable s1), PONew p)
  | ONewHeap =>
      let '(p, s1) := pa_alloc st in (pa_own s1 p (pa_log s1 ++ [RNewHeap p]) (pa_durable s1), PONew p)
  | ORelease p m =>
      let reus := match m with MNow => pa_reusable st ++ [p] | _ => pa_reusable st end in
      let fl := match m with MNow => pa_del p (pa_flagged st) | MFlag => pa_add p (pa_flagged st)
                | MNone => pa_flagged st end in
      (mkPA (pa_next st) reus (pa_del p (pa_inuse st)) fl (p :: pa_pending st)
            (pa_log st) (pa_durable st) (pa_fsize st), POOk)
  | OLogDealloc p =>
      let lg := pa_log st ++ [RDealloc p] in
      (mkPA (pa_next st) (pa_reusable st) (pa_inuse st) (pa_flagged st) (remove1 p (pa_pending st))
            lg (length lg) (pa_fsize st), POOk)
  | OEvict p =>
      if memN p (pa_flagged st) then
        (mkPA (pa_next st) (pa_reusable st ++ [p]) (pa_inuse st) (pa_del p (pa_flagged st)) (pa_pending st)
              (pa_log st) (pa_durable st) (pa_fsize st), POOk)
      else (st, POBad)
  | OWrote p =>
      (mkPA (pa_next st) (pa_reusable st) (pa_inuse st) (pa_flagged st) (pa_pending st)
            (pa_log st) (length (pa_log st)) (N.max (pa_fsize st) (p + 1)), POOk)
  | OFlushLog =>
      (mkPA (pa_next st) (pa_reusable st) (pa_inuse st) (pa_flagged st) (pa_pending st)
            (pa_log st) (length (pa_log st)) (pa_fsize st), POOk)
  | OProbe =>
      (mkPA (pa_next st + 1) (pa_reusable st) (pa_inuse st) (pa_flagged st) (pa_pending st)
            (pa_log st) (pa_durable st) (pa_fsize st), PONew (pa_next st))
  | OCleanRestart order =>
      (pa_restart fx st (length (pa_log st)) (pa_inuse st) order,
       if pa_perm_b order (pa_lset (pa_log st)) then POOk else POBad)
  | OCrashRestart kept surv order =>
      (pa_restart fx st kept surv order,
       if pa_perm_b order (pa_lset (firstn kept (pa_log st)))
          && Nat.leb (pa_durable st) kept && Nat.leb kept (length (pa_log st))
          && forallb (fun x => memN x (pa_inuse st)) surv
       then POOk else POBad)
  end.

Fixpoint pa_run (fx : bool) (st : pa_state) (ops : list pa_op) : pa_state * list pa_out :=
  match ops with
  | [] => (st, [])
  | o :: r => let '(s1, out) := pa_step fx st o in let '(s2, outs) := pa_run fx s1 r in (s2, out :: outs)
  end.

(** * Executable checkers *)

Definition pa_inuse_nodup (st : pa_state) : bool := pa_nodup_b (pa_inuse st).

(** the id the next NewPage returns is not in use *)
Definition pa_new_fresh (st : pa_state) : bool := negb (memN (fst (pa_alloc st)) (pa_inuse st)).

(** reusable list: no duplicates, nothing in use *)
Definition pa_reusable_ok (st : pa_state) : bool :=
  pa_nodup_b (pa_reusable st) && forallb (fun p => negb (memN p (pa_inuse st))) (pa_reusable st).

(** * The callers' side of the interface (client contract and legal inputs).
    - an owner releases a page it owns (so: once);
    - the log half of a deallocation follows its memory half;
    - only flagged pages are cached out as such; only pages with an allocated id are written;
    - NO ALLOCATION OVERTAKES THE LOG HALF OF A DEALLOCATION: NewPage does not take an id whose
      DEALLOCATE_PAGE record is still to be appended (always true for one thread: DeallocatePage runs both
      halves back to back; between two threads nothing in the engine enforces it);
    - restart inputs: the durable prefix covers what was flushed, survivors were owners. *)
Definition pa_client_ok (st : pa_state) (o : pa_op) : bool :=
  match o with
  | ONew | ONewHeap =>
      match pa_reusable st with p :: _ => negb (memN p (pa_pending st)) | [] => true end
  | ORelease p _ => memN p (pa_inuse st)
  | OLogDealloc p => memN p (pa_pending st)
  | OEvict p => memN p (pa_flagged st)
  | OWrote p => p <? pa_next st
  | OFlushLog | OProbe => true
  | OCleanRestart _ => true
  | OCrashRestart kept surv _ =>
      Nat.leb (pa_durable st) kept && Nat.leb kept (length (pa_log st))
      && forallb (fun x => memN x (pa_inuse st)) surv
  end.

(** * Well-formedness of the image a restart starts from: every id that is owned after the restart and every
    id of the rebuilt reusable list lies below the point the allocator restarts from (file size + 1, raised by
    the redo of NewTablePage records).
    Expected to be established by: FlushAllDirtyPages at shutdown + owners releasing new pages dirty (owned
    ids, clean restart); FlushPage at creation (NewTableHeap, catalog) and the NewTablePage redo (owned ids,
    crash).  For the ids of the REUSABLE list the start-up establishes it itself since d99b876 ([fx = true]);
    before, nothing in the engine did. *)
Definition pa_image_owned_ok (st : pa_state) (kept : nat) (surv : list N) : bool :=
  let nx := fst (pa_bump (firstn kept (pa_log st)) (pa_fsize st)) in
  forallb (fun p => p <? nx) (filter (fun x => memN x surv) (pa_inuse st)).
Definition pa_image_reusable_ok (st : pa_state) (kept : nat) : bool :=
  let nx := fst (pa_bump (firstn kept (pa_log st)) (pa_fsize st)) in
  forallb (fun p => p <? nx) (pa_lset (firstn kept (pa_log st))).

Definition pa_image_ok (fx : bool) (st : pa_state) (o : pa_op) : bool :=
  match o with
  | OCleanRestart _ =>
      pa_image_owned_ok st (length (pa_log st)) (pa_inuse st)
      && (fx || pa_image_reusable_ok st (length (pa_log st)))
  | OCrashRestart kept surv _ => pa_image_owned_ok st kept surv && (fx || pa_image_reusable_ok st kept)
  | _ => true
  end.

(** the owned half alone: all that a restart of the current engine needs *)
Definition pa_owned_ok (st : pa_state) (o : pa_op) : bool :=
  match o with
  | OCleanRestart _ => pa_image_owned_ok st (length (pa_log st)) (pa_inuse st)
  | OCrashRestart kept surv _ => pa_image_owned_ok st kept surv
  | _ => true
  end.

(** runs in which every step satisfies a guard; [None] if some step does not *)
Fixpoint pa_run_g (fx : bool) (g : pa_state -> pa_op -> bool) (st : pa_state) (ops : list pa_op)
  : option (pa_state * list pa_out) :=
  match ops with
  | [] => Some (st, [])
  | o :: r =>
      if g st o then
        let '(s1, out) := pa_step fx st o in
        match pa_run_g fx g s1 r with Some (s2, outs) => Some (s2, out :: outs) | None => None end
      else None
  end.

Definition pa_guard_all (fx : bool) (st : pa_state) (o : pa_op) : bool :=
  pa_client_ok st o && pa_image_ok fx st o.

(** the hypotheses for the current engine: the callers' contract and the owned half of the image condition *)
Definition pa_guard_now (st : pa_state) (o : pa_op) : bool := pa_client_ok st o && pa_owned_ok st o.

(** ids NewPage returned, in order *)
Fixpoint pa_news (ops : list pa_op) (outs : list pa_out) : list N :=
  match ops, outs with
  | (ONew | ONewHeap) :: r, PONew p :: t => p :: pa_news r t
  | _ :: r, _ :: t => pa_news r t
  | _, _ => []
  end.

(** * The catalog's use of the allocator (C10): CREATE TABLE takes the first page of the new heap from NewPage
    (NewTableHeap: NewPage + TablePage.Init); nothing ever gives such a page back (the engine has no DROP TABLE and
    the table heap never deallocates), and a table survives a crash.  [pa_jrun] collects the first pages, with
    arbitrary other guarded operations in between. *)
Inductive pa_jop := JCreate | JOther (o : pa_op).

Definition pa_keeps (tp : list N) (o : pa_op) : bool :=
  match o with
  | ORelease p _ => negb (memN p tp)
  | OCrashRestart _ surv _ => forallb (fun t => memN t surv) tp
  | _ => true
  end.

Fixpoint pa_jrun (fx : bool) (st : pa_state) (tp : list N) (ops : list pa_jop) : option (pa_state * list N) :=
  match ops with
  | [] => Some (st, tp)
  | JCreate :: r =>
      if pa_client_ok st ONewHeap then
        match pa_step fx st ONewHeap with
        | (s1, PONew p) => pa_jrun fx s1 (tp ++ [p]) r
        | _ => None
        end
      else None
  | JOther o :: r =>
      if pa_guard_all fx st o && pa_keeps tp o then pa_jrun fx (fst (pa_step fx st o)) tp r else None
  end.
