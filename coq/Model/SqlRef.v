(** Reference semantics of the supported single-table statements and of joins
    (the specification side of C06 / C11 / C04): SQL WHERE semantics over a
    table given as a list of rows.  A row qualifies iff the predicate is TRUE.  Integers compare as integers,
    float32 values by the IEEE order on their bit patterns (NaN cannot be
    stored through the front end), strings bytewise.  Model only. *)
From Coq Require Import List NArith ZArith Bool.
From SDB Require Import Base.Bytes Model.Codec.
Import ListNotations.

Inductive value :=
| VNull
| VInt (z : Z)
| VFloat (bits : N)
| VStr (s : list N).

Inductive cmpop := OEq | ONe | OLt | OLe | OGt | OGe.

Inductive pred :=
| PTrue
| PCmp (col : nat) (o : cmpop) (lit : value)
| PAnd (p q : pred)
| POr (p q : pred).

Definition row := list value.
Definition table := list row.

(** Three-way comparison of two non-NULL values of the same type. *)
Definition vcmp (a b : value) : option comparison :=
  match a, b with
  | VInt x, VInt y => Some (x ?= y)%Z
  | VFloat u, VFloat v => Some (f_cmp u v)
  | VStr s, VStr t => Some (lex_cmp s t)
  | _, _ => None
  end.

Definition cmp_holds (o : cmpop) (c : comparison) : bool :=
  match o, c with
  | OEq, Eq => true
  | ONe, Lt | ONe, Gt => true
  | OLt, Lt => true
  | OLe, Lt | OLe, Eq => true
  | OGt, Gt => true
  | OGe, Gt | OGe, Eq => true
  | _, _ => false
  end.

(** NULL follows the engine's documented convention (its own tests query
    [WHERE b = NULL]): NULL is a value equal only to itself, [<>] is the negation
    of [=], and NULL is neither smaller nor greater than anything. *)
Definition is_null (v : value) : bool := match v with VNull => true | _ => false end.

Definition eval_cmp (o : cmpop) (a b : value) : bool :=
  if is_null a || is_null b then
    match o with
    | OEq | OLe | OGe => is_null a && is_null b
    | ONe => negb (is_null a && is_null b)
    | OLt | OGt => false
    end
  else match vcmp a b with Some c => cmp_holds o c | None => false end.

Fixpoint eval_pred (r : row) (p : pred) : bool :=
  match p with
  | PTrue => true
  | PCmp c o lit => eval_cmp o (nth c r VNull) lit
  | PAnd p q => eval_pred r p && eval_pred r q
  | POr p q => eval_pred r p || eval_pred r q
  end.

Definition project (cols : list nat) (r : row) : row := map (fun c => nth c r VNull) cols.

Definition sel (cols : list nat) (p : pred) (t : table) : table :=
  map (project cols) (filter (fun r => eval_pred r p) t).

Fixpoint set_col (r : row) (c : nat) (v : value) : row :=
  match r, c with
  | [], _ => []
  | _ :: r', O => v :: r'
  | x :: r', S c' => x :: set_col r' c' v
  end.

Definition assign (asg : list (nat * value)) (r : row) : row :=
  fold_left (fun r cv => set_col r (fst cv) (snd cv)) asg r.

Definition upd (asg : list (nat * value)) (p : pred) (t : table) : table :=
  map (fun r => if eval_pred r p then assign asg r else r) t.

Definition del (p : pred) (t : table) : table :=
  filter (fun r => negb (eval_pred r p)) t.

(** Joins: the matching combinations of base rows (concatenated), filtered. *)
Definition cross (t1 t2 : table) : table :=
  flat_map (fun r1 => map (fun r2 => r1 ++ r2) t2) t1.

(** [join_sel cols p ts]: cross product of all tables, rows satisfying [p]
    (join conditions are comparisons between two columns of the combined row). *)
Inductive jpred :=
| JTrue
| JColEq (c1 c2 : nat)                 (* t1.x = t2.y, columns of the combined row *)
| JCmp (col : nat) (o : cmpop) (lit : value)
| JAnd (p q : jpred).

Fixpoint eval_jpred (r : row) (p : jpred) : bool :=
  match p with
  | JTrue => true
  | JColEq c1 c2 =>
      (* a NULL join key matches nothing (what the hash and index joins implement) *)
      negb (is_null (nth c1 r VNull)) && negb (is_null (nth c2 r VNull)) &&
      eval_cmp OEq (nth c1 r VNull) (nth c2 r VNull)
  | JCmp c o lit => eval_cmp o (nth c r VNull) lit
  | JAnd p q => eval_jpred r p && eval_jpred r q
  end.

Definition join_sel (cols : list nat) (p : jpred) (ts : list table) : table :=
  map (project cols) (filter (fun r => eval_jpred r p) (fold_left cross ts [[]])).
