(** M5 — executable model of the buffer pool manager.
    Mirrors lib/storage/buffer/buffer_pool_manager.go (NewPage, FetchPage,
    UnpinPage, FlushPage, FlushAllPages, DeallocatePage, getFrameID) over a
    disk with the read semantics of VirtualDiskManagerImpl.  A page's 4096
    bytes are represented by one number (the harness stores it in the page).
    The replacer is modelled by its membership set; WHICH member the clock hand
    picks is an input supplied by the implementation (argument [victim]) and
    only checked for legality.  Model only: no proofs here. *)
From Coq Require Import List NArith ZArith Bool.
From SDB Require Import Base.Assoc.
Import ListNotations.
Open Scope N_scope.

Record frame := mkF {
  f_pid : N; f_pin : Z; f_dirty : bool; f_dealloc : bool; f_val : N
}.

Record pool := mkB {
  frames   : list (option frame);
  ptable   : list (N * N);      (* page id -> frame index *)
  freel    : list N;            (* free frame indices, head first *)
  repl     : list N;            (* frames the replacer may choose *)
  reusable : list N;            (* page ids to hand out again, head first *)
  disk     : list (N * N);      (* page id -> content written *)
  dsize    : N;                 (* pages below this bound can be read *)
  next_pid : N;
  locked   : bool               (* the pool mutex was left locked (panic while holding it) *)
}.

Fixpoint mk_frames (n : nat) : list (option frame) :=
  match n with O => [] | S n' => None :: mk_frames n' end.
Fixpoint iota (k : N) (n : nat) : list N :=
  match n with O => [] | S n' => k :: iota (k + 1) n' end.

Definition binit (n : nat) : pool :=
  mkB (mk_frames n) [] (iota 0 n) [] [] [] 0 0 false.

Inductive bop :=
| BNew (victim : N)
| BFetch (p : N) (victim : N)
| BWrite (p : N) (v : N)          (* a pin holder changes the page's bytes *)
| BUnpin (p : N) (dirty : bool)
| BFlush (p : N)
| BFlushAll
| BDealloc (p : N) (nowait : bool)
| BMarkDealloc (p : N).           (* Page.SetIsDeallocated(true) by a pin holder (skip list) *)

Inductive bout :=
| BONew (p : N)
| BOFetched (v : N)
| BONil
| BOOk
| BOFalse
| BOPanic
| BOHang       (* the call blocks forever on the pool mutex *)
| BOBad.       (* the model was given an impossible input (illegal victim, write to a non-resident page) *)

Definition fr_at (b : pool) (i : N) : option frame :=
  match nth_error (frames b) (N.to_nat i) with Some (Some f) => Some f | _ => None end.

Fixpoint set_fr (l : list (option frame)) (n : nat) (x : option frame) : list (option frame) :=
  match l, n with
  | [], _ => []
  | _ :: l', O => x :: l'
  | y :: l', S n' => y :: set_fr l' n' x
  end.

Definition disk_read (b : pool) (p : N) : option N :=
  if p <? dsize b then Some (match aget (disk b) p with Some v => v | None => 0 end) else None.

Definition disk_write (b : pool) (p v : N) : list (N * N) * N :=
  (aset (disk b) p v, if dsize b <=? p then p + 1 else dsize b).

(** getFrameID + the cache-out of the current occupant. [None] = panic while
    the mutex is held. Returns the frame index and the pool with the frame
    emptied. *)
Definition take_frame (b : pool) (victim : N) : option (N * pool) + unit :=
  match freel b with
  | f :: rest =>
      inl (Some (f, mkB (frames b) (ptable b) rest (repl b) (reusable b) (disk b) (dsize b) (next_pid b) (locked b)))
  | [] =>
      match repl b with
      | [] => inl None                          (* Victim() panics: nothing can be cached out *)
      | _ =>
        if negb (memN victim (repl b)) then inr tt   (* illegal oracle value *)
        else
          let repl' := remove1 victim (repl b) in
          match fr_at b victim with
          | None => inl (Some (victim, mkB (frames b) (ptable b) [] repl' (reusable b) (disk b) (dsize b) (next_pid b) (locked b)))
          | Some cur =>
            if negb (f_pin cur =? 0)%Z then inl None  (* "pin count of page to be cache out must be zero" *)
            else
              let reus := if f_dealloc cur then reusable b ++ [f_pid cur] else reusable b in
              let '(dk, ds) := if negb (f_dealloc cur) && f_dirty cur
                               then disk_write b (f_pid cur) (f_val cur) else (disk b, dsize b) in
              inl (Some (victim,
                   mkB (set_fr (frames b) (N.to_nat victim) None) (adel (ptable b) (f_pid cur)) []
                       repl' reus dk ds (next_pid b) (locked b)))
          end
      end
  end.

Definition lock (b : pool) : pool :=
  mkB (frames b) (ptable b) (freel b) (repl b) (reusable b) (disk b) (dsize b) (next_pid b) true.

Definition b_new (b : pool) (victim : N) : pool * bout :=
  match take_frame b victim with
  | inr _ => (b, BOBad)
  | inl None => (lock b, BOPanic)
  | inl (Some (f, b1)) =>
      let '(pid, reus, nxt) :=
        match reusable b1 with
        | p :: rest => (p, rest, next_pid b1)
        | [] => (next_pid b1, [], next_pid b1 + 1)
        end in
      (mkB (set_fr (frames b1) (N.to_nat f) (Some (mkF pid 1 false false 0)))
           (aset (ptable b1) pid f) (freel b1) (repl b1) reus (disk b1) (dsize b1) nxt (locked b1),
       BONew pid)
  end.

Definition b_fetch (b : pool) (p victim : N) : pool * bout :=
  match aget (ptable b) p with
  | Some f =>
      match fr_at b f with
      | None => (b, BOBad)
      | Some fr =>
          (mkB (set_fr (frames b) (N.to_nat f) (Some (mkF (f_pid fr) (f_pin fr + 1) (f_dirty fr) (f_dealloc fr) (f_val fr))))
               (ptable b) (freel b) (remove1 f (repl b)) (reusable b) (disk b) (dsize b) (next_pid b) (locked b),
           BOFetched (f_val fr))
      end
  | None =>
      match take_frame b victim with
      | inr _ => (b, BOBad)
      | inl None => (lock b, BOPanic)
      | inl (Some (f, b1)) =>
          match disk_read b1 p with
          | None =>   (* read error: the frame goes back to the free list *)
              (mkB (frames b1) (ptable b1) (freel b1 ++ [f]) (repl b1) (reusable b1) (disk b1) (dsize b1) (next_pid b1) (locked b1),
               BONil)
          | Some v =>
              (mkB (set_fr (frames b1) (N.to_nat f) (Some (mkF p 1 false false v)))
                   (aset (ptable b1) p f) (freel b1) (repl b1) (reusable b1) (disk b1) (dsize b1) (next_pid b1) (locked b1),
               BOFetched v)
          end
      end
  end.

Definition upd_frame (b : pool) (f : N) (fr : frame) (repl' : list N) : pool :=
  mkB (set_fr (frames b) (N.to_nat f) (Some fr)) (ptable b) (freel b) repl' (reusable b) (disk b) (dsize b) (next_pid b) (locked b).

Definition b_write (b : pool) (p v : N) : pool * bout :=
  match aget (ptable b) p with
  | Some f =>
      match fr_at b f with
      | Some fr => (upd_frame b f (mkF (f_pid fr) (f_pin fr) (f_dirty fr) (f_dealloc fr) v) (repl b), BOOk)
      | None => (b, BOBad)
      end
  | None => (b, BOBad)
  end.

Definition b_unpin (b : pool) (p : N) (dirty : bool) : pool * bout :=
  match aget (ptable b) p with
  | Some f =>
      match fr_at b f with
      | None => (b, BOBad)
      | Some fr =>
          let pin' := (f_pin fr - 1)%Z in
          if (pin' <? 0)%Z then
            (lock (upd_frame b f (mkF (f_pid fr) pin' (f_dirty fr) (f_dealloc fr) (f_val fr)) (repl b)), BOPanic)
          else
            let repl' := if (pin' <=? 0)%Z then (if memN f (repl b) then repl b else repl b ++ [f]) else repl b in
            (upd_frame b f (mkF (f_pid fr) pin' (f_dirty fr || dirty) (f_dealloc fr) (f_val fr)) repl', BOOk)
      end
  | None => (b, BOPanic)          (* "could not find page": panics after releasing the mutex *)
  end.

Definition b_flush (b : pool) (p : N) : pool * bout :=
  match aget (ptable b) p with
  | Some f =>
      match fr_at b f with
      | None => (b, BOBad)
      | Some fr =>
          let '(dk, ds) := disk_write b p (f_val fr) in
          (mkB (set_fr (frames b) (N.to_nat f) (Some (mkF (f_pid fr) (f_pin fr) false (f_dealloc fr) (f_val fr))))
               (ptable b) (freel b) (repl b) (reusable b) dk ds (next_pid b) (locked b), BOOk)
      end
  | None => (b, BOFalse)
  end.

Definition b_flush_all (b : pool) : pool * bout :=
  (fold_left (fun b p => fst (b_flush b p)) (map fst (ptable b)) b, BOOk).

Definition b_dealloc (b : pool) (p : N) (nowait : bool) : pool * bout :=
  if negb nowait then (b, BOOk)
  else match aget (ptable b) p with
  | None => (b, BOOk)
  | Some f =>
      match fr_at b f with
      | None => (b, BOBad)
      | Some fr =>
          if (f_pin fr =? 0)%Z then
            (mkB (set_fr (frames b) (N.to_nat f) None) (adel (ptable b) p) (freel b ++ [f])
                 (remove1 f (repl b)) (reusable b ++ [p]) (disk b) (dsize b) (next_pid b) (locked b), BOOk)
          else
            (upd_frame b f (mkF (f_pid fr) (f_pin fr) (f_dirty fr) true (f_val fr)) (repl b), BOOk)
      end
  end.

Definition b_mark_dealloc (b : pool) (p : N) : pool * bout :=
  match aget (ptable b) p with
  | Some f =>
      match fr_at b f with
      | Some fr => (upd_frame b f (mkF (f_pid fr) (f_pin fr) (f_dirty fr) true (f_val fr)) (repl b), BOOk)
      | None => (b, BOBad)
      end
  | None => (b, BOBad)
  end.

Definition bstep (b : pool) (o : bop) : pool * bout :=
  if locked b then (b, BOHang)
  else match o with
  | BNew v => b_new b v
  | BFetch p v => b_fetch b p v
  | BWrite p v => b_write b p v
  | BUnpin p d => b_unpin b p d
  | BFlush p => b_flush b p
  | BFlushAll => b_flush_all b
  | BDealloc p nw => b_dealloc b p nw
  | BMarkDealloc p => b_mark_dealloc b p
  end.
