(** M1 — executable model of the index-key codec and the row-id packers.
    Mirrors lib/samehada/samehada_util/samehada_util.go
    (encodeToDicOrderComparableBytes, decodeFromDicOrderComparableBytes,
    EncodeValueAndRIDToDicOrderComparableVarchar, Pack*/Unpack*,
    FillZeroValues, EliminateZeroValues) and lib/types/uint32.go.
    Model only: no proofs in this file. *)
From Coq Require Import List NArith ZArith Bool.
From SDB Require Import Base.Bytes Params.
Import ListNotations.
Open Scope N_scope.

Definition two31 : N := 2147483648.
Definition two32 : N := 4294967296.

(** Go's [uint32(i)] for an int32 [i], and [int32(u)] for a uint32 [u]. *)
Definition u32_of_z (z : Z) : N := Z.to_N (z mod 4294967296).
Definition z_of_u32 (u : N) : Z :=
  if u <? two31 then Z.of_N u else (Z.of_N u - 4294967296)%Z.

(** [convedArr[0] ^= SignMaskSmall] *)
Definition xor_top (l : list N) : list N :=
  match l with
  | x :: r => N.lxor x sign_mask_small :: r
  | [] => []
  end.

Definition enc_int (z : Z) : list N := xor_top (be 4 (u32_of_z z)).
Definition dec_int (l : list N) : Z := z_of_u32 (be_dec (xor_top (firstn 4 l)) 0).

(** float32 values are represented by their bit patterns. *)
Definition f_exp (u : N) : N := (u / 8388608) mod 256.
Definition f_man (u : N) : N := u mod 8388608.
Definition f_is_nan (u : N) : bool := (f_exp u =? 255) && (0 <? f_man u).
(** Go's [f >= 0]: true for +0, -0 and every positive non-NaN value. *)
Definition f_ge0 (u : N) : bool :=
  negb (f_is_nan u) && ((u <? two31) || (u =? two31)).
(** [^u] on uint32 *)
Definition lnot32 (u : N) : N := two32 - 1 - u.

Definition enc_f32_word (u : N) : N :=
  if f_ge0 u then N.lor u sign_mask_big else lnot32 u.
Definition enc_f32 (u : N) : list N := be 4 (enc_f32_word u).
Definition dec_f32_word (e : N) : N :=
  if 0 <? N.land e sign_mask_big then N.land e (lnot32 sign_mask_big) else lnot32 e.
Definition dec_f32 (l : list N) : N := dec_f32_word (be_dec (firstn 4 l) 0).

(** Row ids: page id is an int32, slot a uint32. *)
Definition pack64 (page : Z) (slot : N) : N := slot * two32 + u32_of_z page.
Definition unpack64 (v : N) : Z * N := (z_of_u32 (v mod two32), (v / two32) mod two32).

Definition pack8 (page : Z) (slot : N) : list N := be 4 (u32_of_z page) ++ be 4 slot.
Definition unpack8 (l : list N) : Z * N :=
  (z_of_u32 (be_dec (firstn 4 l) 0), be_dec (firstn 4 (skipn 4 l)) 0).

(** B-tree value: bytes 0..3 and 6..7 of [pack8]. *)
Definition pack6 (page : Z) (slot : N) : list N :=
  let b := pack8 page slot in firstn 4 b ++ skipn 6 b.
Definition unpack6 (l : list N) : Z * N :=
  unpack8 (firstn 4 l ++ [0; 0] ++ skipn 4 l).

Definition pack32 (page : Z) (slot : N) : N :=
  (slot mod 65536) * 65536 + (u32_of_z page) mod 65536.
Definition unpack32 (v : N) : Z * N := (Z.of_N (v mod 65536), (v / 65536) mod 65536).

(** The 8-byte row-id suffix of an index key: [types.UInt64(PackRIDtoUint64(rid)).Serialize()]
    is little-endian. *)
Definition rid_suffix (page : Z) (slot : N) : list N := le 8 (pack64 page slot).

(** Content of the varchar value produced by
    EncodeValueAndRIDToDicOrderComparableVarchar. *)
Definition enc_int_key (z : Z) (page : Z) (slot : N) : list N :=
  enc_int z ++ rid_suffix page slot.
Definition enc_f32_key (u : N) (page : Z) (slot : N) : list N :=
  enc_f32 u ++ rid_suffix page slot.
Definition enc_str_key (s : list N) (page : Z) (slot : N) : list N :=
  s ++ [0; 0; 0; 0] ++ rid_suffix page slot.

(** ExtractOrgKeyFromDicOrderComparableEncodedVarchar *)
Definition dec_int_key (k : list N) : Z := dec_int (firstn (length k - 8) k).
Definition dec_f32_key (k : list N) : N := dec_f32 (firstn (length k - 8) k).
Definition dec_str_key (k : list N) : list N := firstn (length k - 12) k.

(** FillZeroValues / EliminateZeroValues (B-tree varchar keys).
    [None] = the panic "key length is too long". *)
Definition fill_zero (key : list N) (maxlen : nat) : option (list N) :=
  if Nat.ltb (maxlen - 12 - 2) (length key) then None
  else
    let pad := (maxlen - length key - 2)%nat in
    Some (key ++ zeros pad ++ be 2 (N.of_nat pad)).
Definition elim_zero (key : list N) : list N :=
  let pad := N.to_nat (be_dec (skipn (length key - 2) key) 0) in
  firstn (length key - pad - 2) key.

(** Reference orders on values. Integers: [Z.compare]. Non-NaN floats: the
    IEEE-754 order on bit patterns — sign/magnitude, with -0 = +0. *)
Definition f_key (u : N) : Z :=
  if u <? two31 then Z.of_N u else (- Z.of_N (u - two31))%Z.
Definition f_cmp (u v : N) : comparison := (f_key u ?= f_key v)%Z.
