(** M6c — how recovery READS the log file
    (lib/recovery/log_recovery/log_recovery.go Redo / Undo,
     lib/storage/disk/disk_manager_impl.go ReadLog).

    Redo:   fileOffset := 0
            while ReadLog(logBuffer, fileOffset, &readBytes):        -- one chunk
              bufferOffset := 0
              while DeserializeLogRecord(logBuffer[bufferOffset:readBytes], &rec):
                 lsnMapping[rec.Lsn] := fileOffset + bufferOffset ; apply rec
                 bufferOffset += rec.Size
              if bufferOffset == 0: break                            -- torn tail
              fileOffset += bufferOffset
    Undo:   ReadLog(logBuffer, lsnMapping[lsn], &readBytes);
            DeserializeLogRecord(logBuffer[:readBytes], &rec)        -- one record

    The single-record reader is LogCodec's [parse_rec] (the model of DeserializeLogRecord:
    20 header bytes present, size field >= 20, the whole record inside the bytes handed in;
    the bytes after the record are [data[bufferOffset+Size:readBytes]]).
    Not modelled: (1) Go's reader hands out a record whose BODY overruns its own size field
    with whatever DeserializeFrom finds; the codec declares such a record unparsable and the
    model follows the codec (records written by AppendLogRecord never have that form);
    (2) offsets are natural numbers here, uint32/int32 in Go (a log of 2 GiB wraps there);
    (3) Undo ignores the results of ReadLog/DeserializeLogRecord (a failed read leaves the
    previous record in [logRecord]); the model returns [None] for a failed read.
    Model only: no proofs here. *)
From Coq Require Import List NArith ZArith Bool Arith.
From SDB Require Import Base.Bytes Params Model.Wal Model.LogCodec.
Import ListNotations.
Local Open Scope nat_scope.

(** DiskManagerImpl.ReadLog: [false] when [offset >= file size]; otherwise the buffer
    receives the bytes from [offset] on, as many as the buffer holds or the file has. *)
Definition lr_read_log (file : list N) (off len : nat) : option (list N) :=
  if length file <=? off then None else Some (firstn len (skipn off file)).

(** the length of a record as the reader advances by it: its size field *)
Definition lr_rec_len (r : lrec_full) : nat := N.to_nat (f_size r).

(** inner loop of Redo on one chunk: records, and [bufferOffset] when the loop is left
    (every record takes >= 20 bytes, so the length of the chunk is enough fuel) *)
Fixpoint lr_chunk_fuel (fuel : nat) (data : list N) : list lrec_full * nat :=
  match fuel with
  | O => ([], 0)
  | S f =>
      match parse_rec data with
      | None => ([], 0)
      | Some (r, rest) => let (rs, n) := lr_chunk_fuel f rest in (r :: rs, lr_rec_len r + n)
      end
  end.

Definition lr_chunk_records (chunk : list N) : list lrec_full * nat :=
  lr_chunk_fuel (length chunk) chunk.

(** [lsnMapping]: the records of a chunk with their file offsets, the first one at [base] *)
Fixpoint lr_with_offsets (base : nat) (rs : list lrec_full) : list (nat * lrec_full) :=
  match rs with
  | [] => []
  | r :: rs' => (base, r) :: lr_with_offsets (base + lr_rec_len r) rs'
  end.

(** outer loop of Redo, from [fileOffset] *)
Fixpoint lr_redo_scan_from (bufsize fuel : nat) (file : list N) (fileOffset : nat)
  : list (nat * lrec_full) :=
  match fuel with
  | O => []
  | S f =>
      match lr_read_log file fileOffset bufsize with
      | None => []                                   (* end of the log file *)
      | Some chunk =>
          let (rs, bufferOffset) := lr_chunk_records chunk in
          if bufferOffset =? 0 then []               (* no complete record here: break *)
          else lr_with_offsets fileOffset rs ++
               lr_redo_scan_from bufsize f file (fileOffset + bufferOffset)
      end
  end.

(** the records Redo processes, each with its offset in the file *)
Definition lr_redo_scan (bufsize fuel : nat) (file : list N) : list (nat * lrec_full) :=
  lr_redo_scan_from bufsize fuel file 0.

(** Undo's read of one record by its file offset *)
Definition lr_undo_read (bufsize : nat) (file : list N) (off : nat) : option lrec_full :=
  match lr_read_log file off bufsize with
  | None => None
  | Some chunk =>
      match parse_rec chunk with
      | Some (r, _) => Some r
      | None => None
      end
  end.

(** the file without its unparsable leftover *)
Definition lr_strip_leftover (file : list N) : list N :=
  firstn (length file - length (snd (parse_all file))) file.

(** total length of a list of records *)
Definition lr_total (rs : list lrec_full) : nat := fold_right (fun r n => lr_rec_len r + n) 0 rs.
