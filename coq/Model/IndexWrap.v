(** M17 — executable model of the secondary-index wrappers
    (lib/storage/index/skip_list_index.go, btree_index.go) and of the
    abstract multimap they are meant to implement.

    Three layers:
    - [omap]: the SPECIFICATION of the ordered unique-key container (skip list /
      B-link tree) the wrappers sit on: a list of (key bytes, value) sorted by
      [lex_cmp]; [om_insert] overwrites on an equal key, [om_remove] deletes the
      key, [om_range] returns the entries with lo <= key <= hi in key order.
      It is not a model of the node structure of either container.
    - the wrapper: every (key, rid) entry becomes ONE composite container key
      [enc key rid] (EncodeValueAndRIDToDicOrderComparableVarchar) whose value is
      the rid; ScanKey / GetRangeScanIterator are container range scans between
      [enc k (0,0)] and [enc k (MaxInt32, MaxUint32)].
    - [mmap]: the abstract multimap, an unordered duplicate-free list of
      (key, rid) pairs.

    Model only: no proofs in this file. *)
From Coq Require Import List NArith ZArith Bool.
From SDB Require Import Base.Bytes Params Model.Codec.
Import ListNotations.
Open Scope N_scope.

(** Row id: (page : int32 >= 0, slot : uint32). *)
Definition rid : Type := (Z * N)%type.

Definition rid_eqb (a b : rid) : bool := (fst a =? fst b)%Z && (snd a =? snd b).

(** The two row ids ScanKey / GetRangeScanIterator use as brackets:
    [page.RID{0, 0}] and [page.RID{math.MaxInt32, math.MaxUint32}]. *)
Definition rid_lo : rid := (0%Z, 0).
Definition rid_hi : rid := (2147483647%Z, 4294967295).

(** * 1. The ordered unique-key container *)

Definition omap : Type := list (list N * rid).

Definition om_empty : omap := [].

(** [a <= b] on byte strings. *)
Definition lex_leb (a b : list N) : bool :=
  match lex_cmp a b with Gt => false | _ => true end.

(** Insert: an entry with an equal key is overwritten. *)
Fixpoint om_insert (k : list N) (v : rid) (m : omap) : omap :=
  match m with
  | [] => [(k, v)]
  | (k', v') :: r =>
      match lex_cmp k k' with
      | Lt => (k, v) :: (k', v') :: r
      | Eq => (k, v) :: r
      | Gt => (k', v') :: om_insert k v r
      end
  end.

(** Remove: no effect when the key is absent. *)
Fixpoint om_remove (k : list N) (m : omap) : omap :=
  match m with
  | [] => []
  | (k', v') :: r =>
      match lex_cmp k k' with
      | Lt => (k', v') :: r
      | Eq => r
      | Gt => (k', v') :: om_remove k r
      end
  end.

(** Was the key present (the boolean Remove returns)? *)
Definition om_mem (k : list N) (m : omap) : bool :=
  existsb (fun e => match lex_cmp k (fst e) with Eq => true | _ => false end) m.

(** Range iterator: entries with lo <= key <= hi, in container order.
    [None] = unbounded on that side. *)
Definition in_bounds (lo hi : option (list N)) (k : list N) : bool :=
  (match lo with None => true | Some l => lex_leb l k end) &&
  (match hi with None => true | Some h => lex_leb k h end).

Definition om_range (lo hi : option (list N)) (m : omap) : omap :=
  filter (fun e => in_bounds lo hi (fst e)) m.

(** Executable check of the container invariant: strictly increasing keys. *)
Fixpoint om_sortedb (m : omap) : bool :=
  match m with
  | [] => true
  | (k, _) :: r =>
      match r with
      | [] => true
      | (k', _) :: _ => (match lex_cmp k k' with Lt => true | _ => false end) && om_sortedb r
      end
  end.

(** * 2. The wrapper, generic in the composite-key encoder
    [enck key page slot] and decoder [deck composite]. *)

Section Wrapper.
  Variable K : Type.
  Variable enck : K -> Z -> N -> list N.
  Variable deck : list N -> K.

  Definition ix_key (k : K) (r : rid) : list N := enck k (fst r) (snd r).

  (** insertEntryInner: [container.Insert(convedKeyVal, PackRIDtoUint64(rid))] *)
  Definition ix_insert (k : K) (r : rid) (m : omap) : omap := om_insert (ix_key k r) r m.

  (** deleteEntryInner: [container.Remove(convedKeyVal, 0)] *)
  Definition ix_delete (k : K) (r : rid) (m : omap) : omap := om_remove (ix_key k r) m.

  (** UpdateEntry: delete then insert (under the exclusive updateMtx). *)
  Definition ix_update (k : K) (r : rid) (k' : K) (r' : rid) (m : omap) : omap :=
    ix_insert k' r' (ix_delete k r m).

  (** ScanKey: the values of the entries between the two brackets of [k]. *)
  Definition ix_scan_key (k : K) (m : omap) : list rid :=
    map snd (om_range (Some (ix_key k rid_lo)) (Some (ix_key k rid_hi)) m).

  (** GetRangeScanIterator: optional bounds; the iterator yields the decoded
      original key and the stored rid of each entry. *)
  Definition ix_out (e : list N * rid) : K * rid := (deck (fst e), snd e).

  Definition ix_range (lo hi : option K) (m : omap) : list (K * rid) :=
    map ix_out
      (om_range (option_map (fun k => ix_key k rid_lo) lo)
                (option_map (fun k => ix_key k rid_hi) hi) m).

  (** Operation sequences. *)
  Inductive ix_op : Type :=
  | IxIns (k : K) (r : rid)
  | IxDel (k : K) (r : rid)
  | IxUpd (k : K) (r : rid) (k' : K) (r' : rid).

  Definition ix_apply (m : omap) (o : ix_op) : omap :=
    match o with
    | IxIns k r => ix_insert k r m
    | IxDel k r => ix_delete k r m
    | IxUpd k r k' r' => ix_update k r k' r' m
    end.

  Definition ix_run (ops : list ix_op) : omap := fold_left ix_apply ops om_empty.

  (** The abstraction function: decode every composite key (original key from
      the prefix, row id from the 8-byte little-endian suffix). *)
  Definition dec_rid_key (kb : list N) : rid :=
    unpack64 (le_dec (skipn (length kb - 8) kb)).

  Definition ix_abs_entry (e : list N * rid) : K * rid := (deck (fst e), dec_rid_key (fst e)).

  Definition ix_abs (m : omap) : list (K * rid) := map ix_abs_entry m.
End Wrapper.

Arguments IxIns {K}.
Arguments IxDel {K}.
Arguments IxUpd {K}.

(** * 3. The abstract multimap, generic in the value order [kcmp]. *)

Section Multimap.
  Variable K : Type.
  Variable kcmp : K -> K -> comparison.

  Definition mmap : Type := list (K * rid).

  Definition mm_empty : mmap := [].

  Definition pair_eqb (a b : K * rid) : bool :=
    match kcmp (fst a) (fst b) with Eq => rid_eqb (snd a) (snd b) | _ => false end.

  (** A pair is stored at most once. *)
  Definition mm_insert (k : K) (r : rid) (s : mmap) : mmap :=
    if existsb (pair_eqb (k, r)) s then s else (k, r) :: s.

  Definition mm_delete (k : K) (r : rid) (s : mmap) : mmap :=
    filter (fun e => negb (pair_eqb (k, r) e)) s.

  Definition mm_update (k : K) (r : rid) (k' : K) (r' : rid) (s : mmap) : mmap :=
    mm_insert k' r' (mm_delete k r s).

  (** The row ids stored under [k] (in no particular order). *)
  Definition mm_lookup (k : K) (s : mmap) : list rid :=
    map snd (filter (fun e => match kcmp (fst e) k with Eq => true | _ => false end) s).

  (** Order of the pairs: by key value, then by the row-id suffix bytes
      (little-endian page, then little-endian slot). *)
  Definition pair_cmp (a b : K * rid) : comparison :=
    match kcmp (fst a) (fst b) with
    | Eq => lex_cmp (rid_suffix (fst (snd a)) (snd (snd a)))
                    (rid_suffix (fst (snd b)) (snd (snd b)))
    | c => c
    end.

  Definition k_leb (a b : K) : bool := match kcmp a b with Gt => false | _ => true end.

  Definition key_in (lo hi : option K) (k : K) : bool :=
    (match lo with None => true | Some l => k_leb l k end) &&
    (match hi with None => true | Some h => k_leb k h end).

  Fixpoint mm_sort_insert (x : K * rid) (l : list (K * rid)) : list (K * rid) :=
    match l with
    | [] => [x]
    | y :: l' =>
        match pair_cmp x y with
        | Gt => y :: mm_sort_insert x l'
        | _ => x :: y :: l'
        end
    end.

  Definition mm_sort (l : list (K * rid)) : list (K * rid) := fold_right mm_sort_insert [] l.

  (** The pairs with lo <= key <= hi, ordered by (key, rid suffix). *)
  Definition mm_range (lo hi : option K) (s : mmap) : list (K * rid) :=
    mm_sort (filter (fun e => key_in lo hi (fst e)) s).

  (** The row ids stored under [k], in suffix order. *)
  Definition mm_lookup_sorted (k : K) (s : mmap) : list rid :=
    map snd (mm_range (Some k) (Some k) s).

  Definition mm_apply (s : mmap) (o : ix_op K) : mmap :=
    match o with
    | IxIns k r => mm_insert k r s
    | IxDel k r => mm_delete k r s
    | IxUpd k r k' r' => mm_update k r k' r' s
    end.

  Definition mm_run (ops : list (ix_op K)) : mmap := fold_left mm_apply ops mm_empty.
End Multimap.

(** * Instances *)

(** Integer keys: [Z] in the int32 range, ordered by [Z.compare]. *)
Definition ixi_insert := ix_insert Z enc_int_key.
Definition ixi_delete := ix_delete Z enc_int_key.
Definition ixi_update := ix_update Z enc_int_key.
Definition ixi_scan_key := ix_scan_key Z enc_int_key.
Definition ixi_range := ix_range Z enc_int_key dec_int_key.
Definition ixi_run := ix_run Z enc_int_key.
Definition ixi_abs := ix_abs Z dec_int_key.
Definition mmi_run := mm_run Z Z.compare.
Definition mmi_range := mm_range Z Z.compare.
Definition mmi_lookup := mm_lookup Z Z.compare.
Definition mmi_lookup_sorted := mm_lookup_sorted Z Z.compare.

(** Float keys: non-NaN float32 bit patterns, ordered by [f_cmp]; the decoder
    returns +0.0 for both zeros, so the multimap stores canonical patterns. *)
Definition f_canon (u : N) : N := if u =? two31 then 0 else u.
Definition f_canon_op (o : ix_op N) : ix_op N :=
  match o with
  | IxIns k r => IxIns (f_canon k) r
  | IxDel k r => IxDel (f_canon k) r
  | IxUpd k r k' r' => IxUpd (f_canon k) r (f_canon k') r'
  end.
Definition ixf_insert := ix_insert N enc_f32_key.
Definition ixf_delete := ix_delete N enc_f32_key.
Definition ixf_update := ix_update N enc_f32_key.
Definition ixf_scan_key := ix_scan_key N enc_f32_key.
Definition ixf_range := ix_range N enc_f32_key dec_f32_key.
Definition ixf_run := ix_run N enc_f32_key.
Definition ixf_abs := ix_abs N dec_f32_key.
Definition mmf_run := mm_run N f_cmp.
Definition mmf_range := mm_range N f_cmp.
Definition mmf_lookup := mm_lookup N f_cmp.
Definition mmf_lookup_sorted := mm_lookup_sorted N f_cmp.

(** String keys: NUL-free byte strings, ordered by [lex_cmp]. *)
Definition ixs_insert := ix_insert (list N) enc_str_key.
Definition ixs_delete := ix_delete (list N) enc_str_key.
Definition ixs_update := ix_update (list N) enc_str_key.
Definition ixs_scan_key := ix_scan_key (list N) enc_str_key.
Definition ixs_range := ix_range (list N) enc_str_key dec_str_key.
Definition ixs_run := ix_run (list N) enc_str_key.
Definition ixs_abs := ix_abs (list N) dec_str_key.
Definition mms_run := mm_run (list N) lex_cmp.
Definition mms_range := mm_range (list N) lex_cmp.
Definition mms_lookup := mm_lookup (list N) lex_cmp.
Definition mms_lookup_sorted := mm_lookup_sorted (list N) lex_cmp.
