(** M8 — executable model of multi-table query planning and execution (property C11).
    Mirrors
      lib/planner/optimizer/selinger_optimizer.go   findBestScans       -> [table_pred], [touched_local], [scan_candidates]
                                                    findBestJoinInner   -> [links], [final_selection], [inner]
                                                    findBestJoin        -> [pair_up], [join_candidates], [finish]
      lib/execution/executors/hash_join_executor.go                      -> [hash_join]
      lib/execution/executors/index_join_executor.go,
      lib/execution/executors/point_scan_with_index_executor.go          -> [point_scan], [index_join]
      lib/execution/executors/nested_loop_join_executor.go               -> [cross]
      lib/execution/executors/{selection,projection}_executor.go,
      lib/execution/expression/comparison.go (Evaluate / EvaluateJoin)   -> [eng_jeval], [jproject]
    on the value / predicate types of the reference semantics (Model/SqlRef.v),
    with the single-table sub-plans of Model/Query.v at the leaves.
    Model only: no proofs in this file.

    Columns.  The tables of the FROM list have schemas [schs]; the combined row of
    ALL tables is the concatenation of one row of each table in FROM order, and a
    *global column* is a position in it (what the reference [join_sel] uses).  The
    engine names columns "table.column" and resolves a name against the output
    schema of a plan node (Schema.GetColIndex); the model names a column by its
    global position and gives every plan node its list of output columns
    ([jcols]): a row a node emits is aligned with that list, and [lookup] is
    GetColIndex + GetValue.  That is the column map by which a predicate written
    against the full combined row is evaluated on a partial combination.

    What the model takes as given:
    - the hash join's bucket is the set of build rows whose key has the same
      murmur hash [h] as the probe key (the hash is an INPUT of [run_join]; the
      engine hashes Value.Serialize(), which is injective on non-NULL values of one
      type, so [h] is an arbitrary function of the value); every pair is then
      re-checked with CompareEquals (IsValidCombination): collisions are harmless.
      Two keys that CompareEquals calls equal and that serialise differently are
      float32 +0.0 / -0.0: HashValue hashes a float key equal to zero as +0.0
      ([canon_key]; /repo 47a18be).  [run_join_gen false] is the engine before that
      fix (the two zeros are paired only if their hashes collide), kept for the
      refutation in Props/C11.v; [run_join] = [run_join_gen true];
    - a WHERE conjunct comparing two columns of ONE table is part of that table's
      scan predicate (findBestScan's relatedOps; /repo e79176f): the leaf plan is
      Projection(Selection(scan, literal comparisons AND column comparisons)).
      The reference language (SqlRef.jpred) has column EQUALITY only, so the model
      covers same-table equalities [t.x = t.y] ([table_eqs]); Query.v's predicate
      language has no column-column comparison, so the model keeps the Query.v
      sub-plan for the literal comparisons and puts the column equalities into a
      Selection ABOVE the leaf's Projection ([leaf_select]).  The Projection keeps
      every column WHERE touches and both evaluate CompareEquals on the same values,
      so the two positions give the same rows; an index range scan that Query.v
      leaves bare (a single [=] on the indexed column) is re-checked by the
      engine's Selection with that [=], which holds for every row the scan returns;
    - Index.ScanKey(k) returns the entries whose key equals k in the reference
      order (C18 *_scankey; a NULL is stored under the zero value, see Query.v) in
      table order; PointScanWithIndexExecutor aborts the transaction when a fetched
      row's value is not CompareEquals to the key (a NULL row met under key zero):
      [point_scan] returns [None] and so does the whole statement;
    - IndexJoinExecutor's result cache (keyed by the Go value of the outer key) only
      saves repeated point scans of an unchanged table: not modelled;
    - which sub-plan and which join candidate the cost model picks at every step of
      the dynamic programme is not modelled: [join_candidates] is every plan that
      can come out for some statistics (a superset: each level uses every plan of
      the level below, not only the cheapest), and the theorems hold for all of them. *)
From Coq Require Import List NArith ZArith Bool Arith.
From SDB Require Import Base.Bytes Model.Codec Model.SqlRef Model.Query.
Import ListNotations.
Local Open Scope nat_scope.

(** * Global columns *)

Definition widths (schs : list schema) : list nat := map (@length (coltype * bool)) schs.

(** offset of table [i] in the combined row *)
Fixpoint offs (ws : list nat) (i : nat) : nat :=
  match i, ws with
  | S i', w :: ws' => w + offs ws' i'
  | _, _ => 0
  end.

Definition total (ws : list nat) : nat := fold_right Nat.add 0 ws.

(** table a global column belongs to ([length ws] when out of range) *)
Fixpoint table_of (ws : list nat) (c : nat) : nat :=
  match ws with
  | [] => 0
  | w :: ws' => if c <? w then 0 else S (table_of ws' (c - w))
  end.

Definition local_of (ws : list nat) (c : nat) : nat := c - offs ws (table_of ws c).

(** columns of table [i], as global columns, in schema order *)
Definition table_cols (ws : list nat) (i : nat) : list nat :=
  map (Nat.add (offs ws i)) (seq 0 (nth i ws 0)).

(** type of a global column *)
Definition gcol_type (schs : list schema) (c : nat) : coltype :=
  col_type (nth (table_of (widths schs) c) schs []) (local_of (widths schs) c).

(** * The WHERE tree (ON conditions are AND-ed to it by RewriteQueryInfo) *)

Fixpoint jpred_cols (w : jpred) : list nat :=
  match w with
  | JTrue => []
  | JColEq c1 c2 => [c1; c2]
  | JCmp c _ _ => [c]
  | JAnd a b => jpred_cols a ++ jpred_cols b
  end.

Definition has_col (cols : list nat) (c : nat) : bool := existsb (Nat.eqb c) cols.

(** TouchedColumns of WHERE and of the select list *)
Definition touched (w : jpred) (sl : list nat) (c : nat) : bool := has_col (jpred_cols w ++ sl) c.

(** findBestScans: projectTarget = the touched columns of the table in schema order *)
Definition touched_local (ws : list nat) (w : jpred) (sl : list nat) (i : nat) : list nat :=
  filter (fun c => touched w sl (offs ws i + c)) (seq 0 (nth i ws 0)).

(** What findBestScan sees of the WHERE tree for table [i]: the comparisons
    [column op literal] on its own columns (GetColIndex fails on the others and
    column = column comparisons are skipped), at their place in the AND-tree. *)
Fixpoint table_pred (ws : list nat) (i : nat) (w : jpred) : pred :=
  match w with
  | JAnd a b => PAnd (table_pred ws i a) (table_pred ws i b)
  | JCmp c o l => if Nat.eqb (table_of ws c) i then PCmp (local_of ws c) o l else PTrue
  | _ => PTrue
  end.

(** Every single-table plan findBestScan can return for table [i]. *)
Definition scan_candidates (schs : list schema) (w : jpred) (sl : list nat) (i : nat) : option (list plan) :=
  candidates (nth i schs []) (table_pred (widths schs) i w) (touched_local (widths schs) w sl i).

(** * Join plans *)

Inductive jplan :=
| JScan (i : nat) (pl : plan)                      (* sub-plan over table [i] *)
| JHash (l r : jplan) (lcol rcol : nat)            (* HashJoinPlanNode: [l] builds, [r] probes *)
| JIndex (l : jplan) (i : nat) (lcol rcol : nat)   (* IndexJoinPlanNode: point scans of table [i] *)
| JNest (l r : jplan)                              (* NestedLoopJoinPlanNode, no predicate *)
| JSelect (p : jplan) (e : jpred)                  (* SelectionPlanNode *)
| JProject (p : jplan) (cols : list nat).          (* ProjectionPlanNode *)

(** output schema of a Query.v plan over a table of [n] columns *)
Fixpoint plan_cols (n : nat) (pl : plan) : list nat :=
  match pl with
  | PSeqScan | PIndexRange _ _ _ _ => seq 0 n
  | PSeqScanPred _ out => out
  | PSelection ch _ => plan_cols n ch
  | PProjection _ cols => cols
  end.

(** OutputSchema (makeMergedOutputSchema: left columns then right columns; the
    index join appends the whole schema of the inner table) *)
Fixpoint jcols (ws : list nat) (p : jplan) : list nat :=
  match p with
  | JScan i pl => map (Nat.add (offs ws i)) (plan_cols (nth i ws 0) pl)
  | JHash l r _ _ | JNest l r => jcols ws l ++ jcols ws r
  | JIndex l i _ _ => jcols ws l ++ table_cols ws i
  | JSelect q _ => jcols ws q
  | JProject _ cols => cols
  end.

(** Schema.GetColIndex: first position of the name *)
Fixpoint pos (c : nat) (cols : list nat) : nat :=
  match cols with
  | [] => 0
  | x :: cols' => if Nat.eqb x c then 0 else S (pos c cols')
  end.

(** value of global column [c] in a row aligned with [cols] *)
Definition lookup (cols : list nat) (r : row) (c : nat) : value := nth (pos c cols) r VNull.

(** ProjectionExecutor.projects *)
Definition jproject (cols out : list nat) (r : row) : row := map (lookup cols r) out.

(** Expression.Evaluate of the attached Selection: Comparison -> Compare*,
    LogicalOp AND -> &&.  NULL = NULL is TRUE for CompareEquals (F-NULL-JOIN). *)
Fixpoint eng_jeval (cols : list nat) (r : row) (e : jpred) : bool :=
  match e with
  | JTrue => true
  | JColEq c1 c2 => cv_eq (lookup cols r c1) (lookup cols r c2)
  | JCmp c o l => cv_cmp o (lookup cols r c) l
  | JAnd a b => eng_jeval cols r a && eng_jeval cols r b
  end.

(** * Executors *)

(** HashJoinExecutor: build rows with a NULL key are not inserted, probe rows with
    a NULL key are skipped; for every probe row, the build rows of its bucket (in
    insertion order) that pass IsValidCombination. *)
(** hash.HashValue: a float key equal to zero is hashed as +0.0 ([cz]: with that fix) *)
Definition canon_key (cz : bool) (v : value) : value :=
  match v with
  | VFloat u => if cz && N.eqb u two31 then VFloat 0 else v
  | _ => v
  end.

Definition hash_join (cz : bool) (h : value -> N) (kl kr : row -> value) (L R : table) : table :=
  flat_map (fun rr =>
    if is_null (kr rr) then []
    else flat_map (fun lr =>
           if negb (is_null (kl lr)) && N.eqb (h (canon_key cz (kl lr))) (h (canon_key cz (kr rr)))
              && cv_eq (kl lr) (kr rr)
           then [lr ++ rr] else []) L) R.

(** PointScanWithIndexExecutor on the index of column [c] (type [ty]) with key [k] *)
Definition key_is (ty : coltype) (k v : value) : bool :=
  match vcmp (index_key ty v) k with Some Eq => true | _ => false end.

Definition point_scan (c : nat) (ty : coltype) (k : value) (t : table) : option table :=
  let hits := filter (fun r => key_is ty k (nth c r VNull)) t in
  if existsb (fun r => negb (cv_eq (nth c r VNull) k)) hits then None else Some hits.

(** IndexJoinExecutor.Init: outer rows with a NULL key are skipped *)
Fixpoint index_join (probe : value -> option table) (key : row -> value) (L : table) : option table :=
  match L with
  | [] => Some []
  | lr :: L' =>
      if is_null (key lr) then index_join probe key L'
      else match probe (key lr) with
           | None => None
           | Some hits =>
               match index_join probe key L' with
               | None => None
               | Some rest => Some (map (fun r => lr ++ r) hits ++ rest)
               end
           end
  end.

(** [None]: the statement aborts (a sub-plan or a point scan met a NULL index entry). *)
Fixpoint run_join_gen (cz : bool) (h : value -> N) (schs : list schema) (ts : list table) (p : jplan) : option table :=
  let ws := widths schs in
  match p with
  | JScan i pl => run_plan pl (nth i ts [])
  | JHash l r lc rc =>
      match run_join_gen cz h schs ts l, run_join_gen cz h schs ts r with
      | Some L, Some R => Some (hash_join cz h (fun x => lookup (jcols ws l) x lc) (fun x => lookup (jcols ws r) x rc) L R)
      | _, _ => None
      end
  | JIndex l i lc rc =>
      match run_join_gen cz h schs ts l with
      | Some L =>
          let c := local_of ws rc in
          index_join (fun k => point_scan c (col_type (nth i schs []) c) k (nth i ts []))
                     (fun x => lookup (jcols ws l) x lc) L
      | None => None
      end
  | JNest l r =>
      match run_join_gen cz h schs ts l, run_join_gen cz h schs ts r with
      | Some L, Some R => Some (cross L R)
      | _, _ => None
      end
  | JSelect q e =>
      match run_join_gen cz h schs ts q with
      | Some rows => Some (filter (fun r => eng_jeval (jcols ws q) r e) rows)
      | None => None
      end
  | JProject q cols =>
      match run_join_gen cz h schs ts q with
      | Some rows => Some (map (jproject (jcols ws q) cols) rows)
      | None => None
      end
  end.

(** the engine as it is *)
Definition run_join (h : value -> N) (schs : list schema) (ts : list table) (p : jplan) : option table :=
  run_join_gen true h schs ts p.

(** * findBestJoinInner *)

(** The equalities [column = column] of the AND-tree in the order the stack
    machine pops them (Left pushed first, Right popped first). *)
Fixpoint jeqs (w : jpred) : list (nat * nat) :=
  match w with
  | JAnd a b => jeqs b ++ jeqs a
  | JColEq c1 c2 => [(c1, c2)]
  | _ => []
  end.

(** One equality against the two output schemas: the entry of [equals] (oriented
    left column, right column) and of [relatedExp] (the comparison as written). *)
Definition link (lcols rcols : list nat) (e : nat * nat) : option ((nat * nat) * jpred) :=
  let (c1, c2) := e in
  if has_col lcols c1 && has_col rcols c2 then Some ((c1, c2), JColEq c1 c2)
  else if has_col rcols c1 && has_col lcols c2 then Some ((c2, c1), JColEq c1 c2)
  else None.

Definition links (lcols rcols : list nat) (w : jpred) : list ((nat * nat) * jpred) :=
  opt_list (map (link lcols rcols) (jeqs w)).

(** finalSelection: the last related comparison AND-ed with the others in order *)
Definition final_selection (rel : list jpred) : option jpred :=
  match rel with
  | [] => None
  | _ => Some (fold_left JAnd (removelast rel) (last rel JTrue))
  end.

(** isWholeTableScan: a sequential scan without predicate under projections *)
Fixpoint is_whole (pl : plan) : bool :=
  match pl with
  | PSeqScan => true
  | PProjection ch _ => is_whole ch
  | _ => false
  end.

(** the right plan reads one whole table: (GetTableOID() != MaxUint32 || Projection) && isWholeTableScan *)
Definition whole_scan (p : jplan) : option nat :=
  match p with
  | JScan i pl => if is_whole pl then Some i else None
  | _ => None
  end.

Definition is_nest (p : jplan) : bool := match p with JNest _ _ => true | _ => false end.

(** Every plan findBestJoinInner compares by cost for the pair (left, right). *)
Definition inner (schs : list schema) (w : jpred) (l r : jplan) : list jplan :=
  let ws := widths schs in
  let lk := links (jcols ws l) (jcols ws r) w in
  let base :=
    match lk with
    | [((cl, cr), _)] =>
        [JHash l r cl cr; JHash r l cr cl] ++
        match whole_scan r with
        | Some i => if col_indexed (nth i schs []) (local_of ws cr) then [JIndex l i cl cr] else []
        | None => []
        end
    | _ => [JNest l r]
    end in
  match final_selection (map snd lk) with
  | None => base
  | Some e =>
      (* a NestedLoopJoin candidate is replaced by its Selection, the others get a Selection-wrapped copy *)
      map (fun c => if is_nest c then JSelect c e else c) base ++
      flat_map (fun c => if is_nest c then [] else [JSelect c e]) base
  end.

(** * findBestJoin *)

(** Both orders of every pair of plans of two disjoint table sets. *)
Definition pair_up (schs : list schema) (w : jpred) (A B : list jplan) : list jplan :=
  flat_map (fun a => flat_map (fun b => inner schs w a b ++ inner schs w b a) B) A.

Fixpoint list_nat_eqb (a b : list nat) : bool :=
  match a, b with
  | [], [] => true
  | x :: a', y :: b' => Nat.eqb x y && list_nat_eqb a' b'
  | _, _ => false
  end.

(** final Projection when the columns differ from the select list in count or order *)
Definition finish (ws : list nat) (sl : list nat) (p : jplan) : jplan :=
  if list_nat_eqb (jcols ws p) sl then p else JProject p sl.

Definition opt_map2 {A B C} (f : A -> B -> C) (a : option A) (b : option B) : option C :=
  match a, b with Some x, Some y => Some (f x y) | _, _ => None end.

(** The equalities [t.x = t.y] between two columns of table [i] (relatedOps of its
    findBestScan), in the order the conjunct walk meets them. *)
Definition table_eqs (ws : list nat) (i : nat) (w : jpred) : list (nat * nat) :=
  filter (fun e => Nat.eqb (table_of ws (fst e)) i && Nat.eqb (table_of ws (snd e)) i) (jeqs w).

(** scanExp over them: first AND second AND ... (left-nested), nil if none *)
Definition scan_conj (l : list jpred) : option jpred :=
  match l with
  | [] => None
  | x :: rest => Some (fold_left JAnd rest x)
  end.

(** the leaf's Selection on its same-table equalities (see the header for its position) *)
Definition leaf_select (ws : list nat) (i : nat) (w : jpred) (q : jplan) : jplan :=
  match scan_conj (map (fun e => JColEq (fst e) (snd e)) (table_eqs ws i w)) with
  | Some e => JSelect q e
  | None => q
  end.

Definition leaves (schs : list schema) (w : jpred) (sl : list nat) (i : nat) : option (list jplan) :=
  option_map (map (fun pl => leaf_select (widths schs) i w (JScan i pl))) (scan_candidates schs w sl i).

(** Every plan the dynamic programme can return for two / three tables
    ([None]: more tables than modelled, or the panic on OR of findBestScan, which a
    [jpred] cannot express). *)
Definition join_candidates (schs : list schema) (w : jpred) (sl : list nat) : option (list jplan) :=
  let ws := widths schs in
  match schs with
  | [_; _] =>
      match leaves schs w sl 0, leaves schs w sl 1 with
      | Some S0, Some S1 => Some (map (finish ws sl) (pair_up schs w S0 S1))
      | _, _ => None
      end
  | [_; _; _] =>
      match leaves schs w sl 0, leaves schs w sl 1, leaves schs w sl 2 with
      | Some S0, Some S1, Some S2 =>
          Some (map (finish ws sl)
                  (pair_up schs w (pair_up schs w S0 S1) S2 ++
                   pair_up schs w (pair_up schs w S0 S2) S1 ++
                   pair_up schs w (pair_up schs w S1 S2) S0))
      | _, _, _ => None
      end
  | _ => None
  end.

(** Whole statement with the picks of the cost model as an input [k]. *)
Definition run_join_select (h : value -> N) (schs : list schema) (w : jpred) (sl : list nat) (k : nat)
    (ts : list table) : option table :=
  match join_candidates schs w sl with
  | Some l => match nth_error l k with Some p => run_join h schs ts p | None => None end
  | None => None
  end.

(** * Plan shapes (what the harness command [plan] prints, sub-plan details erased) *)

Inductive jshape :=
| ShScan | ShHash (l r : jshape) | ShIndex (l : jshape) | ShNest (l r : jshape)
| ShSelect (s : jshape) | ShProject (s : jshape).

(** a plan node over one table only (no join below it) prints as a scan *)
Fixpoint has_join (p : jplan) : bool :=
  match p with
  | JScan _ _ => false
  | JHash _ _ _ _ | JIndex _ _ _ _ | JNest _ _ => true
  | JSelect q _ | JProject q _ => has_join q
  end.

Fixpoint jshape_of (p : jplan) : jshape :=
  match p with
  | JScan _ _ => ShScan
  | JHash l r _ _ => ShHash (jshape_of l) (jshape_of r)
  | JIndex l _ _ _ => ShIndex (jshape_of l)
  | JNest l r => ShNest (jshape_of l) (jshape_of r)
  | JSelect q _ => if has_join q then ShSelect (jshape_of q) else ShScan
  | JProject q _ => if has_join q then ShProject (jshape_of q) else ShScan
  end.

(** the tables in the order the plan joins them, and the join algorithms it uses *)
Fixpoint leaf_order (p : jplan) : list nat :=
  match p with
  | JScan i _ => [i]
  | JHash l r _ _ | JNest l r => leaf_order l ++ leaf_order r
  | JIndex l i _ _ => leaf_order l ++ [i]
  | JSelect q _ | JProject q _ => leaf_order q
  end.

Inductive jalg := AHash | AIndex | ANest.

Fixpoint algs (p : jplan) : list jalg :=
  match p with
  | JScan _ _ => []
  | JHash l r _ _ => AHash :: algs l ++ algs r
  | JIndex l _ _ _ => AIndex :: algs l
  | JNest l r => ANest :: algs l ++ algs r
  | JSelect q _ | JProject q _ => algs q
  end.

(** * Signatures of the known findings on a concrete statement *)

(** join-key columns of the statement *)
Definition key_cols (w : jpred) : list nat := flat_map (fun e => [fst e; snd e]) (jeqs w).

Definition col_has (schs : list schema) (ts : list table) (f : value -> bool) (c : nat) : bool :=
  existsb (fun r => f (nth (local_of (widths schs) c) r VNull)) (nth (table_of (widths schs) c) ts []).

(** F-NULL-JOIN: some column of an equality [column = column] (between two tables or inside one) holds a NULL *)
Definition has_null_key (schs : list schema) (ts : list table) (w : jpred) : bool :=
  existsb (col_has schs ts is_null) (key_cols w).

(** some join-key column holds the float -0.0 (bit pattern 0x80000000): mattered before /repo 47a18be *)
Definition is_neg_zero (v : value) : bool := match v with VFloat u => N.eqb u two31 | _ => false end.
Definition has_neg_zero_key (schs : list schema) (ts : list table) (w : jpred) : bool :=
  existsb (col_has schs ts is_neg_zero) (key_cols w).

(** * The side conditions of the C11 theorems, decided (soundness: Proofs/JoinProofs.v) *)

Definition coltype_eqb (a b : coltype) : bool :=
  match a, b with TInt, TInt | TFloat, TFloat | TStr, TStr => true | _, _ => false end.

Definition val_okb (ty : coltype) (v : value) : bool :=
  match v with
  | VNull => true
  | VInt z => coltype_eqb ty TInt && (min_int32 <=? z)%Z && (z <=? max_int32)%Z
  | VFloat u => coltype_eqb ty TFloat && negb (f_is_nan u)
  | VStr _ => coltype_eqb ty TStr
  end.

Definition row_okb (sch : schema) (r : row) : bool :=
  Nat.eqb (length r) (length sch) &&
  forallb (fun c => val_okb (col_type sch c) (nth c r VNull)) (seq 0 (length sch)).

Definition tables_wfb (schs : list schema) (ts : list table) : bool :=
  Nat.eqb (length ts) (length schs) &&
  forallb (fun i => forallb (row_okb (nth i schs [])) (nth i ts [])) (seq 0 (length schs)).

Definition lits_okb (sch : schema) (p : pred) : bool :=
  forallb (fun x => negb (is_null (c3lit x)) && val_okb (col_type sch (c3col x)) (c3lit x)) (cmps p).

Definition filters_okb (schs : list schema) (ts : list table) (w : jpred) : bool :=
  forallb (fun i => lits_okb (nth i schs []) (table_pred (widths schs) i w) &&
                    negb (stmt_hits_bad (table_pred (widths schs) i w) (nth i ts [])))
          (seq 0 (length schs)).

Definition indexed_okb (schs : list schema) (ts : list table) : bool :=
  forallb (fun i => negb (has_null_in_indexed_col (nth i schs []) (nth i ts []))) (seq 0 (length schs)).

Definition scopedb (schs : list schema) (w : jpred) (sl : list nat) : bool :=
  forallb (fun c => c <? total (widths schs)) (jpred_cols w ++ sl).

Definition conds_okb (schs : list schema) (w : jpred) : bool :=
  forallb (fun e => coltype_eqb (gcol_type schs (fst e)) (gcol_type schs (snd e))) (jeqs w).

(** all side conditions of [every_candidate_equiv], executable *)
Definition join_hyps_ok (schs : list schema) (ts : list table) (w : jpred) (sl : list nat) : bool :=
  tables_wfb schs ts && scopedb schs w sl && conds_okb schs w && filters_okb schs ts w &&
  indexed_okb schs ts && negb (has_null_key schs ts w).

