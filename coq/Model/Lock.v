(** M3 — executable model of the row lock manager.
    Mirrors lib/storage/access/lock_manager.go (LockShared, LockExclusive,
    LockUpgrade, Unlock) together with the lock sets kept in
    lib/storage/access/transaction.go and TransactionManager.releaseLocks.
    Row ids and transaction ids are numbers.  Model only: no proofs here. *)
From Coq Require Import List NArith Bool.
From SDB Require Import Base.Assoc.
Import ListNotations.
Open Scope N_scope.

Record lstate := mkL {
  sh   : list (N * list N);   (* sharedLockTable    : rid -> holders      *)
  ex   : list (N * N);        (* exclusiveLockTable : rid -> holder       *)
  sset : list (N * list N);   (* txn -> its sharedLockSet                 *)
  xset : list (N * list N)    (* txn -> its exclusiveLockSet              *)
}.

Definition linit : lstate := mkL [] [] [] [].

Inductive lop :=
| LockS (t r : N)
| LockX (t r : N)
| Upgrade (t r : N)
| UnlockAll (t : N).

Inductive lout := Granted | Denied | LPanic | Done.

Definition grantS (s : lstate) (t r : N) : lstate :=
  mkL (aset (sh s) r (agetl (sh s) r ++ [t])) (ex s)
      (aset (sset s) t (agetl (sset s) t ++ [r])) (xset s).

Definition grantX (s : lstate) (t r : N) : lstate :=
  mkL (sh s) (aset (ex s) r t) (sset s)
      (aset (xset s) t (agetl (xset s) t ++ [r])).

Definition lock_shared (s : lstate) (t r : N) : lstate * lout :=
  match aget (ex s) r with
  | Some o => if o =? t then (s, Granted) else (s, Denied)
  | None =>
      if memN t (agetl (sh s) r) then (s, Granted)
      else (grantS s t r, Granted)
  end.

Definition only_me (l : list N) (t : N) : bool :=
  match l with
  | [] => true
  | [x] => x =? t
  | _ => false
  end.

Definition lock_exclusive (s : lstate) (t r : N) : lstate * lout :=
  match aget (ex s) r with
  | Some o => if o =? t then (s, Granted) else (s, Denied)
  | None =>
      if only_me (agetl (sh s) r) t then (grantX s t r, Granted)
      else (s, Denied)
  end.

Definition lock_upgrade (s : lstate) (t r : N) : lstate * lout :=
  if memN r (agetl (sset s) t) then
    match aget (ex s) r with
    | Some o => if o =? t then (s, Granted) else (s, Denied)
    | None =>
        if Nat.eqb (length (agetl (sh s) r)) 1 then (grantX s t r, Granted)
        else (s, Denied)
    end
  else (s, LPanic).

(** One iteration of the loop in [LockManager.Unlock]. *)
Definition unlock1 (t : N) (tabs : list (N * list N) * list (N * N)) (r : N) :=
  let '(shm, exm) := tabs in
  let exm' := match aget exm r with
              | Some o => if o =? t then adel exm r else exm
              | None => exm
              end in
  let shm' := match aget shm r with
              | Some l => if memN t l then aset shm r (remove1 t l) else shm
              | None => shm
              end in
  (shm', exm').

(** releaseLocks: Unlock (exclusive set ++ shared set); the transaction ends,
    so its lock sets disappear with it. *)
Definition unlock_all (s : lstate) (t : N) : lstate :=
  let rids := agetl (xset s) t ++ agetl (sset s) t in
  let '(shm, exm) := fold_left (unlock1 t) rids (sh s, ex s) in
  mkL shm exm (adel (sset s) t) (adel (xset s) t).

Definition lstep (s : lstate) (o : lop) : lstate * lout :=
  match o with
  | LockS t r => lock_shared s t r
  | LockX t r => lock_exclusive s t r
  | Upgrade t r => lock_upgrade s t r
  | UnlockAll t => (unlock_all s t, Done)
  end.

Definition lrun (ops : list lop) (s : lstate) : lstate :=
  fold_left (fun s o => fst (lstep s o)) ops s.

(** Observations *)
Definition holdsS (s : lstate) (t r : N) : Prop := In t (agetl (sh s) r).
Definition holdsX (s : lstate) (t r : N) : Prop := aget (ex s) r = Some t.
Definition holds (s : lstate) (t r : N) : Prop := holdsS s t r \/ holdsX s t r.
Definition holdsSb (s : lstate) (t r : N) : bool := memN t (agetl (sh s) r).
Definition holdsXb (s : lstate) (t r : N) : bool :=
  match aget (ex s) r with Some o => o =? t | None => false end.
