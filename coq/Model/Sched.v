(** M4 — executable model of transaction scheduling under STRICT two-phase row
    locking with NO-WAIT conflict handling (a denied lock request aborts the
    requester).  Mirrors the way the executors use the lock manager
    (lib/storage/access/table_heap.go, table_page.go: LockShared on read,
    LockUpgrade / LockExclusive on write, abort on a denied request) and
    TransactionManager.Commit / Abort (write-set rollback in reverse order,
    then releaseLocks).  The lock manager is the model of Model/Lock.v.
    Rows, transactions and values are numbers.  Model only: no proofs here. *)
From Coq Require Import List NArith Bool.
From SDB Require Import Base.Assoc Model.Lock.
Import ListNotations.
Open Scope N_scope.

Inductive sop :=
| SRead (t x : N)
| SWrite (t x v : N)
| SCommit (t : N)
| SAbort (t : N).

Inductive event :=
| EvRead (t x v : N)
| EvWrite (t x v : N)
| EvCommit (t : N)
| EvAbort (t : N).

Definition op_txn (o : sop) : N :=
  match o with SRead t _ | SWrite t _ _ | SCommit t | SAbort t => t end.

Definition ev_txn (e : event) : N :=
  match e with EvRead t _ _ | EvWrite t _ _ | EvCommit t | EvAbort t => t end.

(** Row store: row -> current value, updated in place; an absent row reads 0. *)
Definition sget (st : list (N * N)) (x : N) : N :=
  match aget st x with Some v => v | None => 0 end.

Record sstate := mkS {
  locks : lstate;                    (* the lock manager                        *)
  store : list (N * N);              (* committed-or-dirty row values           *)
  undo  : list (N * list (N * N));   (* txn -> (row, before-image), newest first *)
  fin   : list N                     (* committed or aborted transactions       *)
}.

Definition sinit (st0 : list (N * N)) : sstate := mkS linit st0 [] [].

(** Abort: restore the before-images, newest first (so the value before the
    transaction's FIRST write of a row is the one that stays). *)
Definition rollback (st : list (N * N)) (u : list (N * N)) : list (N * N) :=
  fold_left (fun st p => aset st (fst p) (snd p)) u st.

Definition abort_txn (s : sstate) (t : N) : sstate * list event :=
  (mkS (fst (lstep (locks s) (UnlockAll t)))
       (rollback (store s) (agetl (undo s) t))
       (adel (undo s) t) (t :: fin s),
   [EvAbort t]).

Definition commit_txn (s : sstate) (t : N) : sstate * list event :=
  (mkS (fst (lstep (locks s) (UnlockAll t))) (store s) (adel (undo s) t) (t :: fin s),
   [EvCommit t]).

Definition with_locks (s : sstate) (l : lstate) : sstate :=
  mkS l (store s) (undo s) (fin s).

Definition do_read (s : sstate) (t x : N) : sstate * list event :=
  (s, [EvRead t x (sget (store s) x)]).

Definition do_write (s : sstate) (t x v : N) : sstate * list event :=
  (mkS (locks s) (aset (store s) x v)
       (aset (undo s) t ((x, sget (store s) x) :: agetl (undo s) t)) (fin s),
   [EvWrite t x v]).

(** A lock request: granted -> continue; anything else -> the requester aborts
    (a denied request leaves the lock tables unchanged). *)
Definition request (s : sstate) (t : N) (o : lop)
    (k : sstate -> sstate * list event) : sstate * list event :=
  match lstep (locks s) o with
  | (l', Granted) => k (with_locks s l')
  | _ => abort_txn s t
  end.

Definition sstep (s : sstate) (o : sop) : sstate * list event :=
  if memN (op_txn o) (fin s) then (s, [])
  else match o with
  | SRead t x =>
      if holdsSb (locks s) t x || holdsXb (locks s) t x then do_read s t x
      else request s t (LockS t x) (fun s' => do_read s' t x)
  | SWrite t x v =>
      if holdsXb (locks s) t x then do_write s t x v
      else if holdsSb (locks s) t x
           then request s t (Upgrade t x) (fun s' => do_write s' t x v)
           else request s t (LockX t x) (fun s' => do_write s' t x v)
  | SCommit t => commit_txn s t
  | SAbort t => abort_txn s t
  end.

Definition srun_from (s : sstate) (ops : list sop) : sstate * list event :=
  fold_left (fun acc o => let r := sstep (fst acc) o in (fst r, snd acc ++ snd r))
            ops (s, []).

Definition srun (st0 : list (N * N)) (ops : list sop) : sstate * list event :=
  srun_from (sinit st0) ops.

(** * Serial re-execution (the reference the real trace is compared with) *)

(** The events of one transaction, in program order. *)
Definition proj (t : N) (tr : list event) : list event :=
  filter (fun e => ev_txn e =? t) tr.

(** Committed transactions in the order of their commit events. *)
Definition committed (tr : list event) : list N :=
  flat_map (fun e => match e with EvCommit t => [t] | _ => [] end) tr.

(** Re-executing one recorded operation on a store: a write is applied, a read
    is re-read (the recorded value is ignored). *)
Definition ev_apply (st : list (N * N)) (e : event) : list (N * N) :=
  match e with EvWrite _ x v => aset st x v | _ => st end.

Definition ev_see (st : list (N * N)) (e : event) : event :=
  match e with EvRead t x _ => EvRead t x (sget st x) | _ => e end.

Definition rstore (st : list (N * N)) (p : list event) : list (N * N) :=
  fold_left ev_apply p st.

Fixpoint rout (st : list (N * N)) (p : list event) : list event :=
  match p with
  | [] => []
  | e :: r => ev_see st e :: rout (ev_apply st e) r
  end.

(** Serial execution of a list of programs, one after the other. *)
Definition sstore (st : list (N * N)) (ps : list (list event)) : list (N * N) :=
  fold_left rstore ps st.

Fixpoint sout (st : list (N * N)) (ps : list (list event)) : list event :=
  match ps with
  | [] => []
  | p :: r => rout st p ++ sout (rstore st p) r
  end.

(** The committed transactions' programs, in commit order. *)
Definition progs (tr : list event) : list (list event) :=
  map (fun t => proj t tr) (committed tr).
