(** M4 — executable row-level model of the storage ENGINE: table heap rows,
    transaction write sets, index maintenance timing, commit / abort processing
    and row locks (properties C03, C07, C04).  Model only: no proofs here.

    Mirrors
      lib/storage/access/table_heap.go   InsertTuple / UpdateTuple / MarkDelete /
                                         ApplyDelete / RollbackDelete / GetTuple
      lib/storage/access/table_page.go   the lock calls at the head of MarkDelete,
                                         UpdateTuple, GetTuple, InsertTuple and the
                                         checks that set the transaction ABORTED
      lib/storage/access/transaction.go  WriteRecord (wtype, rid1, rid2, tuple1, tuple2)
      lib/storage/access/transaction_manager.go  Commit / Abort (write set walked
                                         backwards) + releaseLocks
      lib/execution/executors/{insert,delete,update}_executor.go  index maintenance
      lib/storage/index/skip_list_index.go  InsertEntry / DeleteEntry / UpdateEntry

    ONE table.  Row ids and transaction ids are numbers; a row is [list value].
    The row id chosen by a heap insert (and by the insert half of a relocating
    update) is an INPUT taken from the implementation and checked for legality
    (the slot must be free and its X lock grantable: TablePage.InsertTuple skips
    a page whose free slot it cannot lock).

    Index = multiset of (key value, rid) entries, kept as a list.  UpdateEntry is
    "remove one occurrence of the old pair, then add the new pair" exactly as
    SkipListIndex.UpdateEntry (deleteEntryInner + insertEntryInner); removing an
    absent pair is a no-op (Remove only reports failure).

    Modelling notes.
    - OpUpdate carries the complete new row, not the SET column list.  The
      executor calls UpdateEntry for every index whose column is in the SET list
      (or for all when the row is relocated); for a column whose value does not
      change that call removes and re-adds the same pair.  The model performs
      the move only when the value changes or the row is relocated - the same
      multiset (the list order of an index is not observable: scans are ordered
      by the skip list, the driver prints entries sorted).
    - Key equality is structural ([veqb]); Abort's test uses Value.CompareEquals.
    - The heap and the index updates of one write record are independent data, so
      Commit / Abort fold over the write set once for the rows and once for the
      indexes (same result as the single loop of the code).
    - A read of a free slot distinguishes only "X-locked by the reader"
      (ErrSelfDeletedCase = skipped) from "not" (transaction ABORTED); the
      [slot >= tupleCount] case of GetTuple (always ABORTED) is not separated. *)
From Coq Require Import List NArith ZArith Bool.
From SDB Require Import Base.Assoc Model.Lock Model.SqlRef.
Import ListNotations.
Open Scope N_scope.

(* ------------------------------------------------------------------ *)
(** * Values, index entries *)

Fixpoint lneqb (a b : list N) : bool :=
  match a, b with
  | [], [] => true
  | x :: a', y :: b' => (x =? y) && lneqb a' b'
  | _, _ => false
  end.

Definition veqb (a b : value) : bool :=
  match a, b with
  | VNull, VNull => true
  | VInt x, VInt y => Z.eqb x y
  | VFloat u, VFloat v => u =? v
  | VStr s, VStr t => lneqb s t
  | _, _ => false
  end.

Definition ientry := (value * N)%type.

Definition eeqb (a b : ientry) : bool := veqb (fst a) (fst b) && (snd a =? snd b).

(** Remove ONE occurrence (SkipList.Remove of the (key,rid) composite). *)
Fixpoint rem1e (x : ientry) (l : list ientry) : list ientry :=
  match l with
  | [] => []
  | y :: l' => if eeqb y x then l' else y :: rem1e x l'
  end.

(** Column [c] of a row (out of range = NULL). *)
Definition ecol (c : nat) (r : row) : value := nth c r VNull.

(* ------------------------------------------------------------------ *)
(** * State *)

(** WriteRecord: INSERT rid1 tuple1 | DELETE rid1 tuple1 |
    UPDATE rid1 rid2 tuple1(old) tuple2(new); rid1 = rid2 for an in-place update. *)
Inductive wrec :=
| WIns (r : N) (tp : row)
| WDel (r : N) (tp : row)
| WUpd (r1 r2 : N) (old new : row).

Record estate := mkE {
  rows  : list (N * (row * bool));      (* rid -> (row, delete-marked)          *)
  idx   : list (nat * list ientry);     (* indexed column -> entries (multiset) *)
  wsets : list (N * list wrec);         (* txn -> write set, oldest first       *)
  lk    : lstate                        (* row lock manager                     *)
}.

Definition einit (ic : list nat) : estate :=
  mkE [] (map (fun c => (c, [])) ic) [] linit.

Definition icols (s : estate) : list nat := map fst (idx s).

(* ------------------------------------------------------------------ *)
(** * Heap primitives *)

(** Write / free one slot. *)
Definition rput (m : list (N * (row * bool))) (r : N) (v : option (row * bool)) :=
  match v with Some x => aset m r x | None => adel m r end.

Definition omark (b : bool) (v : option (row * bool)) : option (row * bool) :=
  match v with Some (x, _) => Some (x, b) | None => None end.

Definition oset (x : row) (v : option (row * bool)) : option (row * bool) :=
  match v with Some (_, m) => Some (x, m) | None => None end.

(* ------------------------------------------------------------------ *)
(** * Index primitives (applied to every index of the table) *)

Definition imap (f : nat -> list ientry -> list ientry) (ix : list (nat * list ientry)) :=
  map (fun ce => (fst ce, f (fst ce) (snd ce))) ix.

(** InsertEntry(tp, r) on every index. *)
Definition ins_entries (tp : row) (r : N) :=
  imap (fun c es => es ++ [(ecol c tp, r)]).

(** DeleteEntry(tp, r) on every index. *)
Definition del_entries (tp : row) (r : N) :=
  imap (fun c es => rem1e (ecol c tp, r) es).

(** UpdateEntry(old, r1, new, r2) on every index whose key value differs
    between the two tuples, and on all of them when r1 <> r2. *)
Definition upd_entries (old : row) (r1 : N) (new : row) (r2 : N) :=
  imap (fun c es =>
          if negb (veqb (ecol c old) (ecol c new)) || negb (r1 =? r2)
          then rem1e (ecol c old, r1) es ++ [(ecol c new, r2)]
          else es).

(* ------------------------------------------------------------------ *)
(** * Effect of one write record at execution, at Abort and at Commit *)

(** Execution.  INSERT: the row appears, every index gets its entry.
    DELETE: only the mark (index entries stay until commit).
    UPDATE in place: new content, entries moved for changed key values.
    UPDATE relocated: MarkDelete(rid1) + InsertTuple at rid2, all entries moved. *)
Definition do_rows (m : list (N * (row * bool))) (w : wrec) :=
  match w with
  | WIns r tp => rput m r (Some (tp, false))
  | WDel r _ => rput m r (omark true (aget m r))
  | WUpd r1 r2 old new =>
      if r1 =? r2 then rput m r1 (Some (new, false))
      else rput (rput m r1 (omark true (aget m r1))) r2 (Some (new, false))
  end.

Definition do_idx (ix : list (nat * list ientry)) (w : wrec) :=
  match w with
  | WIns r tp => ins_entries tp r ix
  | WDel _ _ => ix
  | WUpd r1 r2 old new => upd_entries old r1 new r2 ix
  end.

(** Abort.  DELETE -> RollbackDelete(rid1).  INSERT -> ApplyDelete(rid1) +
    DeleteEntry(tuple1, rid1).  UPDATE relocated -> ApplyDelete(rid2) then
    RollbackDelete(rid1); in place -> the old tuple is written back; then
    UpdateEntry(tuple2, rid2, tuple1, rid1) where the key differs or rid1 <> rid2. *)
Definition undo_rows (m : list (N * (row * bool))) (w : wrec) :=
  match w with
  | WDel r _ => rput m r (omark false (aget m r))
  | WIns r _ => rput m r None
  | WUpd r1 r2 old new =>
      if r1 =? r2 then rput m r1 (oset old (aget m r1))
      else let m' := rput m r2 None in rput m' r1 (omark false (aget m' r1))
  end.

Definition undo_idx (ix : list (nat * list ientry)) (w : wrec) :=
  match w with
  | WDel _ _ => ix
  | WIns r tp => del_entries tp r ix
  | WUpd r1 r2 old new => upd_entries new r2 old r1 ix
  end.

(** Commit.  DELETE -> ApplyDelete(rid1) + DeleteEntry(tuple1, rid1) on every
    index.  UPDATE relocated -> ApplyDelete(rid1).  Nothing else. *)
Definition commit_rows (m : list (N * (row * bool))) (w : wrec) :=
  match w with
  | WDel r _ => rput m r None
  | WIns _ _ => m
  | WUpd r1 r2 _ _ => if r1 =? r2 then m else rput m r1 None
  end.

Definition commit_idx (ix : list (nat * list ientry)) (w : wrec) :=
  match w with
  | WDel r tp => del_entries tp r ix
  | _ => ix
  end.

(* ------------------------------------------------------------------ *)
(** * Lock acquisition as the table page does it *)

Definition lgranted (o : lout) : bool :=
  match o with Granted => true | _ => false end.

(** MarkDelete / UpdateTuple: upgrade when S-locked, nothing when already
    X-locked, else LockExclusive. *)
Definition wlock (l : lstate) (t r : N) : lstate * lout :=
  if memN r (agetl (sset l) t) then lstep l (Upgrade t r)
  else if memN r (agetl (xset l) t) then (l, Granted)
  else lstep l (LockX t r).

(** GetTuple: LockShared unless the transaction already holds S or X. *)
Definition rlock (l : lstate) (t r : N) : lstate * lout :=
  if memN r (agetl (sset l) t) || memN r (agetl (xset l) t) then (l, Granted)
  else lstep l (LockS t r).

(* ------------------------------------------------------------------ *)
(** * Transaction end *)

Definition with_lk (s : estate) (l : lstate) : estate :=
  mkE (rows s) (idx s) (wsets s) l.

(** TransactionManager.Abort: write set backwards, then releaseLocks. *)
Definition eabort_txn (s : estate) (t : N) : estate :=
  let ws := rev (agetl (wsets s) t) in
  mkE (fold_left undo_rows ws (rows s)) (fold_left undo_idx ws (idx s))
      (adel (wsets s) t) (unlock_all (lk s) t).

(** TransactionManager.Commit: write set backwards, then releaseLocks. *)
Definition ecommit_txn (s : estate) (t : N) : estate :=
  let ws := rev (agetl (wsets s) t) in
  mkE (fold_left commit_rows ws (rows s)) (fold_left commit_idx ws (idx s))
      (adel (wsets s) t) (unlock_all (lk s) t).

Definition wpush (s : estate) (t : N) (w : wrec) : list (N * list wrec) :=
  aset (wsets s) t (agetl (wsets s) t ++ [w]).

(* ------------------------------------------------------------------ *)
(** * Operations *)

Inductive eop :=
| OpInsert (t rid : N) (tp : row)
| OpDelete (t rid : N)
| OpUpdate (t rid : N) (new : row)                (* in place            *)
| OpUpdateMove (t rid newrid : N) (new : row)     (* relocation          *)
| OpRead (t rid : N)
| OpCommit (t : N)
| OpAbort (t : N).

Inductive eout :=
| EOk
| EAborted               (* the transaction was aborted (lock denied / row gone) *)
| ERow (tp : row)
| ESkipped               (* the reader's own delete-marked row (ErrSelfDeletedCase) *)
| EIllegal.              (* the input rid cannot have come from the implementation  *)

(** The data operation succeeded: row change, index maintenance, write record. *)
Definition eexec (s : estate) (t : N) (l : lstate) (w : wrec) : estate * eout :=
  (mkE (do_rows (rows s) w) (do_idx (idx s) w) (wpush s t w) l, EOk).

(** The transaction was set ABORTED: Abort processing with the locks as they are. *)
Definition efail (s : estate) (l : lstate) (t : N) : estate * eout :=
  (eabort_txn (with_lk s l) t, EAborted).

Definition estep (s : estate) (o : eop) : estate * eout :=
  match o with
  | OpInsert t rid tp =>
      match aget (rows s) rid with
      | Some _ => (s, EIllegal)
      | None =>
          let '(l, g) := lstep (lk s) (LockX t rid) in
          if lgranted g then eexec s t l (WIns rid tp) else (s, EIllegal)
      end
  | OpDelete t rid =>
      let '(l, g) := wlock (lk s) t rid in
      if lgranted g then
        match aget (rows s) rid with
        | Some (tp, false) => eexec s t l (WDel rid tp)
        | _ => efail s l t
        end
      else efail s l t
  | OpUpdate t rid new =>
      let '(l, g) := wlock (lk s) t rid in
      if lgranted g then
        match aget (rows s) rid with
        | Some (old, false) => eexec s t l (WUpd rid rid old new)
        | _ => efail s l t
        end
      else efail s l t
  | OpUpdateMove t rid nrid new =>
      let '(l, g) := wlock (lk s) t rid in
      if lgranted g then
        match aget (rows s) rid with
        | Some (old, false) =>
            match aget (rows s) nrid with
            | Some _ => (s, EIllegal)
            | None =>
                let '(l2, g2) := lstep l (LockX t nrid) in
                if lgranted g2 then eexec s t l2 (WUpd rid nrid old new)
                else (s, EIllegal)
            end
        | _ => efail s l t
        end
      else efail s l t
  | OpRead t rid =>
      let '(l, g) := rlock (lk s) t rid in
      if lgranted g then
        match aget (rows s) rid with
        | Some (tp, false) => (with_lk s l, ERow tp)
        | _ => if memN rid (agetl (xset l) t) then (with_lk s l, ESkipped)
               else efail s l t
        end
      else efail s l t
  | OpCommit t => (ecommit_txn s t, EOk)
  | OpAbort t => (eabort_txn s t, EOk)
  end.

Definition erun (ops : list eop) (s : estate) : estate :=
  fold_left (fun s o => fst (estep s o)) ops s.

(** Outputs of a run, in order. *)
Fixpoint eouts (ops : list eop) (s : estate) : list eout :=
  match ops with
  | [] => []
  | o :: ops' => snd (estep s o) :: eouts ops' (fst (estep s o))
  end.

(* ------------------------------------------------------------------ *)
(** * Observations *)

(** Entries of the index on column [c] (first index on that column). *)
Fixpoint iget (ix : list (nat * list ientry)) (c : nat) : list ientry :=
  match ix with
  | [] => []
  | (c', es) :: ix' => if Nat.eqb c' c then es else iget ix' c
  end.

(** Point lookup: the rids the index on column [c] returns for key [k]. *)
Definition ilookup (s : estate) (c : nat) (k : value) : list N :=
  map snd (filter (fun e => veqb (fst e) k) (iget (idx s) c)).

(** What a sequential scan of the heap finds in column [c] = [k]. *)
Definition heap_rids (s : estate) (c : nat) (k : value) : list N :=
  map fst (filter (fun e => veqb (ecol c (fst (snd e))) k) (rows s)).

(** Transaction owning an operation. *)
Definition eop_txn (o : eop) : N :=
  match o with
  | OpInsert t _ _ | OpDelete t _ | OpUpdate t _ _ | OpUpdateMove t _ _ _
  | OpRead t _ | OpCommit t | OpAbort t => t
  end.

Definition is_data_op (o : eop) : bool :=
  match o with OpCommit _ | OpAbort _ => false | _ => true end.
