(** Executable model of the buffer pool's victim selection:
    lib/storage/buffer/clock_replacer.go (ClockReplacer: Victim, Pin, Unpin, Size, NewClockReplacer) over
    lib/storage/buffer/circular_list.go (circularList: insert, remove, hasKey, the size counter, supportMap).

    The Go structure is a doubly linked ring of nodes {key = frame id, value = reference bit, next, prev} with
    [head], [tail], a [size] counter, a [capacity] and [supportMap : key -> *node]; the replacer adds
    [clockHand **node], a POINTER TO A POINTER FIELD: either [&cList.head] (so [*clockHand] follows whatever the head
    field holds) or [&x.next] for a node [x] — and, as the code is written, every [x] whose [next] field the hand
    points to is unlinked by the very call that set the hand, so that field is frozen from then on.

    Representation here:
      [c_nodes]  the ring listed from [head] to [tail]; each node carries an IDENTITY ([cn_id], a fresh number per
                 allocation: the Go pointer) besides its key and bit, because the hand refers to a node, not to a key —
                 a frame that leaves and re-enters the replacer is a new node.
      [c_hand]   [HHead] = [&cList.head];  [HNextOf t] = [&x.next] of an unlinked node [x] whose [next] field holds the
                 node with identity [t].  If [t] is not in the ring any more, Go would read a node that has left the
                 list; the model then answers [AUndef] (it does not follow the code further) — ClockProofs shows this
                 answer is never produced.
      [c_size], [c_map]  the separate counter and the supportMap, updated exactly where the Go code updates them.

    Facts of the code that the model keeps (and the proofs then expose):
      - insert appends at the TAIL (just before [head]); Unpin inserts with the bit set, and only for a frame that is
        not present: Unpin of a present frame changes nothing (it does not touch the bit);
      - Pin of an absent frame changes nothing; Pin of the node under the hand first moves the hand to its successor;
      - Victim's loop never advances [currentNode] ([currentNode = currentNode.next] is missing): a set bit is cleared
        and the SAME node is looked at again, so the node under the hand is always the one returned;
      - Victim on an empty list panics ("Victim: page which can be cache out is not exist!") before touching anything
        ([ANone]); insert into a full list panics ("circularList::insert capacity is full", [AFull]) likewise.
    Model only: no proofs here. *)
From Coq Require Import List NArith Bool.
From SDB Require Import Base.Assoc.
Import ListNotations.
Open Scope N_scope.

Record cnode := mkCNode { cn_id : N; cn_key : N; cn_ref : bool }.

Inductive chand :=
| HHead                 (* &cList.head *)
| HNextOf (target : N).   (* &x.next of an unlinked node x; the field holds the node with identity [target] *)

Record clock := mkClock {
  c_nodes : list cnode;      (* head ... tail *)
  c_size  : N;               (* circularList.size *)
  c_cap   : N;               (* circularList.capacity *)
  c_map   : list (N * N);    (* supportMap: key -> node identity *)
  c_hand  : chand;
  c_fresh : N                (* identity of the next node to be allocated *)
}.

(** NewClockReplacer(poolSize): empty list, hand = &cList.head *)
Definition clock_init (cap : N) : clock := mkClock [] 0 cap [] HHead 0.

Inductive clk_op := CVictim | CPin (f : N) | CUnpin (f : N) | CSize.

Inductive clk_ans :=
| AVictim (f : N)
| ANone          (* Victim panicked: the list is empty *)
| AOk
| AFull          (* Unpin panicked inside insert: size = capacity *)
| ASize (n : N)
| AUndef.        (* the model cannot follow the code (hand on a node that left the ring / loop out of fuel) *)

(* ---------------------------------------------------------------- ring helpers *)
Fixpoint find_id (id : N) (l : list cnode) : option cnode :=
  match l with
  | [] => None
  | x :: r => if cn_id x =? id then Some x else find_id id r
  end.

(** unlink the node with this identity *)
Fixpoint drop_id (id : N) (l : list cnode) : list cnode :=
  match l with
  | [] => []
  | x :: r => if cn_id x =? id then r else x :: drop_id id r
  end.

Fixpoint set_ref (id : N) (v : bool) (l : list cnode) : list cnode :=
  match l with
  | [] => []
  | x :: r => if cn_id x =? id then mkCNode (cn_id x) (cn_key x) v :: r else x :: set_ref id v r
  end.

(** [node.next] inside the ring: the following element, the first one after the last *)
Fixpoint next_from (id : N) (l : list cnode) (first : N) : option N :=
  match l with
  | [] => None
  | x :: r =>
      if cn_id x =? id then Some (match r with y :: _ => cn_id y | [] => first end)
      else next_from id r first
  end.

Definition ring_next (l : list cnode) (id : N) : option N :=
  match l with
  | [] => None
  | h :: _ => next_from id l (cn_id h)
  end.

Definition head_id (l : list cnode) : option N :=
  match l with [] => None | h :: _ => Some (cn_id h) end.

(** the node pointer [*clockHand] (None = nil) *)
Definition hand_target (st : clock) : option N :=
  match c_hand st with
  | HHead => head_id (c_nodes st)
  | HNextOf t => Some t
  end.

Definition set_hand (st : clock) (h : chand) : clock :=
  mkClock (c_nodes st) (c_size st) (c_cap st) (c_map st) h (c_fresh st).

Definition set_bit (st : clock) (id : N) (v : bool) : clock :=
  mkClock (set_ref id v (c_nodes st)) (c_size st) (c_cap st) (c_map st) (c_hand st) (c_fresh st).

(** the frames in the replacer, head first *)
Definition keys (st : clock) : list N := map cn_key (c_nodes st).

(* ---------------------------------------------------------------- circularList *)
(** insert(key, value); None = panic "capacity is full" (nothing changed) *)
Definition cl_insert (st : clock) (key : N) (value : bool) : option clock :=
  if c_size st =? c_cap st then None
  else if c_size st =? 0 then
    Some (mkClock [mkCNode (c_fresh st) key value] (c_size st + 1) (c_cap st)
              (aset (c_map st) key (c_fresh st)) (c_hand st) (c_fresh st + 1))
  else match aget (c_map st) key with
  | Some id => Some (set_bit st id value)
  | None =>
    Some (mkClock (c_nodes st ++ [mkCNode (c_fresh st) key value]) (c_size st + 1) (c_cap st)
              (aset (c_map st) key (c_fresh st)) (c_hand st) (c_fresh st + 1))
  end.

(** remove(key) *)
Definition cl_remove (st : clock) (key : N) : clock :=
  match aget (c_map st) key with
  | None => st
  | Some id =>
    if c_size st =? 1 then
      mkClock [] (c_size st - 1) (c_cap st) (adel (c_map st) key) (c_hand st) (c_fresh st)
    else
      mkClock (drop_id id (c_nodes st)) (c_size st - 1) (c_cap st) (adel (c_map st) key) (c_hand st) (c_fresh st)
  end.

(* ---------------------------------------------------------------- ClockReplacer *)
(** The [for] loop of Victim with [currentNode = cur] — which the loop body never changes.  Two rounds are all the
    code can make (the first clears the bit, the second sees it clear); [AUndef] when the fuel is used up. *)
Fixpoint victim_loop (fuel : nat) (st : clock) (cur : N) : clock * clk_ans :=
  match fuel with
  | O => (st, AUndef)
  | S k =>
    match find_id cur (c_nodes st), ring_next (c_nodes st) cur with
    | Some nd, Some nx =>
        if cn_ref nd then
          (* currentNode.value = false; c.clockHand = &currentNode.next *)
          victim_loop k (set_hand (set_bit st cur false) (HNextOf nx)) cur
        else
          (* c.clockHand = &currentNode.next; c.cList.remove(currentNode.key); return &frameID *)
          (cl_remove (set_hand st (HNextOf nx)) (cn_key nd), AVictim (cn_key nd))
    | _, _ => (st, AUndef)
    end
  end.

Definition c_victim (st : clock) : clock * clk_ans :=
  if c_size st =? 0 then (st, ANone)
  else match hand_target st with
  | None => (st, AUndef)
  | Some cur => victim_loop 2 st cur
  end.

Definition c_unpin (st : clock) (f : N) : clock * clk_ans :=
  match aget (c_map st) f with
  | Some _ => (st, AOk)                       (* hasKey: nothing happens *)
  | None =>
    match cl_insert st f true with
    | None => (st, AFull)
    | Some st1 => ((if c_size st1 =? 1 then set_hand st1 HHead else st1), AOk)
    end
  end.

Definition c_pin (st : clock) (f : N) : clock * clk_ans :=
  match aget (c_map st) f with
  | None => (st, AOk)
  | Some id =>
    let is_hand := match hand_target st with Some t => t =? id | None => false end in
    if is_hand then
      match ring_next (c_nodes st) id with
      | Some nx => (cl_remove (set_hand st (HNextOf nx)) f, AOk)   (* the hand moves to the next field of the node it is on *)
      | None => (st, AUndef)
      end
    else (cl_remove st f, AOk)
  end.

Definition clock_step (st : clock) (o : clk_op) : clock * clk_ans :=
  match o with
  | CVictim => c_victim st
  | CPin f => c_pin st f
  | CUnpin f => c_unpin st f
  | CSize => (st, ASize (c_size st))
  end.

Fixpoint clock_run (st : clock) (ops : list clk_op) : clock * list clk_ans :=
  match ops with
  | [] => (st, [])
  | o :: r =>
    let '(st1, a) := clock_step st o in
    let '(st2, outs) := clock_run st1 r in
    (st2, a :: outs)
  end.

(** what the correspondence check compares besides the answers: the ring (key, bit) from the head, and the key of
    the node under the hand (None: empty ring; Some None: the hand is on a node that left the ring) *)
Definition clock_dump (st : clock) : list (N * bool) * option (option N) :=
  (map (fun n => (cn_key n, cn_ref n)) (c_nodes st),
   match c_nodes st with
   | [] => None
   | _ => Some (match hand_target st with
                | Some t => match find_id t (c_nodes st) with Some n => Some (cn_key n) | None => None end
                | None => None
                end)
   end).
