(** Extraction of the executable models to OCaml.  Only [ExtrOcamlBasic] is
    used (bool, option, unit, list, prod, sumbool, sumor mapped to OCaml's
    types); N, Z, positive and nat stay the extracted inductive types.
    No [Extract Constant] directive is used. *)
Require Extraction.
Require Import ExtrOcamlBasic.
From Coq Require Import List NArith ZArith.
From SDB Require Import Base.Bytes Base.Assoc Params Model.Codec Model.Lock Model.Page Model.Pool Model.SqlRef Model.Catalog Model.Query Model.Wal Model.LogCodec Model.WalTrace Model.Sched Model.ReqMgr Model.Engine Model.IndexWrap Model.Trace Model.Join Model.SkipList Model.Startup Model.HashTable Model.Heap Model.TupleCodec Model.CatalogRows Model.TmpPage Model.WalLink Model.PageAlloc Model.Clock Model.DiskFile.

Extraction Blacklist List String Int.

Extraction "sdbmodel.ml"
  (* Base *)
  lex_cmp be le be_dec le_dec
  (* M1 codec *)
  enc_int_key dec_int_key enc_f32_key dec_f32_key enc_str_key dec_str_key
  enc_int enc_f32 f_cmp f_is_nan
  pack64 unpack64 pack8 unpack8 pack6 unpack6 pack32 unpack32 fill_zero elim_zero
  btree_max_key_len
  (* M3 lock manager *)
  linit lstep
  (* M2 slotted page *)
  pinit pstep astep abs op_ok
  (* M5 buffer pool *)
  binit bstep
  (* SQL reference semantics *)
  sel upd del join_sel eval_pred
  (* M11 catalog *)
  bootstrap reload crun1
  (* M7 query planning (C06) *)
  new_range range_update range_empty cv_cmp cv_is_inf_max cv_is_inf_min cv_bad stmt_hits_bad
  walk candidates chosen plan_for run_plan run_select
  (* M6 WAL / recovery *)
  recover redo replay losers log_ok chains_ok strict_ok disk_ok no_loser_apply committed_val page_val get_page scope tracked image_wf fresh_pages_ok recover_outs out_ok
  (* M6b log codec, M6c write-ahead trace checker (C08) *)
  ser_rec parse_rec parse_all to_lrec wal_ok wal_violation wal_stats
  (* M4s scheduling (C05), M8 request manager (C12) *)
  sinit sstep srun
  rinit rinit_real rstep rrun enabled deadlock_schedule potential
  (* M4 row-level engine (C03 C07 C04) *)
  einit estep erun eouts iget ilookup heap_rids icols
  (* M17 index wrapper (C17), M19 trace checkers (C19) *)
  om_empty om_sortedb ixi_insert ixi_delete ixi_update ixi_scan_key ixi_range
  ixf_insert ixf_delete ixf_update ixf_scan_key ixf_range ixs_insert ixs_delete ixs_update ixs_scan_key ixs_range
  well_formed disciplined guard_of
  (* M7j join planning (C11) *)
  join_candidates run_join run_join_select scan_candidates inner jcols jshape_of leaf_order algs has_null_key has_neg_zero_key join_hyps_ok
  (* M17s block skip list (C17) *)
  ix_key sl_empty sl_insert sl_remove sl_get sl_to_list sl_range sl_checkb om_find
  (* M6s start-up sequence / LSN floor (C20) *)
  cfg_now st_mkcfg st_nopage st_init st_step st_run st_next_lsn st_is_normal st_phase_no st_disk_lsn st_log_lsns st_lost_records st_floor_broken st_feed st_feed_all
  (* M17h linear-probe hash table (C17) *)
  ht_empty ht_engine_empty ht_insert ht_ins_err ht_ins_stored ht_remove ht_get ht_live_count ht_occ_count ht_home ht_engine_blocks ht_block_array_size
  (* M2h table heap chain with pin accounting (C14) *)
  hp_go mkHpV hp_init hp_exec_l hp_run_l hp_run_ok hp_op_ok hp_pin_vector hp_trace_pins hp_scan_expected hp_flat hp_lookup hp_place hp_accepts hp_pin_safe hp_pin_run
  (* M1t row (tuple) codec (C06) *)
  tc_encode_row tc_tuple_size tc_decode_col tc_decode_row tc_get_value_in_bytes tc_row_wf tc_row_ok tc_readback
  (* M11r catalog persistence: table / columns catalog heaps, reload (C10) *)
  cr_boot cr_step cr_run cr_lookup_oid cr_lookup_name cr_refused cr_idx_legal cr_dump cr_oids cr_names cr_names_distinct cr_tabs_wf cr_reload cr_persist_t cr_persist_c cr_create_fits
  (* M9t temporary tuple page of the hash join (C11) *)
  tp_init tp_init_page tp_free tp_set_free tp_page_id tp_insert_go tp_insert_weak_go tp_insert tp_get tp_get_go tp_insert_all tp_inserts tp_last_loc
  (* M6l page-link write-ahead discipline (C08) *)
  link_ok link_first_violation link_checked
  (* M3a page-id allocation and reuse across restarts (C13, C10) *)
  pa_init pa_step pa_client_ok pa_image_ok pa_inuse_nodup pa_new_fresh pa_reusable_ok pa_lset
  (* M3c the pool's replacer (a clock in name, a first-in-first-out queue in fact) (C13) *)
  clock_init clock_step clock_run clock_dump
  (* M3d the file layer: db file pages / holes / size, allocator start, log file (C13) *)
  dm_mk dm_empty dm_open dm_write_page dm_read_page dm_size dm_allocate dm_write_log dm_read_log dm_log_size dm_gc_log dm_step dm_run
  N.of_nat N.to_nat Z.of_N Z.to_N Z.compare N.compare.
