"""History generation + crash-point oracle shared by C01 / C02 / C20 / C08."""
import os, random, shutil
from vlib import BUILD
from dbsession import DB, Ref, scan_rows
from crashlib import *

TABLES = ["ta", "tb"]


def pad(n, seed):
    s = "v%d_" % seed
    return (s + "x" * n)[:max(n, len(s))]


class History:
    """Runs a serial history of units (auto-commit statements and explicit transactions) on the real engine,
    recording the I/O trace with markers, and mirrors the committed units on the reference."""

    def __init__(self, rng, mode, mem_kb):
        self.rng, self.mode, self.mem_kb = rng, mode, mem_kb
        self.db = DB(mem_kb=mem_kb)
        self.units = []          # [{label, ops:[ref lines], committed:bool}]
        self.keys = {t: [] for t in TABLES}
        self.nextk = 1
        self.fail = None
        self.desc = []

    def stmt(self, t):
        """returns (sql, ref_line, kind)"""
        rng = self.rng
        r = rng.random()
        big = self.mode != "small"
        if self.mode == "abortgrow" and self.keys[t] and r >= 0.25:
            # mostly in-place growth of existing rows (rolled back by a shrinking update when the transaction aborts)
            k = rng.choice(self.keys[t])
            self.pending_keys = None
            if r < 0.85:
                return ("UPDATE %s SET v = '%s' WHERE k = %d;" % (t, pad(rng.choice([40, 60, 90, 150]), 1000 + rng.randrange(1000)), k), None, "update-grow")
            return ("UPDATE %s SET g = %d WHERE k = %d;" % (t, rng.randrange(100, 200), k), None, "update-inplace")
        if r < (0.8 if self.mode == "grow" else 0.45) or not self.keys[t]:
            k = self.nextk; self.nextk += 1
            n = rng.choice([5, 30, 300, 700] if big else [5, 20])
            if self.mode == "grow":
                n = rng.choice([400, 600, 700])
            if self.mode == "wide":
                n = rng.choice([300, 2100, 2500, 3000])      # rows of more than half a page: an UPDATE record (old + new image) exceeds a page
            v = pad(n, k)
            self.pending_keys = (t, "add", k)
            return ("INSERT INTO %s(k,g,v) VALUES (%d, %d, '%s');" % (t, k, k % 7, v),
                    "R %s i:%d,i:%d,s:%s" % (t, k, k % 7, v.encode().hex()), "insert")
        k = rng.choice(self.keys[t])
        if r < 0.62:
            self.pending_keys = None
            return ("UPDATE %s SET g = %d WHERE k = %d;" % (t, rng.randrange(100, 200), k), None, "update-inplace")
        if r < 0.80:
            n = rng.choice([40, 400, 900] if big else [10, 25])
            if self.mode == "wide":
                n = rng.choice([2050, 2300, 2600, 3100])
            self.pending_keys = None
            return ("UPDATE %s SET v = '%s' WHERE k = %d;" % (t, pad(n, 1000 + rng.randrange(1000)), k), None, "update-grow")
        self.pending_keys = (t, "del", k)
        return ("DELETE FROM %s WHERE k = %d;" % (t, k), "D %s c0 eq i:%d" % (t, k), "delete")

    def ref_line(self, sql, t):
        """ref command for UPDATE statements"""
        import re
        m = re.match(r"UPDATE (\w+) SET g = (\d+) WHERE k = (\d+);", sql)
        if m:
            return "U %s 1=i:%s c0 eq i:%s" % (m.group(1), m.group(2), m.group(3))
        m = re.match(r"UPDATE (\w+) SET v = '([^']*)' WHERE k = (\d+);", sql)
        if m:
            return "U %s 2=s:%s c0 eq i:%s" % (m.group(1), m.group(2).encode().hex(), m.group(3))
        return None

    def apply_keys(self):
        if self.pending_keys:
            t, what, k = self.pending_keys
            if what == "add":
                self.keys[t].append(k)
            elif k in self.keys[t]:
                self.keys[t].remove(k)

    def run(self, nunits):
        db, rng = self.db, self.rng
        if not db.open().startswith("ok"):
            self.fail = "database does not start"; return
        for t in TABLES:
            if self.mode == "wide":
                # (no index on the string column: its values are longer than an index entry may be)
                if not db.cmd("mktable %s k:i:s,g:i:n,v:s:n" % t).startswith("ok"):
                    self.fail = "mktable failed"; return
                continue
            if not db.sql("CREATE TABLE %s(k int, g int, v varchar(255));" % t).startswith("ok"):
                self.fail = "CREATE TABLE failed"; return
        db.cmd("mark SETUP-DONE")
        label = 0
        # a long-running transaction that stays open while other work commits (its records reach the
        # durable log through other transactions' commits and through evictions: recovery must undo it)
        bg_at = rng.randrange(0, max(1, nunits - 2)) if rng.random() < (0.7 if self.mode != "wide" else 1.0) else None
        if self.mode == "wide" and bg_at is not None:
            bg_at = min(bg_at, 2)
        if self.mode in ("grow", "abortgrow"):
            bg_at = None        # tables grow page by page and checkpoints (possible only with no transaction open) are frequent
        bg_open, bg_ops = False, 0
        for u in range(nunits):
            if bg_at is not None and u >= bg_at and (not bg_open or rng.random() < 0.5) and bg_ops < 6:
                if not bg_open:
                    db.cmd("begin bg"); bg_open = True
                    self.desc.append("open-bg")
                # own rows only: keys >= 100000 are never touched by anybody else
                k = 100000 + self.nextk; self.nextk += 1
                n = rng.choice([5, 300, 700] if self.mode != "small" else [5, 20])
                if self.mode == "wide":
                    n = rng.choice([2100, 2400, 2900])
                tt = rng.choice(TABLES)
                what = rng.random()
                if self.mode == "wide" and getattr(self, "bgkeys", None):
                    what = 0.6 + what * 0.4 if what < 0.7 else what        # mostly updates of its own wide rows: wide UPDATE records of a loser
                if what < 0.6 or not getattr(self, "bgkeys", None):
                    db.cmd("tsql bg INSERT INTO %s(k,g,v) VALUES (%d, 1, '%s');" % (tt, k, pad(n, k)))
                    self.bgkeys = getattr(self, "bgkeys", []) + [(tt, k)]
                elif what < 0.8:
                    t2, k2 = rng.choice(self.bgkeys)
                    db.cmd("tsql bg UPDATE %s SET v = '%s' WHERE k = %d;" % (t2, pad(n + 50, k2 + 7), k2))
                else:
                    t2, k2 = self.bgkeys.pop()
                    db.cmd("tsql bg DELETE FROM %s WHERE k = %d;" % (t2, k2))
                bg_ops += 1
            label += 1
            kind = rng.random()
            if self.mode == "grow":
                kind = kind * 0.55 if kind < 0.6 else (0.6 if kind < 0.75 else 0.95)
            if self.mode == "abortgrow":
                kind = kind * 0.55 if kind < 0.35 else 0.6
            t = rng.choice(TABLES)
            if kind < 0.55:
                sql, rl, what = self.stmt(t)
                rl = rl or self.ref_line(sql, t)
                db.cmd("mark B %d" % label)
                r = db.sql(sql)
                db.cmd("mark E %d %s" % (label, r.split(":")[0]))
                ok = r.startswith("ok")
                self.units.append({"label": label, "ops": [rl], "committed": ok, "kind": "auto-" + what})
                if ok:
                    self.apply_keys()
                self.desc.append(what)
            elif kind < 0.90:
                n = rng.randrange(1, 5)
                db.cmd("begin x%d" % label)
                ops, keyops, aborted = [], [], False
                for _ in range(n):
                    sql, rl, what = self.stmt(rng.choice(TABLES))
                    rl = rl or self.ref_line(sql, t)
                    r = db.cmd("tsql x%d %s" % (label, sql))
                    if not r.startswith("ok"):
                        aborted = True
                        break
                    ops.append(rl); keyops.append(self.pending_keys)
                    # statements of one transaction must see its own earlier changes: apply key bookkeeping now
                    self.apply_keys()
                commit = (not aborted) and rng.random() < (0.75 if self.mode not in ("aborts", "abortgrow") else (0.45 if self.mode == "aborts" else 0.3))
                if commit:
                    db.cmd("mark B %d" % label)
                    db.cmd("commit x%d" % label)
                    db.cmd("mark E %d ok" % label)
                else:
                    db.cmd("abort x%d" % label)
                    db.cmd("mark A %d" % label)
                    # undo key bookkeeping
                    for ko in reversed(keyops):
                        if ko:
                            tt, what, k = ko
                            if what == "add" and k in self.keys[tt]:
                                self.keys[tt].remove(k)
                            elif what == "del":
                                self.keys[tt].append(k)
                self.units.append({"label": label, "ops": ops, "committed": commit, "kind": "txn-commit" if commit else "txn-abort"})
                self.desc.append("txn(%d,%s)" % (len(ops), "commit" if commit else "abort"))
            elif not bg_open:
                # (a checkpoint waits for every open transaction to end: never issued while one is open in this single-threaded driver)
                db.cmd("checkpoint")
                db.cmd("mark CKPT")
                self.desc.append("checkpoint")
            if db.dead:
                self.fail = "engine stopped answering during the history: " + db.dead
                return
        if self.mode == "grow":
            db.cmd("checkpoint")
            db.cmd("mark CKPT")
            self.desc.append("checkpoint")
        # leave one transaction in flight
        if rng.random() < 0.7:
            label += 1
            db.cmd("begin fly")
            for _ in range(rng.randrange(1, 4)):
                sql, rl, what = self.stmt(rng.choice(TABLES))
                db.cmd("tsql fly " + sql)
            self.pending_keys = None
            self.desc.append("in-flight txn")
        tp = os.path.join(db.dir, "history.trace")
        r = db.cmd("trace " + tp)
        self.trace = load_trace(tp) if r.startswith("ok") else None
        if self.trace is None:
            self.fail = "trace dump failed: " + r

    def close(self):
        self.db.destroy()


def expected_states(units):
    """reference table contents after each prefix of the unit list (committed units only).
    Returns (states, index_of_label): states[j] = {table: rows} after the first j committed units."""
    ref = Ref()
    try:
        for t in TABLES:
            ref.cmd("T %s 3" % t)
        states = [{t: ref.cmd("C " + t) for t in TABLES}]
        order = []
        for u in units:
            if not u["committed"]:
                continue
            for op in u["ops"]:
                if op:
                    ref.cmd(op)
            states.append({t: ref.cmd("C " + t) for t in TABLES})
            order.append(u["label"])
        return states, order
    finally:
        ref.close()


def allowed_at(trace, k, order):
    """indices into `states` allowed at crash prefix k: commits that returned must be present, a commit in progress
    may or may not be, nothing else."""
    returned, begun = set(), set()
    for e in trace[:k]:
        if e[0] == "M":
            f = e[1].split()
            if f[0] == "B":
                begun.add(int(f[1]))
            elif f[0] == "E" and len(f) > 2 and f[2] == "ok":
                returned.add(int(f[1]))
    nret = sum(1 for l in order if l in returned)
    inprog = [l for l in order if l in begun and l not in returned]
    allowed = {nret}
    if inprog:
        allowed.add(nret + 1)
    return allowed, nret


def crash_points(trace, rng, limit, after_setup=True):
    """I/O boundaries at which to crash: every boundary if few, else all boundaries next to markers plus a sample"""
    start = 0
    if after_setup:
        for i, e in enumerate(trace):
            if e[0] == "M" and e[1] == "SETUP-DONE":
                start = i
                break
    pts = [i for i in range(start, len(trace) + 1) if i == len(trace) or trace[i][0] != "M" or True]
    # a crash point is a position in the event list; positions that differ only by markers give the same image
    seen, out = set(), []
    for p in range(start, len(trace) + 1):
        nio = sum(1 for e in trace[:p] if e[0] != "M")
        key = (nio, tuple(sorted(e[1] for e in trace[:p] if e[0] == "M" and e[1][0] in "BE")))
        if key in seen:
            continue
        seen.add(key)
        out.append(p)
    if len(out) > limit:
        near = [p for p in out if any(0 <= q < len(trace) and trace[q][0] == "M" for q in (p - 1, p))]
        rest = [p for p in out if p not in near]
        rng.shuffle(rest)
        out = sorted(set(near[:limit] + rest[:max(0, limit - len(near))]))
    return out
