#!/usr/bin/env python3
"""Correspondence check  Model/Engine.v (build/engine_driver)  <->  the real engine
(build/verifharness db, explicit transaction handles on one goroutine).

Random multi-transaction histories are executed statement by statement on BOTH
sides; after every step all observables are compared.  The only glue is the
translation of one SQL statement into the row-level operations of the model; it
is the table below, nothing else is assumed about the engine.

TRANSLATION  (T = transaction, W = the write records the statement appended to
T's write set on the engine, read back with `wsetv` after the statement)

  rid            engine page.slot  ->  model page*1000+slot
  access path    taken from the engine's own `plan <stmt>` answer:
                   SeqScan | Selection(SeqScan)                 -> SEQ
                   IndexRangeScan | Selection(IndexRangeScan)    -> IDX   (only for `col = v`, col indexed)
                   IndexPointScan                               -> PNT   (same, all reads first)
  SEQ scan       TableHeapIterator + SeqScanExecutor.Next: the scan stands on the first occupied slot
                 (model `rows`, delete-marked slots included, rid order = page chain order); `read T rid`;
                 `skipped` (own delete-marked row) -> go on to the next occupied slot.  A row that satisfies
                 the predicate is handed to the consumer only AFTER the scan has moved on to (= read) the
                 following row (`defer e.it.Next()`).  "next occupied slot" is evaluated when the scan moves,
                 i.e. after the consumer's earlier writes: a row relocated behind the scan position by this
                 very statement is visited again.
  IDX scan       rids = `lookup c v` taken once at statement start (the skip-list iterator is a snapshot), in the
                 skip list's order of equal keys (bytes of page, little endian, then bytes of slot); per rid:
                 `read T rid`; `skipped` -> next; the row's column c differs from v -> the executor aborts the
                 statement (`abort T` in the model); otherwise the row goes to the consumer, then the next rid.
  PNT scan       as IDX, but every rid is read before the first row goes to the consumer.
  consumer       SELECT: collect the row (answer = rows in scan order)
                 DELETE: `del T rid`                                     W's next record must be  D rid
                 UPDATE: new row = the row read with the SET columns replaced;
                         W's next record  U rid rid   -> `upd T rid newrow`
                                          U rid rid2  -> `mov T rid rid2 newrow`      (relocation)
                         W exhausted (the engine did not write: lock denied) -> `upd`, which must answer aborted
  INSERT         W = [I rid]  -> `ins T rid row`
  COMMIT/ABORT   `commit T` / `abort T`
  any model operation answering `aborted` ends the statement: the engine must have answered `aborted` (and vice
  versa); the harness leaves the aborted transaction to the client, so `abort <name>` is sent to the engine and the
  states are compared after it (the model has already run its abort processing).

COMPARED after every step: answer class; SELECT rows (ordered); `heap` (every occupied slot with rid, values and
delete mark, read from the page bytes) vs `rows`; `idx` vs `idx c` for every indexed column; `wsetv` vs `wset` for
every open transaction (kinds, rids, old and new tuples); at the end of a history also `scan` (the engine's own
iterator) vs the unmarked rows.

GENERATOR: one table per history (2-4 columns: ints and one varchar; every column without index or with a skip-list
index, in some histories a B-tree on the integer columns), 3-18 initial rows loaded by committed transactions, then
10-25 steps of 2-3 concurrently open transactions: INSERT / UPDATE of 1..n columns (SET list in schema order) /
DELETE / SELECT with `col = v`, `col = v OR col2 = w` or no predicate, COMMIT, ABORT.  Values come from small domains
and predicates aim at rows the transaction itself or another open transaction has written.  "fat" histories use
200-230 byte strings (multi-page heap; growing updates relocate rows when the page is full; every shrinking update
relocates: ErrRollbackDifficult).  "point heavy" histories use almost only index point predicates, so that several
writing transactions stay alive side by side.  NULLs, negative numbers, hash indexes and SET lists out of schema
order (listed findings) are not generated.

The harness process is replaced every few seconds: the engine starts a statistics thread that S-locks every row
every 10 s and a checkpoint thread (30 s) that would block a session with open transactions.
"""
import os, re, sys, time, random

sys.path.insert(0, os.path.dirname(os.path.abspath(__file__)))
from vlib import BUILD, Result          # noqa: E402
from dbsession import DB, Proc          # noqa: E402

MODEL_BIN = os.path.join(BUILD, "engine_driver")
SESSION_MAX_AGE = 4.0        # seconds; the statistics thread wakes up 10 s after `open`
SESSION_MAX_HIST = 25        # every skip-list index keeps ~3 pages pinned for good (and some inserts leave an extra pin)
POOL_KB = 4000               # 1000 frames
LONGS = ["L" * 200, "M" * 200, "N" * 230]
SHORTS = ["p", "qq", "rrr", "ssss"]
COLNAMES = ["a", "b", "c", "d"]
LAYOUTS = {2: "is", 3: "iis", 4: "iisi"}          # column types per column count
INTDOM = {0: [1, 2, 3, 4], 1: [10, 20, 30], 3: [7, 8, 9]}


class Diverged(Exception):
    """model and engine differ (or the translation lost track): the history stops here"""


class StmtAborted(Exception):
    """the model aborted the transaction inside this statement"""


class Unsupported(Exception):
    """not a difference: the check itself cannot go on (unexpected plan, dead process)"""


def tok(v):
    if isinstance(v, int):
        return "i:%d" % v
    return "s:" + (v.encode().hex() if v else "-")


def sqlv(v):
    return str(v) if isinstance(v, int) else "'%s'" % v


def rid_of(ps):
    p, s = ps.split(".")
    return int(p) * 1000 + int(s)


def skiplist_rid_key(rid):
    """order of equal keys in the skip-list index: the key is value ++ packed rid, the rid packed as
    page (4 bytes little endian) then slot (4 bytes little endian), compared bytewise"""
    return (rid // 1000).to_bytes(4, "little") + (rid % 1000).to_bytes(4, "little")


def squeeze(s):
    """transcripts: shorten runs of one repeated byte in hex strings"""
    return re.sub(r"((?:[0-9a-f]{2}))\1{15,}", lambda m: "<%s*%d>" % (m.group(1), len(m.group(0)) // 2), s)


class Txn:
    def __init__(self, name, tid):
        self.name, self.id = name, tid
        self.nstmt = 0
        self.wrecs = []          # engine write records seen so far: (kind, r1, r2, old, new)

    def own_rids(self):
        s = set()
        for k, r1, r2, _, _ in self.wrecs:
            s.add(r1)
            if r2 is not None:
                s.add(r2)
        return s


class Corr:
    def __init__(self, res, rng, focus=None, mutate=None):
        self.res, self.rng, self.focus, self.mutate = res, rng, focus, mutate
        self.model = Proc([MODEL_BIN])
        self.db, self.db_t0 = None, 0
        self.tabno = 0
        self.tr = []             # transcript of the current history
        self.nops = self.nsteps = self.nhist = self.nmis = 0
        self.kinds = {}
        self.mrows_cache = None

    # ------------------------------------------------------------ plumbing
    def count(self, k, n=1):
        self.kinds[k] = self.kinds.get(k, 0) + n

    def session(self):
        if self.db is not None and (self.db.dead or time.time() - self.db_t0 > SESSION_MAX_AGE or self.db_nh >= SESSION_MAX_HIST):
            self.db.destroy()
            self.db = None
        if self.db is None:
            self.db = DB(mem_kb=POOL_KB)
            self.db_t0, self.db_nh = time.time(), 0
            if self.db.open() != "ok":
                raise Unsupported("engine session does not open: %s" % self.db.dead)
        self.db_nh += 1

    def E(self, line):
        a = self.db.cmd(line)
        self.tr.append("E> " + line)
        self.tr.append("E< " + a)
        if a == "dead":
            raise Unsupported("engine harness died: %s" % self.db.dead)
        return a

    def M(self, line):
        a = self.model.ask(line, 30)
        self.tr.append("M> " + line)
        self.tr.append("M< " + str(a))
        if a is None:
            raise Unsupported("model driver died on %r" % line)
        if a.startswith("err:"):
            raise Unsupported("model driver rejects %r: %s" % (line, a))
        return a

    def Mop(self, line):
        """a state-changing model operation"""
        self.nops += 1
        self.mrows_cache = None
        a = self.M(line)
        if a == "illegal":
            raise Diverged("the model rejects the engine's choice as illegal: %s" % line)
        return a

    def Mread(self, t, rid):
        self.nops += 1
        a = self.M("read %d %d" % (t.id, rid))
        if a == "aborted":
            self.mrows_cache = None
        return a

    def mrows(self):
        """model heap: [(rid, [tokens], marked)] in rid order"""
        if self.mrows_cache is None:
            out = []
            a = self.M("rows")
            for e in (a.split(";") if a else []):
                r, row = e.split("=", 1)
                mk = row.endswith("*")
                out.append((int(r), row.rstrip("*").split(","), mk))
            self.mrows_cache = out
        return self.mrows_cache

    def transcript(self):
        return squeeze("\n".join(self.tr))

    # ------------------------------------------------------------ comparison of the observables
    def parse_wsetv(self, ans):
        recs = []
        for e in (ans[3:].split(";") if ans[3:] else []):
            f = e.split(" ")
            if f[0] == "U":
                recs.append(("U", rid_of(f[1]), rid_of(f[2]) if f[2] != "-" else None, f[3], f[4]))
            else:
                recs.append((f[0], rid_of(f[1]), None, f[2], None))
        return recs

    @staticmethod
    def show_wrecs(recs):
        out = []
        for k, r1, r2, o, n in recs:
            out.append("U %d %s %s %s" % (r1, r2, o, n) if k == "U" else "%s %d %s" % (k, r1, o))
        return ";".join(out)

    def compare_all(self, where):
        e = self.E("heap " + self.tab)
        if not e.startswith("ok:"):
            raise Diverged("%s: engine heap unreadable: %s" % (where, e[:100]))
        eh = []
        for x in (e[3:].split(";") if e[3:] else []):
            r, row = x.split("=", 1)
            eh.append("%d=%s" % (rid_of(r), row))
        self.mrows_cache = None
        mh = ["%d=%s%s" % (r, ",".join(row), "*" if mk else "") for r, row, mk in self.mrows()]
        if eh != mh:
            raise Diverged("%s: heap differs: engine [%s] model [%s]" % (where, squeeze(";".join(eh))[:400], squeeze(";".join(mh))[:400]))
        for c in self.icols:
            e = self.E("idx %s %d" % (self.tab, c))
            ee = sorted("%s@%d" % (v, rid_of(r)) for v, r in (x.rsplit("@", 1) for x in (e[3:].split(";") if e[3:] else [])))
            m = self.M("idx %d" % c)
            me = m.split(";") if m else []
            if ee != me:
                raise Diverged("%s: index on column %d differs: engine [%s] model [%s]" % (where, c, squeeze(";".join(ee))[:400], squeeze(";".join(me))[:400]))
        for t in self.open.values():
            e = self.E("wsetv " + t.name)
            if not e.startswith("ok:"):
                raise Diverged("%s: engine write set of %s unreadable: %s" % (where, t.name, e))
            t.wrecs = self.parse_wsetv(e)
            ew = self.show_wrecs(t.wrecs)
            mw = self.M("wset %d" % t.id)
            if ew != mw:
                raise Diverged("%s: write set of %s (txn %d) differs: engine [%s] model [%s]" % (where, t.name, t.id, squeeze(ew)[:400], squeeze(mw)[:400]))
        self.nsteps += 1

    # ------------------------------------------------------------ translation of one statement
    def pred_true(self, pred, row):
        if pred is None:
            return True
        if pred[0] == "eq":
            return row[pred[1]] == tok(pred[2])
        return row[pred[1]] == tok(pred[2]) or row[pred[3]] == tok(pred[4])

    def others_dirty_rids(self, t):
        s = set()
        for o in self.open.values():
            if o is not t:
                s |= o.own_rids()
        return s

    def read(self, t, rid, dirty):
        if rid in dirty:
            self.count("dirty_read_attempts")
        a = self.Mread(t, rid)
        if a == "aborted":
            raise StmtAborted()
        if a == "skipped":
            self.count("own_deleted_row_skipped")
            return None
        if not a.startswith("row:"):
            raise Diverged("model read answers %s" % a)
        return a[4:].split(",")

    def scan_seq(self, t, pred, dirty):
        """generator of (rid, row) in the order the consumer of a sequential scan receives them"""
        def advance(after):
            while True:
                nxt = [r for r, _, _ in self.mrows() if after is None or r > after]
                if not nxt:
                    return None
                row = self.read(t, nxt[0], dirty)
                if row is not None:
                    return (nxt[0], row)
                after = nxt[0]
        cur = advance(None)
        while True:
            while cur is not None and not self.pred_true(pred, cur[1]):
                cur = advance(cur[0])
            if cur is None:
                return
            ret = cur
            if self.mutate != "noprefetch":
                cur = advance(cur[0])        # defer e.it.Next(): the scan moves on before the row is consumed
                yield ret
            else:
                yield ret
                cur = advance(cur[0])

    def scan_idx(self, t, pred, dirty, allfirst):
        c, v = pred[1], pred[2]
        a = self.M("lookup %d %s" % (c, tok(v)))
        rids = sorted((int(x) for x in a.split(",")) if a else [], key=skiplist_rid_key)
        self.probe_idx_dirty(t, c, tok(v), rids)
        got = []
        for rid in rids:
            row = self.read(t, rid, dirty)
            if row is None:
                continue
            if row[c] != tok(v):
                # executor: "detect value update after iterator created" -> transaction ABORTED
                self.count("index_key_recheck_abort")
                self.Mop("abort %d" % t.id)
                raise StmtAborted()
            if allfirst:
                got.append((rid, row))
            else:
                yield (rid, row)
        for x in got:
            yield x

    def probe_idx_dirty(self, t, c, vt, rids):
        """listed finding F-IDX-DIRTY, model and engine agreeing: another open transaction's uncommitted update moved
        the index entry of key v away, so this index scan does not even visit (= try to lock) that row"""
        for o in self.open.values():
            if o is t:
                continue
            for k, r1, r2, old, new in o.wrecs:
                if k == "U" and old.split(",")[c] == vt and new.split(",")[c] != vt and r1 not in rids and r2 not in rids:
                    self.count("f_idx_dirty_row_invisible_both_sides")
                    return

    def path_of(self, st, plan):
        if not plan.startswith("ok:"):
            raise Unsupported("plan answers %s for %s" % (plan, st["sql"]))
        shape = plan[3:]
        if st["kind"] in ("upd", "del"):
            m = re.match(r"^\w+\((.*)\)$", shape)
            if not m:
                raise Unsupported("unexpected plan %s for %s" % (shape, st["sql"]))
            shape = m.group(1)
        if shape in ("SeqScan", "Selection(SeqScan)"):
            return "seq"
        pred = st["pred"]
        if pred is not None and pred[0] == "eq" and pred[1] in self.icols:
            if shape in ("IndexRangeScan", "Selection(IndexRangeScan)"):
                return "idx"
            if shape in ("IndexPointScan", "Selection(IndexPointScan)"):
                return "pnt"
        raise Unsupported("unexpected plan %s for %s" % (shape, st["sql"]))

    def emulate(self, t, st, path, new):
        """run the statement on the model; returns the SELECT rows; raises StmtAborted / Diverged"""
        wi = [0]

        def take(kind, rid):
            if wi[0] >= len(new):
                return None
            w = new[wi[0]]
            if w[0] != kind or w[1] != rid:
                raise Diverged("the engine's next write record is %s but the translation is at %s %d" % (self.show_wrecs([w])[:120], kind, rid))
            wi[0] += 1
            return w

        out = []
        if st["kind"] == "ins":
            if len(new) != 1 or new[0][0] != "I":
                raise Diverged("INSERT left the write records [%s]" % self.show_wrecs(new)[:200])
            rid = new[0][1] + (1 if self.mutate == "rid" else 0)
            wi[0] = 1
            if self.Mop("ins %d %d %s" % (t.id, rid, ",".join(tok(v) for v in st["row"]))) != "ok":
                raise Diverged("model insert does not answer ok")
        else:
            dirty = self.others_dirty_rids(t)
            own = t.own_rids()
            moved = set()
            scan = self.scan_seq(t, st["pred"], dirty) if path == "seq" else self.scan_idx(t, st["pred"], dirty, path == "pnt")
            for rid, row in scan:
                if st["kind"] == "sel":
                    out.append(",".join(row))
                    continue
                if rid in own:
                    self.count("own_row_rewritten")
                if rid in moved:
                    self.count("relocated_row_revisited_by_same_scan")
                if st["kind"] == "del":
                    w = take("D", rid)
                    a = self.Mop("del %d %d" % (t.id, rid))
                else:
                    nr = list(row)
                    for c, v in st["set"]:
                        nr[c] = tok(v)
                    if any(c in self.icols and row[c] != nr[c] for c, _ in st["set"]):
                        self.count("index_key_changed")
                    w = take("U", rid)
                    if w is None or w[2] == rid:
                        if w is not None and sum(len(x) for x in nr) > sum(len(x) for x in row):
                            self.count("in_place_growing_updates")
                        a = self.Mop("upd %d %d %s" % (t.id, rid, ",".join(nr)))
                    else:
                        self.count("relocations")
                        if w[2] // 1000 != rid // 1000:
                            self.count("relocations_to_another_page")
                        moved.add(w[2])
                        a = self.Mop("mov %d %d %d %s" % (t.id, rid, w[2], ",".join(nr)))
                if a == "aborted":
                    if w is not None:
                        raise Diverged("the model aborts at the write of row %d, the engine performed it" % rid)
                    raise StmtAborted()
                if w is None:
                    raise Diverged("the model writes row %d, the engine has no write record for it" % rid)
                own.add(rid)
        if wi[0] != len(new):
            raise Diverged("the engine has more write records than the translation produced: [%s]" % self.show_wrecs(new[wi[0]:])[:200])
        return out

    def run_stmt(self, t, st):
        path = None
        if st["kind"] != "ins":
            path = self.path_of(st, self.E("plan " + st["sql"]))
        self.count("%s_%s" % (st["kind"], path) if path else "ins_initial_load" if st.get("initial") else "ins")
        ans = self.E("tsql %s %s" % (t.name, st["sql"]))
        if not (ans == "aborted" or ans.startswith("ok:")):
            raise Diverged("engine answers %s" % ans[:160])
        w = self.E("wsetv " + t.name)
        if not w.startswith("ok:"):
            raise Diverged("engine write set unreadable: %s" % w)
        recs = self.parse_wsetv(w)
        if recs[:len(t.wrecs)] != t.wrecs:
            raise Diverged("the engine rewrote earlier write records of %s" % t.name)
        new = recs[len(t.wrecs):]
        try:
            rows = self.emulate(t, st, path, new)
            maborted = False
        except StmtAborted:
            maborted = True
        if (ans == "aborted") != maborted:
            raise Diverged("answer class differs: engine %s, model %s" % (ans[:60], "aborted" if maborted else "ok"))
        if maborted:
            self.count("conflict_aborts")
            self.E("abort " + t.name)
            del self.open[t.name]
        else:
            t.wrecs = recs
            t.nstmt += 1
            if st["kind"] == "sel":
                erows = ans[3:].split(";") if ans[3:] else []
                if erows != rows:
                    raise Diverged("SELECT rows differ: engine [%s] model [%s]" % (squeeze(";".join(erows))[:300], squeeze(";".join(rows))[:300]))
                if rows:
                    self.count("select_rows_returned", len(rows))
            if len(new) > 1:
                self.count("multi_row_writes")

    def end_txn(self, t, how, initial=False):
        a = self.E("%s %s" % (how, t.name))
        if not a.startswith("ok"):
            raise Diverged("engine %s answers %s" % (how, a[:160]))
        if self.Mop("%s %d" % (how, t.id)) != "ok":
            raise Diverged("model %s does not answer ok" % how)
        self.count(how + ("_initial_load" if initial else ""))
        if not initial:
            done = {"commit": "committed", "abort": "aborted"}[how]
            self.count("statements_of_%s_transactions" % done, t.nstmt)
            self.count("write_records_of_%s_transactions" % done, len(t.wrecs))
        del self.open[t.name]

    # ------------------------------------------------------------ generator
    def rand_val(self, c, fresh=False):
        rng = self.rng
        if self.types[c] == "i":
            return rng.choice(INTDOM[c]) if not fresh or rng.random() < 0.7 else rng.randrange(40, 60)
        if self.fat and rng.random() < 0.55:
            return rng.choice(LONGS)
        return rng.choice(SHORTS)

    def tok_to_val(self, c, tk):
        return int(tk[2:]) if self.types[c] == "i" else ("" if tk == "s:-" else bytes.fromhex(tk[2:]).decode())

    def pick_row(self, t):
        """a row to aim a predicate at: own rows / rows other open transactions wrote / any row"""
        rng, f = self.rng, self.focus
        live = self.mrows()
        if not live:
            return None
        own, oth = t.own_rids(), self.others_dirty_rids(t)
        r = rng.random()
        p_oth = {"abort": 0.45, "visibility": 0.4}.get(f, 0.22)
        cand = None
        if r < p_oth:
            cand = [x for x in live if x[0] in oth]
        elif r < p_oth + 0.25:
            cand = [x for x in live if x[0] in own]
        return rng.choice(cand or live)

    def gen_pred(self, t, kind):
        rng, f = self.rng, self.focus
        r = rng.random()
        p_none, p_or, p_icol = 0.07, (0.30 if f != "index" else 0.2), {"index": 0.8, "visibility": 0.7}.get(f, 0.55)
        if self.point_heavy:
            # mostly index point predicates: these are the statements of different transactions that can coexist
            # (a sequential scan stops at the first row another open transaction has written)
            p_none, p_or, p_icol = 0.015, 0.06, 0.93
        if r < p_none and kind != "del":
            return None
        row = self.pick_row(t)
        ncol = len(self.types)
        cols = list(range(ncol))
        if self.icols and rng.random() < p_icol:
            cols = self.icols
        c = rng.choice(cols)
        v = self.tok_to_val(c, row[1][c]) if row and rng.random() < 0.9 else self.rand_val(c)
        if f in ("visibility", "index") and rng.random() < 0.3:
            # aim at the old / new key of a row another transaction has updated
            ws = [w for o in self.open.values() if o is not t for w in o.wrecs if w[0] == "U"]
            if ws:
                w = rng.choice(ws)
                v = self.tok_to_val(c, rng.choice([w[3], w[4]]).split(",")[c])
        if r < p_or:
            c2 = c if rng.random() < 0.6 else rng.randrange(ncol)
            row2 = self.pick_row(t)
            v2 = self.tok_to_val(c2, row2[1][c2]) if row2 and rng.random() < 0.7 else self.rand_val(c2)
            return ("or", c, v, c2, v2)
        return ("eq", c, v)

    def pred_sql(self, pred):
        if pred is None:
            return ""
        if pred[0] == "eq":
            return " WHERE %s = %s" % (COLNAMES[pred[1]], sqlv(pred[2]))
        return " WHERE %s = %s OR %s = %s" % (COLNAMES[pred[1]], sqlv(pred[2]), COLNAMES[pred[3]], sqlv(pred[4]))

    def gen_stmt(self, t):
        rng, f = self.rng, self.focus
        ncol = len(self.types)
        names = COLNAMES[:ncol]
        w = {None: (18, 34, 16, 32), "abort": (12, 38, 22, 28), "index": (18, 44, 16, 22), "visibility": (12, 30, 12, 46)}[f]
        kind = rng.choices(["ins", "upd", "del", "sel"], weights=w)[0]
        if kind == "ins":
            row = [self.rand_val(c, fresh=True) for c in range(ncol)]
            return {"kind": "ins", "row": row, "pred": None,
                    "sql": "INSERT INTO %s(%s) VALUES (%s);" % (self.tab, ",".join(names), ", ".join(sqlv(v) for v in row))}
        pred = self.gen_pred(t, kind)
        if kind == "sel":
            return {"kind": "sel", "pred": pred, "sql": "SELECT %s FROM %s%s;" % (",".join(names), self.tab, self.pred_sql(pred))}
        if kind == "del":
            return {"kind": "del", "pred": pred, "sql": "DELETE FROM %s%s;" % (self.tab, self.pred_sql(pred))}
        n = rng.choice([1, 1, 1, 2, 2, ncol])
        cols = list(range(ncol))
        if f == "index" and self.icols and rng.random() < 0.75:
            first = rng.choice(self.icols)
            rest = [c for c in cols if c != first]
            sel = sorted([first] + rng.sample(rest, min(n - 1, len(rest))))
        else:
            sel = sorted(rng.sample(cols, n))
        sets = [(c, self.rand_val(c, fresh=True)) for c in sel]          # SET list in schema order
        return {"kind": "upd", "pred": pred, "set": sets,
                "sql": "UPDATE %s SET %s%s;" % (self.tab, ", ".join("%s = %s" % (COLNAMES[c], sqlv(v)) for c, v in sets), self.pred_sql(pred))}

    # ------------------------------------------------------------ one history
    def begin(self):
        self.txno += 1
        name = "x%d" % self.txno
        a = self.E("begin " + name)
        if not a.startswith("ok:"):
            raise Diverged("engine begin answers %s" % a)
        t = Txn(name, int(a[3:]))
        self.open[name] = t
        return t

    def history(self):
        rng, f = self.rng, self.focus
        self.session()
        self.tr = []
        self.open = {}
        self.txno = 0
        self.tabno += 1
        self.tab = "h%d" % self.tabno
        ncol = rng.choice([2, 3, 3, 4])
        self.types = LAYOUTS[ncol]
        pidx = {"index": 0.75}.get(f, 0.5)
        mode = rng.random()
        kinds = ["n" if mode < 0.12 else "s" if mode > 0.88 or rng.random() < pidx else "n" for _ in range(ncol)]
        if rng.random() < 0.15:
            # B-tree instead of skip list on the integer columns (its keys are limited in length: not on the varchar)
            kinds = ["b" if k == "s" and self.types[c] == "i" else k for c, k in enumerate(kinds)]
            if "b" in kinds:
                self.count("histories_with_btree_index")
        self.icols = [c for c in range(ncol) if kinds[c] != "n"]
        self.fat = rng.random() < 0.4
        self.point_heavy = bool(self.icols) and rng.random() < {"abort": 0.25}.get(f, 0.4)
        a = self.E("mktable %s %s" % (self.tab, ",".join("%s:%s:%s" % (COLNAMES[c], self.types[c], kinds[c]) for c in range(ncol))))
        if not a.startswith("ok"):
            raise Unsupported("mktable answers %s" % a)
        self.M("icols " + (",".join(str(c) for c in self.icols) or "-"))
        self.mrows_cache = None
        self.count("histories_fat" if self.fat else "histories_thin")
        # initial rows: committed transactions through the same path
        nrows = rng.randrange(12, 19) if self.fat else rng.randrange(3, 9)
        t = self.begin()
        for i in range(nrows):
            row = [self.rand_val(c) for c in range(ncol)]
            if self.fat and i < nrows - 3:
                row[2 if ncol > 2 else 1] = rng.choice(LONGS)
            st = {"kind": "ins", "row": row, "pred": None, "initial": True,
                  "sql": "INSERT INTO %s(%s) VALUES (%s);" % (self.tab, ",".join(COLNAMES[:ncol]), ", ".join(sqlv(v) for v in row))}
            self.run_stmt(t, st)
            if rng.random() < 0.2 and i < nrows - 1:
                self.end_txn(t, "commit", True)
                t = self.begin()
        self.end_txn(t, "commit", True)
        self.compare_all("after the initial load")
        maxopen = 3 if f == "abort" or rng.random() < 0.4 else 2
        p_end = {"abort": 0.10}.get(f, 0.13)
        p_abort = {"abort": 0.5}.get(f, 0.3)
        for step in range(rng.randrange(10, 26)):
            if len(self.open) < maxopen and (not self.open or rng.random() < 0.5):
                self.begin()
            t = rng.choice(list(self.open.values()))
            if rng.random() < p_end:
                how = "abort" if rng.random() < p_abort else "commit"
                self.end_txn(t, how)
                where = "%s %s" % (how, t.name)
            else:
                st = self.gen_stmt(t)
                self.run_stmt(t, st)
                where = "%s: %s" % (t.name, squeeze(st["sql"]))
            self.compare_all("after " + where)
        for t in list(self.open.values()):
            how = "abort" if rng.random() < p_abort else "commit"
            self.end_txn(t, how)
            self.compare_all("after %s %s" % (how, t.name))
        # the engine's own iterator (recovery-mode scan: skips delete-marked rows; none are left now)
        e = self.E("scan " + self.tab)
        es = ["%d=%s" % (rid_of(x.split("=", 1)[0]), x.split("=", 1)[1]) for x in (e[3:].split(";") if e[3:] else [])]
        ms = ["%d=%s" % (r, ",".join(row)) for r, row, mk in self.mrows() if not mk]
        if es != ms:
            raise Diverged("final scan differs: engine [%s] model [%s]" % (squeeze(";".join(es))[:300], squeeze(";".join(ms))[:300]))

    def cleanup_engine(self):
        """after a divergence: end the engine transactions of the history (their locks are on this history's pages only)"""
        try:
            for t in list(self.open.values()):
                if self.db is not None and not self.db.dead:
                    self.db.cmd("abort " + t.name)
        except Exception:
            pass
        if self.db is not None:
            self.db.destroy()
            self.db = None

    def close(self):
        if self.db is not None:
            self.db.destroy()
            self.db = None
        self.model.close()


def run_corr(res, rng, nhist, focus=None, mutate=None):
    """see the module header; appends (replay_text, why) to res.mismatches (at most 5) and counters to res.extra"""
    if not os.path.exists(MODEL_BIN):
        res.broken.append("build/engine_driver is missing (extracted engine model)")
        return
    c = Corr(res, rng, focus, mutate)
    nbroken = 0
    try:
        for _ in range(nhist):
            try:
                c.history()
                c.nhist += 1
            except Diverged as d:
                c.nhist += 1
                c.nmis += 1
                if len(res.mismatches) < 5:
                    head = ("# engine/model correspondence (lib/enginecorr.py), history %d of this run, focus=%s, table %s, columns %s, indexed %s\n"
                            "# E> command to `verifharness db`, E< its answer; M> command to build/engine_driver, M< its answer\n"
                            % (c.nhist, focus, c.tab, c.types, c.icols))
                    res.mismatches.append((head + c.transcript(), "engine model (Model/Engine.v) vs engine: " + str(d)))
                c.cleanup_engine()
            except Unsupported as u:
                res.broken.append("engine/model correspondence cannot run: %s" % str(u)[:300])
                c.cleanup_engine()
                nbroken += 1
                if nbroken > 3:
                    break
            except Exception as e:          # a bug of this module must not look like agreement
                res.broken.append("engine/model correspondence crashed: %s: %s" % (type(e).__name__, str(e)[:300]))
                c.cleanup_engine()
                break
    finally:
        c.close()
        x = res.extra
        x["engine_model_histories"] = x.get("engine_model_histories", 0) + c.nhist
        x["engine_model_steps"] = x.get("engine_model_steps", 0) + c.nsteps
        x["engine_model_ops"] = x.get("engine_model_ops", 0) + c.nops
        x["engine_model_mismatch_count"] = x.get("engine_model_mismatch_count", 0) + c.nmis
        k = x.setdefault("engine_model_kinds", {})
        for a, b in c.kinds.items():
            k[a] = k.get(a, 0) + b


if __name__ == "__main__":
    import argparse, json
    ap = argparse.ArgumentParser()
    ap.add_argument("--seed", type=int, default=1)
    ap.add_argument("--n", type=int, default=300)
    ap.add_argument("--focus", choices=["abort", "index", "visibility"], default=None)
    ap.add_argument("--mutate", choices=["rid", "noprefetch"], default=None,
                    help="self-test: break the translation on purpose (a mismatch must be reported)")
    ap.add_argument("--show", type=int, default=1, help="number of mismatch transcripts to print in full")
    a = ap.parse_args()
    res = Result("ENGINECORR", "cli", a.seed)
    t0 = time.time()
    run_corr(res, random.Random(a.seed), a.n, a.focus, a.mutate)
    out = dict(res.extra)
    print(json.dumps(out, indent=1, sort_keys=True))
    print("time %.1fs  mismatches %d  broken %d" % (time.time() - t0, out.get("engine_model_mismatch_count", 0), len(res.broken)))
    for b in res.broken:
        print("BROKEN:", b)
    for i, (text, why) in enumerate(res.mismatches):
        print("MISMATCH %d: %s" % (i + 1, why))
        if i < a.show:
            print(text)
    sys.exit(1 if res.mismatches or res.broken else 0)
