"""A database session mirrored by the extracted reference semantics: every
committed change is applied to both; `verify` compares table contents and the
answers of index-path and scan-path queries."""
import random
from dbsession import DB, Ref, canon_rows, scan_rows
from sqlgen import *


class Mirror:
    def __init__(self, rng, mem_kb=400):
        self.rng = rng
        self.db = DB(mem_kb=mem_kb)
        self.ref = Ref()
        self.tables = {}      # name -> (types, names, kinds)
        self.sqlname = {}     # name -> the spelling used in SQL text (table names are case-insensitive: stored lower-case)
        self.fails = []       # (what, why)
        self.nverify = 0

    def close(self):
        self.db.destroy()
        self.ref.close()

    def fail(self, what, why):
        if len(self.fails) < 5:
            self.fails.append(("# session (commands sent to `verifharness db`):\n" + "\n".join(self.db.log[-4000:]) + "\n# at: " + what, why))

    def open(self):
        r = self.db.open()
        if not r.startswith("ok"):
            self.fail("open", "database does not start: %s %s" % (r, self.db.dead))
            return False
        return True

    def q(self, name):
        return self.sqlname.get(name, name)

    def create(self, name, via_sql=True, kinds_pool="nsb", ncols=None, types=None, colnames=None, sqlname=None):
        rng = self.rng
        ncols = ncols or rng.randrange(1, 6)
        types = types or [rng.choice("iifs") for _ in range(ncols)]
        names = colnames or ["c%d" % i for i in range(ncols)]
        if sqlname and via_sql:
            self.sqlname[name] = sqlname
        # every index keeps about three pages pinned for good (header, start node, ...): stay within the pool
        nidx = sum(1 for t in self.tables.values() for k in t[2] if k != "n")
        frames = self.db.mem_kb // 4
        if 3 * (nidx + ncols) + 20 > frames:
            via_sql, kinds_pool = False, "n"
        if via_sql:
            tn = {"i": "int", "f": "float", "s": "varchar(255)"}
            r = self.db.sql("CREATE TABLE %s(%s);" % (self.q(name), ", ".join("%s %s" % (n, tn[t]) for n, t in zip(names, types))))
            kinds = ["s"] * ncols
        else:
            kinds = [rng.choice(kinds_pool) for _ in types]
            r = self.db.cmd("mktable %s %s" % (name, ",".join("%s:%s:%s" % (n, t, k) for n, t, k in zip(names, types, kinds))))
        if not r.startswith("ok"):
            self.fail("create " + name, "CREATE TABLE failed: " + r)
            return False
        self.ref.cmd("T %s %d" % (name, ncols))
        self.tables[name] = (types, names, kinds)
        return True

    def rnd_vals(self, name, small=True):
        types, names, kinds = self.tables[name]
        vals = []
        for t, k in zip(types, kinds):
            v = rnd_val(self.rng, t, small=small)
            vals.append(for_index(v, t, k))
        return vals

    def insert(self, name, vals=None):
        types, names, kinds = self.tables[name]
        vals = vals or self.rnd_vals(name)
        if all(v.literal_ok() for v in vals):
            r = self.db.sql("INSERT INTO %s(%s) VALUES (%s);" % (self.q(name), ",".join(names), ", ".join(v.sql() for v in vals)))
        else:
            r = self.db.cmd("rawinsert %s %s" % (name, " ".join(v.tok() for v in vals)))
        if r.startswith("ok"):
            self.ref.cmd("R %s %s" % (name, ",".join(v.tok() for v in vals)))
        else:
            self.fail("insert into " + name, "INSERT failed: " + r)
        return r

    def rnd_where(self, name, allow_or=False):
        types, names, kinds = self.tables[name]
        while True:
            p = rnd_pred(self.rng, types, 2) if allow_or else rnd_conj(self.rng, types, self.rng.randrange(1, 3))
            if all(l.val.literal_ok() for l in p.leaves()):
                return p

    def update(self, name):
        types, names, kinds = self.tables[name]
        p = self.rnd_where(name)
        cs = self.rng.sample(range(len(types)), self.rng.randrange(1, len(types) + 1))
        asg = []
        for c in cs:
            v = rnd_val(self.rng, types[c])
            asg.append((c, for_index(v, types[c], kinds[c])))
        if not all(v.literal_ok() for _, v in asg):
            return
        sql = "UPDATE %s SET %s WHERE %s;" % (self.q(name), ", ".join("%s = %s" % (names[c], v.sql()) for c, v in asg), p.sql(names))
        r = self.db.sql(sql)
        if r.startswith("ok"):
            self.ref.cmd("U %s %s %s" % (name, ",".join("%d=%s" % (c, v.tok()) for c, v in asg), p.rpn()))
        else:
            self.fail(sql, "UPDATE failed: " + r)

    def delete(self, name):
        types, names, kinds = self.tables[name]
        p = self.rnd_where(name)
        sql = "DELETE FROM %s WHERE %s;" % (self.q(name), p.sql(names))
        r = self.db.sql(sql)
        if r.startswith("ok"):
            self.ref.cmd("D %s %s" % (name, p.rpn()))
        else:
            self.fail(sql, "DELETE failed: " + r)

    def verify(self, name, nq=6, what=""):
        """contents + index-path and scan-path answers vs the reference"""
        types, names, kinds = self.tables[name]
        self.nverify += 1
        got = scan_rows(self.db.cmd("scan " + name))
        want = self.ref.cmd("C " + name)
        ok = True
        if got != want:
            self.fail("scan %s %s" % (name, what), "table %s differs from the committed contents: engine %s | reference %s" % (name, got[:400], want[:400]))
            ok = False
        for _ in range(nq):
            indexed = [i for i, k in enumerate(kinds) if k != "n"]
            if indexed and self.rng.random() < 0.8:
                c = self.rng.choice(indexed)
                v = rnd_val(self.rng, types[c])
                if not v.literal_ok():
                    continue
                if self.rng.random() < 0.5:
                    p = Cmp(c, "eq", v)
                else:
                    v2 = rnd_val(self.rng, types[c])
                    if not v2.literal_ok():
                        continue
                    p = Bin("and", Cmp(c, "ge", v), Cmp(c, "le", v2))
            else:
                p = self.rnd_where(name, allow_or=True)
            cols = list(range(len(types)))
            for variant, pp in (("index path", p), ("scan path", Bin("or", p, p))):
                sql = "SELECT %s FROM %s WHERE %s;" % (",".join(names), self.q(name) if self.rng.random() < 0.7 else name, pp.sql(names))
                got = canon_rows(self.db.sql(sql))
                want = self.ref.cmd("S %s %s %s" % (name, ",".join(map(str, cols)), pp.rpn()))
                if got != want:
                    self.fail(sql + " " + what, "%s query answer differs from the reference: engine %s | reference %s" % (variant, got[:300], want[:300]))
                    ok = False
        return ok

    def verify_index(self, name, what=""):
        """raw index entries vs the heap: for every indexed column the entry multiset is {(key(row), rid)}"""
        types, names, kinds = self.tables[name]
        sc = self.db.cmd("scan " + name)
        if not sc.startswith("ok:"):
            self.fail("scan " + name, "scan failed: " + sc); return False
        rows = [e.split("=", 1) for e in sc[3:].split(";")] if sc[3:] else []
        ok = True
        for c, k in enumerate(kinds):
            if k == "n":
                continue
            ix = self.db.cmd("idx %s %d" % (name, c))
            if not ix.startswith("ok:"):
                self.fail("idx %s %d %s" % (name, c, what), "index scan failed: " + ix); ok = False; continue
            got = sorted(ix[3:].split(";")) if ix[3:] else []
            want = []
            for rid, vals in rows:
                v = vals.split(",")[c]
                if v == "n":
                    v = {"i": "i:0", "f": "f:0", "s": "s:-"}[types[c]]      # NULL is indexed under the zero value
                if v == "f:2147483648":
                    v = "f:0"                                               # -0.0 is stored as +0.0 in the key (C18)
                want.append("%s@%s" % (v, rid))
            want.sort()
            if got != want:
                extra = [e for e in got if e not in want][:4]
                missing = [e for e in want if e not in got][:4]
                self.fail("idx %s %d %s" % (name, c, what), "index on %s.%s disagrees with the table: entries without a row %s, rows without an entry %s" % (name, names[c], extra, missing))
                ok = False
        return ok

    def txn_block(self, name, nstmt, commit):
        """an explicit transaction of nstmt statements on table `name` (or, given a list, each statement on one of these tables:
        one commit then carries changes, deletes in particular, of several tables), committed or aborted; mirrored only if committed"""
        pool = [name] if isinstance(name, str) else list(name)
        self.db.cmd("begin w")
        refops = []
        for _ in range(nstmt):
            name = self.rng.choice(pool)
            types, names, kinds = self.tables[name]
            r = self.rng.random()
            if r < 0.4:
                vals = self.rnd_vals(name)
                if not all(v.literal_ok() for v in vals):
                    continue
                sql = "INSERT INTO %s(%s) VALUES (%s);" % (self.q(name), ",".join(names), ", ".join(v.sql() for v in vals))
                ro = "R %s %s" % (name, ",".join(v.tok() for v in vals))
            elif r < 0.75:
                p = self.rnd_where(name)
                cs = self.rng.sample(range(len(types)), self.rng.randrange(1, len(types) + 1))
                asg = []
                for c in cs:
                    v = rnd_val(self.rng, types[c], small=False)
                    asg.append((c, for_index(v, types[c], kinds[c])))
                if not all(v.literal_ok() for _, v in asg):
                    continue
                sql = "UPDATE %s SET %s WHERE %s;" % (self.q(name), ", ".join("%s = %s" % (names[c], v.sql()) for c, v in asg), p.sql(names))
                ro = "U %s %s %s" % (name, ",".join("%d=%s" % (c, v.tok()) for c, v in asg), p.rpn())
            else:
                p = self.rnd_where(name)
                sql = "DELETE FROM %s WHERE %s;" % (self.q(name), p.sql(names))
                ro = "D %s %s" % (name, p.rpn())
            a = self.db.cmd("tsql w " + sql)
            if a.startswith("ok"):
                refops.append(ro)
            elif a == "aborted":
                commit = False
                break
            else:
                self.fail(sql, "statement inside a transaction failed: " + a)
                commit = False
                break
        if commit:
            self.db.cmd("commit w")
            for ro in refops:
                self.ref.cmd(ro)
        else:
            self.db.cmd("abort w")
        return commit

    def restart(self, clean=True):
        r = self.db.cmd("close" if clean else "crash", timeout=60)
        if not r.startswith("ok"):
            self.fail("close" if clean else "crash", "shutdown failed: " + r)
            return False
        self.db.restart_process() if not clean and self.rng.random() < 0.5 else None
        return self.open()
