"""Recovery correspondence: the extracted recovery model (coq/Model/Wal.v) is run on the
crash image's durable log and table pages and compared slot by slot with the pages the
engine's recovery writes (taken from the recovery run's own I/O trace), and the
well-formedness predicates the theorems assume are evaluated on the real log/pages."""
import os, subprocess
from vlib import BUILD, big_stack
from crashlib import *


def table_pages(log):
    """pages introduced by NewTablePage records in the durable log"""
    return sorted({r["page"] for r in parse_log(log) if r["type"] == 9})


def driver_input(img, recovery_trace):
    pages = table_pages(img.log)
    lines = ["LOG " + bytes(img.log).hex()]
    for pid in pages:
        off = pid * PAGE
        if off + PAGE <= len(img.db):
            lines.append("PAGE %d %s" % (pid, bytes(img.db[off:off + PAGE]).hex()))
    got = {}
    for e in recovery_trace:
        if e[0] == "G":
            break
        if e[0] == "P" and e[1] in pages:
            got[e[1]] = e[2]
    for pid in sorted(got):
        lines.append("GOT %d %s" % (pid, got[pid].hex()))
    lines.append("CHECK")
    return "\n".join(lines) + "\n", len(got)


def run_driver(text):
    p = subprocess.run([os.path.join(BUILD, "wal_driver")], input=text, capture_output=True, text=True, timeout=600, preexec_fn=big_stack)
    return p.returncode, p.stdout.strip().split("\n")
