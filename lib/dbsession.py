"""Interactive sessions with the Go harness ('db' sub-command) and with the
extracted reference semantics (build/sql_driver)."""
import os, select, shutil, subprocess, tempfile, time
from vlib import BUILD, HARNESS_BIN


class Proc:
    def __init__(self, argv, cwd=None):
        err = open(os.environ["VERIF_STDERR"], "ab") if os.environ.get("VERIF_STDERR") else subprocess.DEVNULL
        self.p = subprocess.Popen(argv, stdin=subprocess.PIPE, stdout=subprocess.PIPE, stderr=err,
                                  cwd=cwd, bufsize=0)
        self.buf = b""

    def ask(self, line, timeout=20.0):
        """Send one line, read one line. Returns None on timeout or death (process killed)."""
        try:
            self.p.stdin.write(line.encode() + b"\n")
            self.p.stdin.flush()
        except (BrokenPipeError, OSError):
            return None
        end = time.time() + timeout
        while b"\n" not in self.buf:
            left = end - time.time()
            if left <= 0:
                self.kill()
                return None
            r, _, _ = select.select([self.p.stdout], [], [], left)
            if not r:
                self.kill()
                return None
            chunk = os.read(self.p.stdout.fileno(), 1 << 16)
            if not chunk:
                return None
            self.buf += chunk
        line, self.buf = self.buf.split(b"\n", 1)
        return line.decode(errors="replace")

    def kill(self):
        try:
            self.p.kill()
            self.p.wait(timeout=5)
        except Exception:
            pass

    def close(self):
        try:
            self.p.stdin.close()
            self.p.wait(timeout=5)
        except Exception:
            self.kill()


# breaches of the pool users' contract (hook H5) seen in any session of this process: (breach text, tail of the session log)
CONTRACT = []


class DB:
    """A database directory plus a harness process; restartable."""

    def __init__(self, mem_kb=400, workdir=None):
        os.makedirs(os.path.join(BUILD, "tmp"), exist_ok=True)
        self.dir = workdir or tempfile.mkdtemp(prefix="db_", dir=os.path.join(BUILD, "tmp"))
        self.own = workdir is None
        self.mem_kb = mem_kb
        self.proc = None
        self.log = []          # commands sent (for replay files)
        self.dead = None       # reason the session died

    def start(self):
        self.proc = Proc([HARNESS_BIN, "db", "-"], cwd=self.dir)

    def cmd(self, line, timeout=20.0):
        if self.proc is None:
            self.start()
        self.log.append(line)
        r = self.proc.ask(line, timeout)
        if r is None:
            self.dead = "no answer to %r (hang or process death)" % line
            self.proc = None
            return "dead"
        return r

    def open(self):
        return self.cmd("open %s/db %d" % (self.dir, self.mem_kb), timeout=60)

    def sql(self, text, timeout=20.0, retries=3):
        """one auto-commit statement; an 'aborted' answer is retried, as the engine's own front end (ExecuteSQL) does"""
        r = self.cmd("sql " + text, timeout)
        while r == "aborted" and retries > 0:
            self.naborted = getattr(self, "naborted", 0) + 1
            retries -= 1
            time.sleep(0.002)
            r = self.cmd("sql " + text, timeout)
        return r

    def collect_contract(self):
        """ask the live harness process for recorded breaches of the pool users' contract (hook H5)"""
        if self.proc is None or self.dead:
            return
        r = self.proc.ask("contract", 10)
        if r and r.startswith("ok:") and r[3:]:
            for b in r[3:].split("|")[:5]:
                if len(CONTRACT) < 20:
                    CONTRACT.append((b, "\n".join(l[:300] for l in self.log[-60:])))

    def restart_process(self):
        """Kill the harness process (a real crash: nothing flushed, files left as they are) and start a new one."""
        self.collect_contract()
        if self.proc:
            self.proc.kill()
        self.proc = None
        self.log.append("#kill")

    def destroy(self):
        self.collect_contract()
        if self.proc:
            self.proc.kill()
        if self.own:
            shutil.rmtree(self.dir, ignore_errors=True)


class Ref:
    def __init__(self):
        self.proc = Proc([os.path.join(BUILD, "sql_driver")])

    def cmd(self, line):
        r = self.proc.ask(line, 30)
        if r is None:
            raise RuntimeError("reference driver died on %r" % line)
        return r

    def close(self):
        self.proc.close()


def canon_rows(ans):
    """'ok:r;r;r' -> sorted row list (multiset); other answers returned as is."""
    if not ans.startswith("ok:"):
        return ans
    body = ans[3:]
    rows = sorted(body.split(";")) if body else []
    return "ok:" + ";".join(rows)


def scan_rows(ans):
    """answer of 'scan': drop the rids, sort."""
    if not ans.startswith("ok:"):
        return ans
    body = ans[3:]
    rows = sorted(e.split("=", 1)[1] for e in body.split(";")) if body else []
    return "ok:" + ";".join(rows)
