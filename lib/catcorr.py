"""Catalog persistence: extracted model (coq/Model/CatalogRows.v, build/catrows_driver) against the real catalog
(`verifharness catrows`) on random histories.

A history is 1..12 CREATE TABLEs (one history in ten: 20..44, with long table names and few columns, so that the
table catalog outgrows its first page as well) interleaved with 0..3 clean restarts (Shutdown + NewSamehadaDB on the
same files).
A create goes through SQL DDL (every column gets a skip-list index; a name that is already in the catalog, in any
letter case, is refused) or straight through catalog.CreateTable (1..20 columns, sometimes none; Boolean / Integer /
Float / Varchar; no index, unique skip list, skip list, hash, B-tree; now and then a name that is already taken, a
column name with a '.', a header page id passed for an index kind that ignores it, an indexed column with an illegal
index kind = a panic inside NewTableMetadata).  Names are mixed case, long, prefixes of each other, with digits and
underscores.

Every step is made on the engine first.  What the engine decides and the model takes as inputs is read off the
engine's catalog view: the first heap page of the new table and the header pages its hash / B-tree index
constructors reported.  Compared after EVERY step:
  trows  every row of the table catalog (heap of page 0) in heap order with its position <page index>.<slot>;
  crows  every row of the columns catalog (heap of page 1) likewise, every field;
  view   GetTableByOID for every oid (oid, name, first page, per column name / type / lengths / offset / has-index /
         index kind / index header page) and GetTableByName for every name (which oid is found under it);
and the answer of the create itself (oid handed out / refused / panic).
The rows' positions check the model's page accounting: after a restart InsertTuple starts at the first page again,
so later rows land in the free space of earlier pages and heap order differs from creation order.
"""
import os, random, shutil, sys, tempfile, time

sys.path.insert(0, os.path.dirname(os.path.abspath(__file__)))
from vlib import BUILD, HARNESS_BIN, Result
from dbsession import Proc

HARNESS = os.environ.get("CATROWS_HARNESS", HARNESS_BIN)
MODEL_BIN = os.environ.get("CATROWS_DRIVER", os.path.join(BUILD, "catrows_driver"))
MEM_KB = 48000          # 12000 frames: every skip-list index keeps about three pages pinned, and again after each restart

T_BOOL, T_INT, T_FLOAT, T_VARCHAR = 1, 4, 7, 8
K_NONE, K_USKIP, K_SKIP, K_HASH, K_BTREE = 0, 1, 2, 3, 4
SQL_TYPES = [("int", T_INT), ("float", T_FLOAT), ("varchar(255)", T_VARCHAR), ("varchar(20)", T_VARCHAR),
             ("tinyint", T_INT), ("bigint", T_FLOAT)]


class Diverged(Exception):
    pass


def hx(s):
    return s.encode().hex() if s else "-"


class Corr:
    def __init__(self, res, rng):
        self.res, self.rng = res, rng
        os.makedirs(os.path.join(BUILD, "tmp"), exist_ok=True)
        self.dir = tempfile.mkdtemp(prefix="catrows_", dir=os.path.join(BUILD, "tmp"))
        self.engine = None
        self.model = Proc([MODEL_BIN])
        self.log = []
        self.nhist = self.nmis = 0
        self.stat = {}

    def count(self, k, n=1):
        self.stat[k] = self.stat.get(k, 0) + n

    # ---------------------------------------------------------------- processes
    def start_engine(self):
        self.stop_engine()
        d = tempfile.mkdtemp(prefix="e_", dir=self.dir)
        self.edir = d
        self.engine = Proc([HARNESS, "catrows", "-", d, str(MEM_KB)])

    def stop_engine(self):
        if self.engine is not None:
            self.engine.kill()
            self.engine = None
            shutil.rmtree(self.edir, ignore_errors=True)

    def close(self):
        self.stop_engine()
        self.model.close()
        shutil.rmtree(self.dir, ignore_errors=True)

    def E(self, line, timeout=120.0):
        self.log.append("E> " + line)
        r = self.engine.ask(line, timeout)
        self.log.append("E< " + str(r))
        if r is None:
            self.engine = None
            raise Diverged("the engine does not answer %r (hang or process death)" % line)
        return r

    def M(self, line):
        self.log.append("M> " + line)
        r = self.model.ask(line, 60.0)
        self.log.append("M< " + str(r))
        if r is None:
            self.model = Proc([MODEL_BIN])
            raise Diverged("the model driver does not answer %r" % line)
        return r

    def transcript(self):
        return "\n".join(self.log) + "\n"

    # ---------------------------------------------------------------- comparison
    def compare(self, what):
        for cmd in ("trows", "crows", "view"):
            e, m = self.E(cmd), self.M(cmd)
            if e != m:
                raise Diverged("%s: `%s` differs: %s" % (what, cmd, first_difference(cmd, e, m)))
        return e    # the engine's view

    @staticmethod
    def parse_view(v):
        """oid -> (name hex, first page, [column fields]) ; name hex -> oid"""
        by_oid, by_name = {}, {}
        body = v[3:] if v.startswith("ok:") else ""
        for ent in body.split():
            k, val = ent.split("=", 1)
            if k[0] == "O":
                oid, name, first, cols = val.split("|")
                by_oid[int(oid)] = (name, int(first), [c.split(":") for c in cols.split(";") if c])
            else:
                by_name[k[1:]] = val
        return by_oid, by_name

    # ---------------------------------------------------------------- generators
    def ident(self, maxlen):
        rng = self.rng
        n = rng.choice([1, 2, 3, 5, 8, 13, 21, 40, maxlen])
        n = max(1, min(n, maxlen))
        alpha = "abcdefghijklmnopqrstuvwxyzABCDEFGHIJKLMNOPQRSTUVWXYZ"
        rest = alpha + "0123456789_"
        return "q" + "".join(rng.choice(rest) for _ in range(n - 1)) if n > 1 else rng.choice("qwxyz")

    def table_name(self, sql):
        n = self.table_name1(sql)
        if sql:
            n = n.replace(".", "") or "q"     # `a.b` is schema.table in SQL
            if n[0] in "0123456789_":
                n = "q" + n
        return n

    def table_name1(self, sql):
        rng = self.rng
        r = rng.random()
        if self.names and r < 0.12:
            # a name already taken, in another letter case
            n = rng.choice(self.names)
            self.count("name_taken_again")
            return "".join(c.upper() if rng.random() < 0.5 else c.lower() for c in n)
        if self.names and r < 0.35:
            # an earlier name extended / cut: names that are prefixes of each other
            n = rng.choice(self.names)
            if rng.random() < 0.5 and len(n) > 1:
                return n[:rng.randrange(1, len(n))]
            return n + rng.choice(["1", "_", "x", "_2", "Z9"])
        n = self.ident(60 if sql else rng.choice([30, 120, 200]))
        if not sql and rng.random() < 0.15:
            i = rng.randrange(1, len(n) + 1)
            n = n[:i] + "." + n[i:]         # a table name with a '.' (catalog API only)
        return n

    def columns(self, sql):
        rng = self.rng
        ncols = rng.choice([1, 1, 2, 3, 4, 5, 6, 8, 12, 20, rng.randrange(1, 21)])
        if not sql and rng.random() < 0.05:
            ncols = 0
        cols, seen = [], set()
        for i in range(ncols):
            while True:
                cn = self.ident(12 if sql else rng.choice([8, 40, 100]))
                if cn.lower() not in seen:
                    break
            seen.add(cn.lower())
            if sql:
                tn, ty = rng.choice(SQL_TYPES)
                cols.append(dict(name=cn, sqltype=tn, type=ty, hasidx=1, kind=K_SKIP, hdr=-1))
                continue
            if rng.random() < 0.08:
                j = rng.randrange(1, len(cn) + 1)
                cn = cn[:j] + "." + cn[j:]    # not prefixed with the table name by attachTableNameToColumnsName
            ty = rng.choice([T_BOOL, T_INT, T_INT, T_FLOAT, T_VARCHAR, T_VARCHAR])
            kind = rng.choice([K_NONE, K_NONE, K_USKIP, K_SKIP, K_SKIP, K_HASH, K_BTREE])
            hasidx = 1 if kind != K_NONE else 0
            hdr = -1
            r = rng.random()
            if r < 0.04:
                hasidx = 0                     # an index kind without the has-index flag: stored as it is, no index
            elif r < 0.08 and kind in (K_NONE, K_USKIP, K_SKIP):
                hdr = rng.choice([0, 7, 77, 123456])   # ignored by these kinds, stored as it is
            cols.append(dict(name=cn, type=ty, hasidx=hasidx, kind=kind, hdr=hdr))
        if not sql and cols and rng.random() < 0.03:
            c = rng.choice(cols)
            c["hasidx"], c["kind"] = 1, rng.choice([0, 5, 9])   # NewTableMetadata panics
        return cols

    # ---------------------------------------------------------------- one history
    def history(self):
        rng = self.rng
        self.log = []
        self.start_engine()
        if self.E("open") != "ok":
            raise Diverged("the database does not start")
        self.M("boot")
        self.names = []
        self.nindexes = 0
        view = self.compare("bootstrap")
        ncreate = rng.randrange(1, 13)
        nrestart = rng.choice([0, 1, 1, 2, 2, 3])
        # one history in ten: many tables with long names and few columns through the catalog API, so that the TABLE
        # catalog grows beyond its first page too (and names taken twice meet rows placed out of creation order)
        self.many = rng.random() < 0.1
        if self.many:
            ncreate = rng.randrange(20, 45)
        steps = ["C"] * ncreate + ["R"] * nrestart
        rng.shuffle(steps)
        created = restarts = after_restart = 0
        shape = []
        for st in steps:
            if st == "R":
                if self.E("restart", 600.0) != "ok":
                    raise Diverged("clean restart failed")
                self.M("restart")
                restarts += 1
                self.count("restarts")
                shape.append("R")
                view = self.compare("restart %d" % restarts)
                continue
            sql = rng.random() < (0.1 if self.many else 0.45)
            name = self.table_name(sql)
            cols = self.columns(sql)
            if self.many and not sql:
                cols = cols[:rng.choice([0, 1, 2])]
                if rng.random() < 0.7 and len(name) < 100:
                    name = name + "_" + "".join(rng.choice("abcXYZ019_") for _ in range(rng.randrange(100, 240)))
            # stay within the pool: about three pinned pages per skip-list index, again after every restart
            if 3 * (self.nindexes + len(cols)) * (nrestart + 1) + 200 > MEM_KB // 4:
                for c in cols:
                    if c["kind"] in (K_USKIP, K_SKIP) and not sql:
                        c["kind"], c["hasidx"] = K_NONE, 0
                if sql:
                    cols = cols[:2]
            before_oid, _ = self.parse_view(view)
            if sql:
                e = self.E("sql CREATE TABLE %s (%s)" % (name, ", ".join("%s %s" % (c["name"], c["sqltype"]) for c in cols)))
                self.count("create_sql")
            else:
                e = self.E("api %s %s" % (hx(name), ",".join("%s:%d:%d:%d:%d" % (hx(c["name"]), c["type"], c["hasidx"], c["kind"], c["hdr"])
                                                              for c in cols) or "-"))
                self.count("create_api")
            eview = self.E("view")
            after_oid, _ = self.parse_view(eview)
            new = sorted(set(after_oid) - set(before_oid))
            first, hdrs = 0, [-1] * len(cols)
            if len(new) > 1:
                raise Diverged("one create added %d tables to the oid map" % len(new))
            if new:
                ent = after_oid[new[0]]
                first = ent[1]
                if len(ent[2]) != len(cols):
                    raise Diverged("create %s: %d columns asked, %d in the catalog" % (name, len(cols), len(ent[2])))
                hdrs = [int(c[7]) for c in ent[2]]
            m = self.M("create %d %s %d %s" % (1 if sql else 0, hx(name), first,
                                               ",".join("%s:%d:%d:%d:%d:%d" % (hx(c["name"]), c["type"], c["hasidx"], c["kind"], c["hdr"], h)
                                                        for c, h in zip(cols, hdrs)) or "-"))
            # the answer of the create
            if e.startswith("err:already"):
                ekind = "err:exists"
            elif e.startswith("panic:illegal index kind"):
                ekind = "panic"
            elif e == "ok" and new:
                ekind = "ok:%d" % new[0]
            elif e.startswith("ok:"):
                ekind = e
            else:
                ekind = e
            if ekind != m:
                raise Diverged("create %s: the engine answers %r, the model %r" % (name, e, m))
            if m.startswith("ok:"):
                created += 1
                if restarts:
                    after_restart += 1
                self.names.append(name)
                self.nindexes += sum(1 for c in cols if c["hasidx"] and c["kind"] in (K_USKIP, K_SKIP))
                self.count("columns", len(cols))
                shape.append("S" if sql else "A")
            elif m == "panic":
                self.count("create_panics")
                shape.append("P")
            else:
                self.count("create_refused")
                shape.append("X")
            view = self.compare("create %s" % name)
        # what the history exercised
        t, c = self.E("trows"), self.E("crows")
        tpages = 1 + max([int(r.split(".")[0]) for r in t[3:].split(";") if r] or [0])
        cpages = 1 + max([int(r.split(".")[0]) for r in c[3:].split(";") if r] or [0])
        oids = [int(r.split("=")[1].split(",")[0]) for r in c[3:].split(";") if r]
        reordered = any(a > b for a, b in zip(oids, oids[1:]))
        if reordered:
            self.count("histories_heap_order_differs_from_creation_order")
        if cpages > 1:
            self.count("histories_columns_catalog_multi_page")
        if tpages > 1:
            self.count("histories_table_catalog_multi_page")
        toids = [int(r.split("=")[1].split(",")[0]) for r in t[3:].split(";") if r]
        if any(a > b for a, b in zip(toids, toids[1:])):
            self.count("histories_table_catalog_order_differs_from_creation_order")
        self.stat["max_table_catalog_pages"] = max(self.stat.get("max_table_catalog_pages", 0), tpages)
        if self.M("guard") == "ok:0":
            self.count("histories_with_two_tables_under_one_name")
        self.count("tables_created", created)
        self.count("tables_created_after_a_restart", after_restart)
        self.stat["max_columns_catalog_pages"] = max(self.stat.get("max_columns_catalog_pages", 0), cpages)
        self.E("close")
        key = "".join(shape) + "|%d|%d|%s" % (cpages, tpages, c[-200:])
        self.res.note_case(key, after_restart > 0 or cpages > 1)


def probe_name_flip(res=None):
    """The machine-checked witness of Props/C10Catalog.v restart_keeps_name_map_refuted ([cr_w_flip]) on the real engine
    and on the model: 18 tables with 200-byte names, table "ab", restart, table "AB" through the catalog API, restart.
    Returns (engine_flips, model_flips, detail): which oid GetTableByName("ab") answers before / after the last restart."""
    c = Corr(res, random.Random(0))
    try:
        c.start_engine()
        if c.E("open") != "ok":
            raise Diverged("the database does not start")
        c.M("boot")
        view = c.E("view")

        def api(name):
            nonlocal view
            before, _ = c.parse_view(view)
            c.E("api %s -" % hx(name))
            view = c.E("view")
            after, _ = c.parse_view(view)
            new = sorted(set(after) - set(before))
            c.M("create 0 %s %d -" % (hx(name), after[new[0]][1]))

        for k in range(18):
            api("a" * 199 + chr(97 + k))
        api("ab")
        c.E("restart", 600.0); c.M("restart")
        view = c.E("view")
        api("AB")
        e1, m1 = c.E("byname " + hx("ab")), c.M("byname " + hx("ab"))
        c.E("restart", 600.0); c.M("restart")
        e2, m2 = c.E("byname " + hx("ab")), c.M("byname " + hx("ab"))
        c.E("close")
        oid = lambda a: a[3:].split("|")[0]
        detail = "GetTableByName(ab): engine oid %s then %s after the restart; model oid %s then %s" % (oid(e1), oid(e2), oid(m1), oid(m2))
        return oid(e1) != oid(e2), oid(m1) != oid(m2), detail
    finally:
        c.close()


def first_difference(cmd, e, m):
    sep = " " if cmd == "view" else ";"
    es, ms = e[3:].split(sep), m[3:].split(sep)
    for i, (a, b) in enumerate(zip(es, ms)):
        if a != b:
            return "entry %d: engine %s, model %s" % (i, a[:400], b[:400])
    if len(es) != len(ms):
        extra = es[len(ms):] if len(es) > len(ms) else ms[len(es):]
        return "%d entries on the engine, %d in the model; first extra: %s" % (len(es), len(ms), extra[0][:400])
    return "engine %s, model %s" % (e[:200], m[:200])


def run_corr(res, rng, nhist):
    """see the module header; appends (replay_text, why) to res.mismatches (at most 5) and a summary to res.extra"""
    if not os.path.exists(MODEL_BIN):
        res.broken.append("%s is missing (extracted catalog persistence model)" % MODEL_BIN)
        return
    if not os.path.exists(HARNESS):
        res.broken.append("%s is missing" % HARNESS)
        return
    c = Corr(res, rng)
    try:
        for _ in range(nhist):
            try:
                c.history()
                c.nhist += 1
            except Diverged as d:
                c.nhist += 1
                c.nmis += 1
                if len(res.mismatches) < 5:
                    head = ("# catalog persistence model/engine correspondence (lib/catcorr.py), history %d of this run\n"
                            "# E> command to `verifharness catrows - <dir> %d`, E< its answer; M> command to build/catrows_driver, M< its answer\n"
                            % (c.nhist, MEM_KB))
                    res.mismatches.append((head + c.transcript(), "catalog persistence model (Model/CatalogRows.v) vs engine: " + str(d)))
            except Exception as ex:          # a bug of this module must not look like agreement
                res.broken.append("catalog persistence correspondence crashed: %s: %s" % (type(ex).__name__, str(ex)[:300]))
                break
    finally:
        c.close()
        x = res.extra.setdefault("catalog_rows_histories", {})
        x["histories"] = x.get("histories", 0) + c.nhist
        x["mismatch_count"] = x.get("mismatch_count", 0) + c.nmis
        for k, v in c.stat.items():
            if k.startswith("max_"):
                x[k] = max(x.get(k, 0), v)
            else:
                x[k] = x.get(k, 0) + v


if __name__ == "__main__":
    import argparse, json
    ap = argparse.ArgumentParser()
    ap.add_argument("--seed", type=int, default=1)
    ap.add_argument("--n", type=int, default=100)
    ap.add_argument("--show", type=int, default=1, help="number of mismatch transcripts to print in full")
    ap.add_argument("--probe", action="store_true", help="replay the name-flip witness (restart_keeps_name_map_refuted) on engine and model")
    a = ap.parse_args()
    if a.probe:
        print(probe_name_flip())
        sys.exit(0)
    res = Result("CATCORR", "cli", a.seed)
    t0 = time.time()
    run_corr(res, random.Random(a.seed), a.n)
    print(json.dumps(res.extra, indent=1, sort_keys=True))
    print("time %.1fs  evaluations %d  nontrivial %d  mismatches %d  broken %d" % (
        time.time() - t0, res.evaluations, len(res.nontrivial), len(res.mismatches), len(res.broken)))
    for b in res.broken:
        print("BROKEN:", b)
    for i, (text, why) in enumerate(res.mismatches):
        print("MISMATCH %d: %s" % (i + 1, why))
        if i < a.show:
            print(text[-6000:] if len(text) > 6000 else text)
    sys.exit(1 if res.mismatches or res.broken else 0)
