"""Common machinery of bin/check: builds, the proof stage, running the Go
harness and the extracted model side by side, the decision procedure and the
evidence file."""
import fcntl, hashlib, json, os, random, re, subprocess, sys, time

VERIF = os.path.dirname(os.path.dirname(os.path.abspath(__file__)))
REPO = os.environ.get("VERIF_REPO", "/repo")
COQ = os.path.join(VERIF, "coq")
BUILD = os.path.join(VERIF, "build")
HARNESS_SRC = os.path.join(VERIF, "harness")
HARNESS_BIN = os.path.join(BUILD, "verifharness")
EVID = os.path.join(VERIF, "evidence")
REPLAYS = os.path.join(BUILD, "replays")
KNOWN = os.path.join(VERIF, "known_findings.json")

GOENV = dict(os.environ, GOFLAGS="-mod=mod", GOPROXY="off", GOSUMDB="off",
             GOTOOLCHAIN="local", CGO_ENABLED="0")

ALLOWED_AXIOMS = {
    # axioms declared by the standard library itself; each is named in DESIGN.md §7
    "functional_extensionality_dep", "proof_irrelevance", "classic",
    "JMeq_eq", "eq_rect_eq", "Eqdep.Eq_rect_eq.eq_rect_eq",
    "ClassicalDedekindReals.sig_forall_dec", "ClassicalDedekindReals.sig_not_dec",
    "FunctionalExtensionality.functional_extensionality_dep",
    "Classical_Prop.classic", "ProofIrrelevance.proof_irrelevance",
}

FORBIDDEN = re.compile(
    r"\b(Admitted|admit|Axiom|Axioms|Parameter|Parameters|Conjecture|Conjectures|"
    r"Admit\s+Obligations|bypass_check|Unset\s+Guard\s+Checking|Unset\s+Positivity\s+Checking|"
    r"Unset\s+Universe\s+Checking|type-in-type|impredicative-set)\b")


def sh(cmd, cwd=None, timeout=None, env=None, input=None):
    """Run a command, return (rc, stdout+stderr)."""
    try:
        p = subprocess.run(cmd, cwd=cwd, timeout=timeout, env=env, input=input,
                           stdout=subprocess.PIPE, stderr=subprocess.STDOUT,
                           shell=isinstance(cmd, str), text=True, errors="replace")
        return p.returncode, p.stdout
    except subprocess.TimeoutExpired as e:
        out = e.stdout if isinstance(e.stdout, str) else (e.stdout or b"").decode(errors="replace")
        return 124, out + "\n[timeout after %ss]" % timeout


class Lock:
    def __init__(self, name):
        os.makedirs(BUILD, exist_ok=True)
        self.path = os.path.join(BUILD, name + ".lock")

    def __enter__(self):
        self.f = open(self.path, "w")
        fcntl.flock(self.f, fcntl.LOCK_EX)

    def __exit__(self, *a):
        fcntl.flock(self.f, fcntl.LOCK_UN)
        self.f.close()


# ---------------------------------------------------------------- builds

def gen_params():
    rc, out = sh([os.path.join(VERIF, "bin", "gen_params")], timeout=60)
    return rc == 0, out.strip()


def coq_makefile():
    mk = os.path.join(COQ, "Makefile")
    proj = os.path.join(COQ, "_CoqProject")
    if not os.path.exists(mk) or os.path.getmtime(mk) < os.path.getmtime(proj):
        sh("coq_makefile -f _CoqProject -o Makefile", cwd=COQ, timeout=120)


def coq_build(targets=None, timeout=3000):
    """Full .vo build (never -vos/-vok) of the given targets (default: all)."""
    coq_makefile()
    cmd = ["make", "-j16"] + (targets or [])
    rc, out = sh(cmd, cwd=COQ, timeout=timeout)
    return rc == 0, out


def ocaml_build(timeout=900):
    rc, out = sh(["make", "-C", os.path.join(VERIF, "ocaml")], timeout=timeout)
    return rc == 0, out


def go_build(timeout=1800):
    """Rebuild the harness against /repo's current working tree, hooks on."""
    rc, out = sh("cp %s/lib/go.sum %s/go.sum && go build -tags verif -o %s ." %
                 (REPO, HARNESS_SRC, HARNESS_BIN), cwd=HARNESS_SRC, timeout=timeout, env=GOENV)
    return rc == 0, out


def setup_all():
    """MANIFEST.setup_cmd: full clean build of everything from files on disk."""
    with Lock("build"):
        ok, out = gen_params()
        print(out)
        if not ok:
            return 1
        sh("rm -f Makefile Makefile.conf .Makefile.d", cwd=COQ)
        sh("find . -name '*.vo' -o -name '*.glob' -o -name '*.vos' -o -name '*.vok' -o -name '.*.aux' | xargs rm -f", cwd=COQ)
        ok, out = coq_build()
        print(out[-3000:])
        if not ok:
            print("setup: coq build failed")
            return 1
        ok, out = ocaml_build()
        print(out[-2000:])
        if not ok:
            print("setup: ocaml build failed")
            return 1
        ok, out = go_build()
        print(out[-2000:])
        if not ok:
            print("setup: go harness build failed")
            return 1
    return 0


# ---------------------------------------------------------------- proof stage

# further statement files that belong to a property (built, listed and checked together with Props/<prop>.v)
EXTRA_PROPS = {"C18": ["C18Float"], "C12": ["C12Atomic"], "C17": ["C17SkipList", "C17Hash", "C17Stopper"], "C20": ["C20Startup"], "C14": ["C14Heap"], "C06": ["C06Tuple"], "C10": ["C10Catalog"], "C11": ["C11TmpPage"], "C08": ["C08Link"], "C13": ["C13Alloc", "C13Clock", "C13Disk"], "C01": ["C01LogRead"]}


def props_files(prop):
    return [prop] + [f for f in EXTRA_PROPS.get(prop, []) if os.path.exists(os.path.join(COQ, "Props", f + ".v"))]


def theorems_of(prop):
    """[(file, theorem)] of every statement file of the property"""
    out = []
    for f in props_files(prop):
        src = open(os.path.join(COQ, "Props", f + ".v")).read()
        src = re.sub(r"\(\*.*?\*\)", "", src, flags=re.S)
        out += [(f, t) for t in re.findall(r"^\s*(?:Theorem|Corollary)\s+([A-Za-z_][\w']*)", src, flags=re.M)]
    return out


def scan_forbidden():
    bad = []
    for root, _, files in os.walk(COQ):
        for fn in files:
            if not fn.endswith(".v"):
                continue
            p = os.path.join(root, fn)
            src = open(p, errors="replace").read()
            src_nc = re.sub(r"\(\*.*?\*\)", lambda m: " " * len(m.group(0)), src, flags=re.S)
            for m in FORBIDDEN.finditer(src_nc):
                line = src_nc.count("\n", 0, m.start()) + 1
                bad.append("%s:%d:%s" % (os.path.relpath(p, VERIF), line, m.group(0)))
            # Variable / Hypothesis outside a Section
            depth = 0
            for i, l in enumerate(src_nc.split("\n"), 1):
                if re.match(r"\s*Section\b", l):
                    depth += 1
                elif re.match(r"\s*End\b", l) and depth > 0:
                    depth -= 1
                elif depth == 0 and re.match(r"\s*(Variable|Variables|Hypothesis|Hypotheses|Context)\b", l):
                    bad.append("%s:%d:%s" % (os.path.relpath(p, VERIF), i, l.strip()[:40]))
    return bad


def proof_stage(prop):
    """Build the closure of Props/<prop>.v, list its theorems, print the
    assumptions of each and check them against the allowed list."""
    res = {"obligations": 0, "discharged": 0, "theorems": [], "axioms": {}, "errors": [],
           "checker_cmd": "make -C coq Props/%s.vo (coqc 8.16.1, full .vo build) + Print Assumptions for each theorem" % prop}
    thms = theorems_of(prop)
    res["obligations"] = len(thms)
    res["theorems"] = [t for _, t in thms]
    ok, out = coq_build(["Props/%s.vo" % f for f in props_files(prop)], timeout=2400)
    if not ok:
        m = re.findall(r'File "([^"]+)", line (\d+)[^\n]*\n(Error:[^\n]*(?:\n[^\n]+){0,3})', out)
        res["errors"].append("coq build failed: " + ("; ".join("%s:%s %s" % (a, b, c.replace("\n", " ")) for a, b, c in m) or out[-800:]))
        return res
    bad = scan_forbidden()
    if bad:
        res["errors"].append("forbidden constructs: " + ", ".join(bad[:10]))
    tmpd = os.path.join(BUILD, "pa")
    os.makedirs(tmpd, exist_ok=True)
    f = os.path.join(tmpd, "PA_%s.v" % prop)
    with open(f, "w") as fh:
        for f2 in props_files(prop):
            fh.write("From SDB Require Props.%s.\n" % f2)
        for f2, t in thms:
            fh.write('Goal True. idtac "@@THM %s". exact I. Qed.\nPrint Assumptions SDB.Props.%s.%s.\n' % (t, f2, t))
    rc, out = sh(["coqc", "-Q", COQ, "SDB", f], timeout=600)
    if rc != 0:
        res["errors"].append("Print Assumptions run failed: " + out[-500:])
        return res
    blocks = re.split(r"@@THM (\S+)\n", out)
    # blocks: [pre, name1, body1, name2, body2...]
    for i in range(1, len(blocks) - 1, 2):
        name, body = blocks[i], blocks[i + 1]
        if "Closed under the global context" in body:
            res["axioms"][name] = []
            res["discharged"] += 1
            continue
        axs = [a for a in re.findall(r"^([A-Za-z_][\w\.']*)\s*:", body, flags=re.M) if a != "Axioms"]
        res["axioms"][name] = axs
        notallowed = [a for a in axs if a not in ALLOWED_AXIOMS and a.split(".")[-1] not in ALLOWED_AXIOMS]
        if notallowed:
            res["errors"].append("theorem %s depends on non-library axioms: %s" % (name, notallowed))
        else:
            res["discharged"] += 1
    if bad:
        res["discharged"] = 0
    return res


# ---------------------------------------------------------------- running both sides

def run_harness(sub, cases_text, extra=None, timeout=600):
    """Run the Go harness; returns (rc, stdout). The engine's own diagnostics go to stderr and are dropped."""
    os.makedirs(os.path.join(BUILD, "tmp"), exist_ok=True)
    try:
        p = subprocess.run([HARNESS_BIN, sub, "-"] + (extra or []), input=cases_text, timeout=timeout,
                           cwd=os.path.join(BUILD, "tmp"), stdout=subprocess.PIPE, stderr=subprocess.PIPE,
                           text=True, errors="replace")
        if p.returncode != 0:
            return p.returncode, p.stdout + "\n[stderr tail] " + p.stderr[-1500:]
        return 0, p.stdout
    except subprocess.TimeoutExpired as e:
        out = e.stdout if isinstance(e.stdout, str) else (e.stdout or b"").decode(errors="replace")
        return 124, out + "\n[timeout after %ss]" % timeout


def big_stack():
    """preexec_fn: the extracted checkers recurse over byte lists (one frame per byte of a log write)"""
    import resource
    resource.setrlimit(resource.RLIMIT_STACK, (resource.RLIM_INFINITY, resource.RLIM_INFINITY))


def run_model(driver, cases_text, timeout=600):
    """run an extracted-model driver on the given input (unlimited stack: the extracted functions are not tail recursive)"""
    try:
        p = subprocess.run([os.path.join(BUILD, driver)], input=cases_text, capture_output=True, text=True, timeout=timeout, preexec_fn=big_stack)
        return p.returncode, p.stdout + (p.stderr if p.returncode != 0 else "")
    except subprocess.TimeoutExpired as e:
        return 124, (e.stdout or "") + "\n[timeout after %ss]" % timeout


# ---------------------------------------------------------------- known findings

def load_known(prop):
    if not os.path.exists(KNOWN):
        return []
    data = json.load(open(KNOWN))
    return [e for e in data.get("findings", []) if e.get("property") == prop]


# ---------------------------------------------------------------- result + evidence

class Result:
    def __init__(self, prop, tier, seed):
        self.prop, self.tier, self.seed = prop, tier, seed
        self.t0 = time.time()
        self.evaluations = 0
        self.nontrivial = set()
        self.rule = ""
        self.samples = []
        self.distribution = {}
        self.oracle_failures = []   # [(case_text, why)]  property fails on the implementation
        self.mismatches = []        # [(case_text, why)]  model != implementation
        self.known_hits = {}        # finding id -> what
        self.broken = []            # proof / build problems (strings)
        self.proof = None
        self.extra = {}
        self.assumptions = []
        self.trusted = []

    def note_case(self, key, nontrivial):
        self.evaluations += 1
        if nontrivial:
            self.nontrivial.add(hashlib.sha1(key.encode()).hexdigest()[:16])


def write_replay(prop, seed, text):
    os.makedirs(REPLAYS, exist_ok=True)
    h = hashlib.sha1(text.encode()).hexdigest()[:10]
    p = os.path.join(REPLAYS, "%s-seed%d-%s.replay" % (prop, seed, h))
    with open(p, "w") as f:
        f.write(text)
    return p


def finish(res, level="proof"):
    """Decision procedure step 3 + evidence. Returns the process exit code."""
    prop = res.prop
    lines = []
    rc = 0
    try:
        import dbsession
        seen = set()
        for b, log in dbsession.CONTRACT:
            key = b.split(";")[0].split(" (")[0]
            res.extra["pool_contract_breaches"] = res.extra.get("pool_contract_breaches", 0) + 1
            if key in seen or len(res.oracle_failures) >= 8:
                continue
            seen.add(key)
            res.oracle_failures.append(("# session (tail):\n" + log, "a user of the buffer pool breaks the contract the pool's guarantee rests on (hook H5): " + b))
        if "pool_contract_breaches" not in res.extra and "dbsession" in sys.modules:
            res.extra["pool_contract_breaches"] = 0
    except Exception as ex:   # noqa
        res.broken.append("contract monitor bookkeeping failed: %s" % ex)
    # only findings listed (status "known") for this property in known_findings.json are suppressed; the file is never written here
    listed = {e["id"] for e in load_known(prop) if e.get("status") == "known"}
    for fid, what in sorted(res.known_hits.items()):
        if fid in listed:
            lines.append("KNOWN-FINDING: property=%s %s: %s" % (prop, fid, what))
        else:
            res.oracle_failures.append(("# finding signature %s matched, but known_findings.json does not list it for %s" % (fid, prop), what))
    nviol = 0
    if res.oracle_failures:
        case, why = res.oracle_failures[0]
        p = write_replay(prop, res.seed, "# property %s fails on the implementation\n# %s\n%s\n" % (prop, why, case))
        lines.append("VIOLATION property=%s replay=%s" % (prop, p))
        nviol = len(res.oracle_failures)
        rc = 1
    elif res.mismatches or res.broken:
        what = []
        if res.broken:
            what += ["no longer checks: " + b for b in res.broken]
        if res.mismatches:
            what += ["correspondence model<->implementation differs: " + w + "\n" + c for c, w in res.mismatches[:5]]
        p = write_replay(prop, res.seed, "# property %s is no longer shown to hold; no failing input found\n%s\n" % (prop, "\n".join(what)))
        lines.append("VIOLATION property=%s replay=%s no-failing-input-found" % (prop, p))
        nviol = 1
        rc = 1
    pr = res.proof or {"obligations": 0, "discharged": 0, "checker_cmd": "", "axioms": {}, "theorems": []}
    cov = {
        "obligations": pr["obligations"],
        "discharged": pr["discharged"],
        "checker_cmd": pr.get("checker_cmd", ""),
        "trusted_base": res.trusted,
        "theorems": pr.get("theorems", []),
        "axioms_printed": pr.get("axioms", {}),
        "coqchk": pr.get("coqchk", "thorough tier only"),
        "evaluations": res.evaluations,
        "distinct_nontrivial": len(res.nontrivial),
        "rule": res.rule,
        "samples": res.samples[:8] if res.samples else ["(none)"],
        "distribution": res.distribution,
        "correspondence_mismatches": len(res.mismatches),
        "known_findings_reproduced": sorted(res.known_hits.keys()),
    }
    if level == "other":
        cov["explanation"] = res.extra.get("explanation", "")
    cov.update({k: v for k, v in res.extra.items() if k != "explanation"})
    ev = {
        "property_id": prop, "tier": res.tier, "seed": res.seed, "level": level,
        "coverage": cov, "assumptions": res.assumptions,
        "wall_s": round(time.time() - res.t0, 2), "violations": nviol,
    }
    os.makedirs(EVID, exist_ok=True)
    with open(os.path.join(EVID, prop + ".json"), "w") as f:
        json.dump(ev, f, indent=1, sort_keys=True)
        f.write("\n")
    for l in lines:
        print(l)
    print("%s tier=%s seed=%d: theorems %d/%d, evaluations=%d nontrivial=%d mismatches=%d oracle_failures=%d known=%d wall=%.1fs -> exit %d" % (
        prop, res.tier, res.seed, pr["discharged"], pr["obligations"], res.evaluations, len(res.nontrivial),
        len(res.mismatches), len(res.oracle_failures), len(res.known_hits), time.time() - res.t0, rc))
    return rc


def standard_build(res, need_go=True, need_ocaml=True):
    """Build stage shared by all checks. Records problems in res.broken."""
    with Lock("build"):
        ok, out = gen_params()
        if not ok:
            res.broken.append("Params.v cannot be regenerated from the Go constants: " + out)
        res.proof = proof_stage(res.prop)
        if res.tier == "thorough" and not res.proof["errors"]:
            # independent re-check of the compiled theorems and everything they depend on (the model, the proofs, the
            # standard library files they load), with the list of axioms of the whole context
            rc, out = sh(["coqchk", "-silent", "-o", "-Q", COQ, "SDB"] + ["SDB.Props.%s" % f2 for f2 in props_files(res.prop)], timeout=7200)
            m = re.search(r"\* Axioms:\s*(.*?)\n\s*\n", out, flags=re.S)
            axs = " ".join(m.group(1).split()) if m else "?"
            # axioms of the standard library (brought in by Flocq / Reals for the IEEE bridge of C18) are listed and allowed; nothing else
            axlist = [a for a in re.findall(r"[A-Za-z_][\w\.']*", axs) if a not in ("none",)] if axs not in ("<none>", "?") else []
            allowed_last = {x.split(".")[-1] for x in ALLOWED_AXIOMS}
            axs_ok = (axs == "<none>") or (bool(axlist) and all(a.split(".")[-1] in allowed_last for a in axlist))
            res.proof["coqchk"] = {"rc": rc, "axioms": axs,
                                   "no_type_in_type": "type-in-type: <none>" in out, "no_unsafe_fixpoints": "unsafe (co)fixpoints: <none>" in out, "no_assumed_positivity": "positivity is assumed: <none>" in out}
            res.proof["checker_cmd"] += " + coqchk -silent -o -Q coq SDB SDB.Props.%s" % res.prop
            if rc != 0 or not axs_ok or not (res.proof["coqchk"]["no_type_in_type"] and res.proof["coqchk"]["no_unsafe_fixpoints"] and res.proof["coqchk"]["no_assumed_positivity"]):
                res.proof["errors"].append("coqchk does not confirm the compiled theorems (rc=%d, axioms: %s): %s" % (rc, axs, out[-400:]))
        for e in res.proof["errors"]:
            res.broken.append(e)
        if res.proof["discharged"] < res.proof["obligations"] and not res.proof["errors"]:
            res.broken.append("only %d of %d theorems discharged" % (res.proof["discharged"], res.proof["obligations"]))
        if need_ocaml:
            ok, out = ocaml_build()
            if not ok:
                res.broken.append("extracted model does not build: " + out[-600:])
        go_ok = True
        if need_go:
            go_ok, out = go_build()
            if not go_ok:
                res.broken.append("Go harness does not build against /repo with -tags verif: " + out[-1500:])
    return go_ok


COMMON_TRUSTED = [
    "Coq 8.16.1 kernel (coqc; coqchk in the thorough tier); vm_compute used in proofs; native_compute not used",
    "extraction with ExtrOcamlBasic only (bool, option, unit, list, prod, sumbool, sumor); N, Z, positive, nat stay extracted inductives; no Extract Constant",
    "OCaml driver glue (ocaml/util.ml and the per-property driver)",
    "Go harness (harness/*.go) built with -tags verif against /repo's working tree; bin/check and lib/*.py",
    "bin/gen_params (Go const blocks -> coq/Params.v)",
]
