"""Generation of schemas, rows and predicates together with their three
renderings: SQL text (for the engine), value tokens / RPN (for the extracted
reference semantics), and python structures (for shrinking)."""
import struct

OPS = [("eq", "="), ("ne", "<>"), ("lt", "<"), ("le", "<="), ("gt", ">"), ("ge", ">=")]


MIRROR = {"eq": "eq", "ne": "ne", "lt": "gt", "le": "ge", "gt": "lt", "ge": "le"}


class Names(list):
    """column names of one table, with the table's name for qualified references"""
    def __init__(self, names, tab):
        list.__init__(self, names)
        self.tab = tab


def flip_some(rng, p, prob=0.15):
    for l in p.leaves():
        if rng.random() < prob:
            l.flip = True
    return p


def f32_bits(x):
    return struct.unpack("<I", struct.pack("<f", x))[0]


class Val:
    """kind: 'i' | 'f' | 's' | 'n'.  v: int | float (exactly representable) | bytes"""
    def __init__(self, kind, v=None):
        self.kind, self.v = kind, v

    def tok(self):
        if self.kind == "n":
            return "n"
        if self.kind == "i":
            return "i:%d" % self.v
        if self.kind == "f":
            return "f:%d" % f32_bits(self.v)
        return "s:" + (self.v.hex() if self.v else "-")

    def sql(self):
        if self.kind == "i":
            return "%d" % self.v
        if self.kind == "f":
            return repr(float(self.v))
        if self.kind == "s":
            return "'" + self.v.decode("latin1") + "'"
        raise ValueError("NULL has no literal form")

    def literal_ok(self):
        """can the SQL front end express it?"""
        if self.kind == "i":
            return self.v >= 0
        if self.kind == "f":
            import math
            return math.copysign(1.0, self.v) > 0 and self.v == self.v and self.v not in (float("inf"),) and "e" not in repr(float(self.v))
        if self.kind == "s":
            return all(32 <= c < 127 and c not in (39, 92, 34, 59) for c in self.v)
        return False


class Cmp:
    def __init__(self, col, op, val):
        self.col, self.op, self.val = col, op, val

    flip = False     # written constant-first: "<literal> <mirrored op> <table>.<column>" (the front end resolves a column on the
                     # right-hand side of a comparison only when it is qualified with its table)

    def sql(self, names):
        tab = getattr(names, "tab", None)
        if self.flip and tab:
            return "%s %s %s.%s" % (self.val.sql(), dict(OPS)[MIRROR[self.op]], tab, names[self.col])
        return "%s %s %s" % (names[self.col], dict(OPS)[self.op], self.val.sql())

    def rpn(self, off=0):
        return "c%d %s %s" % (self.col + off, self.op, self.val.tok())

    def leaves(self):
        return [self]


class Bin:
    def __init__(self, kind, l, r):
        self.kind, self.l, self.r = kind, l, r

    def sql(self, names):
        def par(x):
            s = x.sql(names)
            return "(" + s + ")" if isinstance(x, Bin) and x.kind != self.kind else s
        return "%s %s %s" % (par(self.l), self.kind.upper(), par(self.r))

    def rpn(self, off=0):
        return "%s %s %s" % (self.l.rpn(off), self.r.rpn(off), self.kind)

    def leaves(self):
        return self.l.leaves() + self.r.leaves()


def has_or(p):
    return isinstance(p, Bin) and (p.kind == "or" or has_or(p.l) or has_or(p.r))


INT_POOL = [0, 1, 2, 3, 4, 5, 6, 7, 8, 9, 10, 100, 255, 256, 65535, 65536, 2**31 - 2, 2**31 - 1]
FLT_POOL = [0.0, 0.5, 1.0, 1.5, 2.0, 2.25, 3.0, 4.0, 7.75, 100.125, 16777216.0]
STR_POOL = [b"", b"a", b"ab", b"abc", b"abd", b"b", b"B", b"z", b"foo", b"foo bar", b"Z" * 30,
            b"a b", b"a  b", b" a", b"a ", b"  ", b"x   y z", b"(a)", b"a,b", b"a=b", b"SELECT", b"a-b", b"1 2", b"<>", b"%_"]
STR_ALPHABET = b"ab AB z01 ,.()=<>*-_%#!?[]{}+/:@^~|&$"


BTREE_INT_LIMIT = 0x7FFF0000


def for_index(v, t, k):
    """values of a B-tree indexed column stay inside what the B-tree wrapper supports: strings up to 24 bytes
    (C18 btree_pad_roundtrip) and integers below 2147418112 (known finding F-BTREE-STOPPER, probed separately by lib/btreeprobe.py)"""
    if k != "b" or v.kind == "n":
        return v
    if t == "s" and len(v.v) > 20:
        return Val("s", v.v[:20])
    if t == "i" and v.v >= BTREE_INT_LIMIT:
        return Val("i", BTREE_INT_LIMIT - 1 - (2**31 - 1 - v.v) % 4096)
    return v


def rnd_val(rng, kind, small=True):
    if kind == "i":
        return Val("i", rng.choice(INT_POOL[:12]) if small or rng.random() < 0.8 else rng.choice(INT_POOL))
    if kind == "f":
        return Val("f", rng.choice(FLT_POOL[:8]) if small or rng.random() < 0.8 else rng.choice(FLT_POOL))
    r = rng.random()
    if r < 0.08:
        # free-form printable strings (blanks, punctuation, keywords' characters): the literal path must keep them verbatim
        return Val("s", bytes(rng.choice(STR_ALPHABET) for _ in range(rng.randrange(0, 13))))
    if r < 0.16:
        return Val("s", rng.choice(STR_POOL[11:]))
    return Val("s", rng.choice(STR_POOL[:9]) if small or rng.random() < 0.85 else rng.choice(STR_POOL[:11]))


def rnd_conj(rng, types, ncmp, focus=None):
    """AND-tree of ncmp comparisons; with `focus`, most of them on that column
    (redundant / overlapping / contradictory bounds)."""
    leaves = []
    for _ in range(ncmp):
        c = focus if focus is not None and rng.random() < 0.75 else rng.randrange(len(types))
        op = rng.choice(OPS)[0]
        leaves.append(Cmp(c, op, rnd_val(rng, types[c])))
    rng.shuffle(leaves)
    p = leaves[0]
    for l in leaves[1:]:
        p = Bin("and", p, l) if rng.random() < 0.5 else Bin("and", l, p)
    return p


def rnd_pred(rng, types, depth=2):
    if depth == 0 or rng.random() < 0.35:
        c = rng.randrange(len(types))
        return Cmp(c, rng.choice(OPS)[0], rnd_val(rng, types[c]))
    return Bin(rng.choice(["and", "or"]), rnd_pred(rng, types, depth - 1), rnd_pred(rng, types, depth - 1))
