"""Crash-point enumeration over the I/O trace recorded by hook H1.

A history is run once on the real engine with markers around every commit
(or auto-commit statement); the trace (page writes, log writes, log
truncations, markers) is then cut at every I/O boundary, each prefix is
materialised as a pair of files and the engine is restarted on it in a fresh
process.  The recovered tables are compared with the reference state of the
transactions that had committed."""
import os, shutil, tempfile, concurrent.futures
from vlib import BUILD
from dbsession import DB, Ref, scan_rows

PAGE = 4096


def load_trace(path):
    ev = []
    for l in open(path):
        l = l.rstrip("\n")
        if not l:
            continue
        k = l[0]
        if k == "P":
            _, pid, hx = l.split(" ", 2)
            ev.append(("P", int(pid), bytes.fromhex(hx)))
        elif k == "L":
            ev.append(("L", bytes.fromhex(l[2:])))
        elif k == "G":
            ev.append(("G",))
        elif k == "M":
            ev.append(("M", l[2:]))
    return ev


class Image:
    """db file + log file contents as python bytearrays"""
    def __init__(self, db=b"", log=b""):
        self.db = bytearray(db)
        self.log = bytearray(log)

    def copy(self):
        return Image(self.db, self.log)

    def apply(self, e, torn=None):
        """apply one I/O event; torn = number of bytes of the write that reach the disk"""
        if e[0] == "P":
            off = e[1] * PAGE
            data = e[2] if torn is None else e[2][:torn]
            if len(self.db) < off:
                self.db.extend(b"\0" * (off - len(self.db)))
            self.db[off:off + len(data)] = data
        elif e[0] == "L":
            self.log.extend(e[1] if torn is None else e[1][:torn])
        elif e[0] == "G":
            self.log = bytearray()

    def write(self, d):
        with open(os.path.join(d, "db.db"), "wb") as f:
            f.write(self.db)
        with open(os.path.join(d, "db.log"), "wb") as f:
            f.write(self.log)


def io_indices(trace):
    return [i for i, e in enumerate(trace) if e[0] != "M"]


def image_at(trace, k, base=None, torn=None):
    """image after the first k events of the trace (markers skipped); with torn, the k-th event (index k) is
    additionally applied partially"""
    img = base.copy() if base else Image()
    for e in trace[:k]:
        if e[0] != "M":
            img.apply(e)
    if torn is not None and k < len(trace) and trace[k][0] in ("P", "L"):
        img.apply(trace[k], torn=torn)
    return img


def restart_on(img, tables, mem_kb=400, probe=True, want_trace=False, timeout=30, durability=False):
    """start the engine on the image in a fresh process and directory; returns dict:
    status: ok | open-failed | dead ; rows: {table: canonical scan} ; probe: answer ; trace: path"""
    d = tempfile.mkdtemp(prefix="img_", dir=os.path.join(BUILD, "tmp"))
    img.write(d)
    db = DB(mem_kb=mem_kb, workdir=d)
    out = {"status": "ok", "rows": {}, "dir": d}
    try:
        r = db.cmd("open %s/db %d" % (d, mem_kb), timeout=timeout)
        if not r.startswith("ok"):
            out["status"] = "open-failed"
            out["detail"] = r if r != "dead" else ("restart does not terminate or the process died: %s" % db.dead)
            return out
        if want_trace:
            tp = os.path.join(d, "recovery.trace")
            db.cmd("trace " + tp)
            out["trace"] = load_trace(tp)
        for t in tables:
            out["rows"][t] = scan_rows(db.cmd("scan " + t))
        if probe:
            out["probe"] = probe_db(db, tables)
        if durability and not db.dead:
            # work committed after this restart must survive the next crash as well (LSNs must continue above the page LSNs)
            # (on pages that exist already: their page LSNs are those of the previous incarnation)
            t0 = tables[0]
            r1 = db.sql("INSERT INTO %s(k,g,v) VALUES (987654, 1, 'dur');" % t0)
            r2 = db.sql("UPDATE %s SET g = 2 WHERE k = 987654;" % t0)
            db.restart_process()
            r4 = db.cmd("open %s/db %d" % (d, mem_kb), timeout=timeout)
            r5 = db.sql("SELECT g FROM %s WHERE k = 987654;" % t0) if r4.startswith("ok") else "-"
            out["durability"] = "ok" if (r1.startswith("ok") and r2.startswith("ok") and r4.startswith("ok") and r5 == "ok:i:2") else \
                "work committed after the restart is lost by the next crash: INSERT INTO %s (k=987654) %s, UPDATE g=2 %s | crash | reopen %s, SELECT g WHERE k = 987654 -> %s (expected i:2)" % (t0, r1[:20], r2[:20], r4[:40], r5[:60])
        if db.dead:
            out["status"] = "dead"
            out["detail"] = db.dead
        return out
    finally:
        db.collect_contract()       # breaches of the pool users' contract during the restart itself (redo / undo / index rebuild), hook H5
        if db.proc:
            db.proc.kill()
        if not want_trace:
            shutil.rmtree(d, ignore_errors=True)


def probe_db(db, tables):
    """the restarted database accepts new statements"""
    r1 = db.sql("CREATE TABLE zz_probe(a int, b int);")
    r2 = db.sql("INSERT INTO zz_probe(a,b) VALUES (1, 2);")
    r3 = db.sql("SELECT b FROM zz_probe WHERE a = 1;")
    if not (r1.startswith("ok") and r2.startswith("ok") and r3 == "ok:i:2"):
        return "probe failed: %s / %s / %s" % (r1, r2, r3)
    return "ok"


def parallel(fn, items, workers=16):
    with concurrent.futures.ThreadPoolExecutor(max_workers=workers) as ex:
        return list(ex.map(fn, items))


def parse_log(log):
    """Parse the engine's log file format (20-byte header: size, lsn, txn, prevLSN, type; little endian).
    Stops at the first incomplete record. Returns list of dicts."""
    out, off = [], 0
    log = bytes(log)
    while off + 20 <= len(log):
        size, lsn, txn, prev, typ = [int.from_bytes(log[off + 4 * i: off + 4 * i + 4], "little", signed=True) for i in range(5)]
        if size < 20 or off + size > len(log):
            break
        r = {"off": off, "size": size, "lsn": lsn, "txn": txn, "prev": prev, "type": typ}
        if typ in (1, 2, 3, 4, 5):
            r["page"] = int.from_bytes(log[off + 20: off + 24], "little", signed=True)
            r["slot"] = int.from_bytes(log[off + 24: off + 28], "little")
        elif typ == 9:
            r["prevpage"] = int.from_bytes(log[off + 20: off + 24], "little", signed=True)
            r["page"] = int.from_bytes(log[off + 24: off + 28], "little", signed=True)
        out.append(r)
        off += size
    return out


def link_discipline(trace, limit=3):
    """Write-ahead discipline for the one change of a table page that carries no LSN of its own: the link to its successor.
    TableHeap.InsertTuple sets currentPage.next = newPage without stamping currentPage's LSN; the change is described by the
    successor's NewTablePage record (prevPageID, pageID), which redo uses to restore the link.  So: whenever a table page (a page named
    by a durable heap record) is written with next = Q, the NewTablePage record of Q must have reached the log file before.
    `trace` is the H1 trace from the creation of the database (list of events as load_trace returns, or the trace text).
    Returns a list of violation descriptions."""
    if isinstance(trace, str):
        ev = []
        for l in trace.split("\n"):
            if l[:1] == "P":
                _, pid, hx = l.split(" ", 2)
                ev.append(("P", int(pid), bytes.fromhex(hx)))
            elif l[:1] == "L":
                ev.append(("L", bytes.fromhex(l[2:])))
            elif l[:1] == "G":
                ev.append(("G",))
        trace = ev
    pending = b""
    table_pages, created, viol = set(), set(), []
    nio = 0
    for e in trace:
        if e[0] == "M":
            continue
        nio += 1
        if e[0] == "L":
            pending += e[1]
            recs = parse_log(pending)
            for r in recs:
                if r["type"] in (1, 2, 3, 4, 5):
                    table_pages.add(r["page"])
                elif r["type"] == 9:
                    created.add(r["page"]); table_pages.add(r["page"])
                    if r["prevpage"] >= 0:
                        table_pages.add(r["prevpage"])
            if recs:
                pending = pending[recs[-1]["off"] + recs[-1]["size"]:]
        elif e[0] == "G":
            pending = b""
        elif e[0] == "P" and e[1] in table_pages and len(e[2]) >= 16:
            # only an initialised table-page image carries a link: redo's NewTablePage branch first writes an all-zero placeholder for
            # a page that never reached the file (its "next" field reads 0) and initialises it afterwards
            if int.from_bytes(e[2][0:4], "little", signed=True) != e[1] or not any(e[2][4:24]):
                continue
            nxt = int.from_bytes(e[2][12:16], "little", signed=True)
            if nxt >= 0 and nxt not in created and len(viol) < limit:
                viol.append("I/O event %d writes table page %d (page LSN %d) whose header links to successor page %d, but no NewTablePage record of page %d has reached the log file yet: "
                            "after a crash here redo cannot re-create page %d and the chain of the table ends in a page that does not exist" % (nio, e[1], int.from_bytes(e[2][4:8], "little"), nxt, nxt, nxt))
    return viol


def losers(records):
    """transactions with data records and neither COMMIT (7) nor ABORT (8) in the log"""
    ended = {r["txn"] for r in records if r["type"] in (7, 8)}
    return sorted({r["txn"] for r in records if r["type"] in (1, 2, 3, 4, 5) and r["txn"] not in ended})
