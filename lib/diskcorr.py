"""File layer under the buffer pool (C13 at the lowest layer; hypotheses of Model/PageAlloc.v and Model/WalTrace.v):
extracted model (coq/Model/DiskFile.v, build/diskfile_driver) against the real disk.DiskManagerImpl
(`verifharness diskfile - <scratch dir>`, lib/storage/disk/disk_manager_impl.go) on random operation sequences.

A case is one pair of files <name>.db / <name>.log in a scratch directory: optionally `mk` (a pre-existing db file of
some whole pages and, now and then, a trailing partial part), `open`, then 30..300 operations
  w <pageid> <seed>   WritePage (inside the file, at its end, beyond the end: holes)     -> ok
  r <pageid>          ReadPage (written pages, holes, offset = size, offset > size, the partial part)
                                                                       -> bytes <digest> | err past | err read
  size / alloc        Size() / AllocatePage()
  close + open        ShutDown + NewDiskManagerImpl on the same files (nextPageID and d.size from the file size)
  wl <n> <seed>       WriteLog           rl <off> <len>  ReadLog (off = 0, inside, = size, > size; len = 0, short, exact,
                      beyond the end; the read moves the descriptor the next WriteLog uses)   lsize   gc
Every answer line is compared between model and engine.
mismatch -> res.mismatches.append((replay_text, message)); res.note_case(key, nontrivial) per case; summary in
res.extra["disk_file_cases"].  Binaries: vlib.HARNESS_BIN and build/diskfile_driver; env DISK_HARNESS / DISK_DRIVER
override (private testing).
"""
import os, random, shutil, sys, tempfile, time

sys.path.insert(0, os.path.dirname(os.path.abspath(__file__)))
from vlib import BUILD, HARNESS_BIN, Result
from dbsession import Proc
from clockcorr import ask_many, Diverged

CHUNK = 64


def harness_bin():
    return os.environ.get("DISK_HARNESS") or HARNESS_BIN


def driver_bin():
    return os.environ.get("DISK_DRIVER") or os.path.join(BUILD, "diskfile_driver")


class Corr:
    def __init__(self, res, rng, scratch):
        self.res, self.rng, self.scratch = res, rng, scratch
        self.engine = self.model = None
        self.log = []
        self.nfile = 0
        self.stat = {"cases": 0, "ops": 0, "writes": 0, "writes_beyond_end": 0, "writes_at_end": 0, "overwrites": 0,
                     "reads_bytes": 0, "reads_hole": 0, "reads_at_end": 0, "reads_past_end": 0,
                     "reads_partial_part": 0, "reopens": 0, "allocs": 0, "allocs_after_reopen": 0, "sizes": 0,
                     "premade_files": 0, "premade_with_partial_part": 0, "log_writes": 0,
                     "log_writes_after_read": 0, "log_reads_ok": 0, "log_reads_eof": 0, "log_reads_short": 0,
                     "log_reads_whole": 0, "gcs": 0, "max_pages": 0, "max_log": 0, "mismatch_count": 0}

    def start(self):
        if self.engine is None:
            self.engine = Proc([harness_bin(), "diskfile", "-", self.scratch])
        if self.model is None:
            self.model = Proc([driver_bin()])

    def close(self):
        for p in (self.engine, self.model):
            if p is not None:
                p.close()
        self.engine = self.model = None

    def transcript(self):
        return "\n".join(self.log) + "\n"

    def exchange(self, lines):
        answers = []
        for i in range(0, len(lines), CHUNK):
            part = lines[i:i + CHUNK]
            ea = ask_many(self.engine, part)
            ma = ask_many(self.model, part)
            for l, e, m in zip(part, ea, ma):
                self.log.append("> %s\nE< %s\nM< %s" % (l, e, m))
                if e is None:
                    self.engine = None
                    raise Diverged("the engine does not answer %r (hang or process death)" % l)
                if m is None:
                    self.model = None
                    raise Diverged("the model driver does not answer %r" % l)
                if e != m:
                    raise Diverged("answers differ on %r: engine %s, model %s" % (l, e, m))
                answers.append(e)
        return answers

    def gen_case(self, name):
        """operation lines of one case; a shadow of the page count / log length steers the choice of the arguments
        (nothing is compared with the shadow)"""
        rng, st = self.rng, self.stat
        lines = []
        npages, tail, loglen, lpos = 0, 0, 0, 0
        written = set()
        since_open_allocs = -1
        read_moved = False
        if rng.random() < 0.3:
            npages = rng.randrange(0, 5)
            tail = rng.choice((0, 0, 1, 100, 4095))
            lines.append("mk %s %d %d %d" % (name, npages, tail, rng.randrange(1000)))
            st["premade_files"] += 1
            if tail:
                st["premade_with_partial_part"] += 1
            written = set(range(npages))
        lines.append("open %s" % name)
        shape = rng.choice(("mixed", "mixed", "pages", "log"))
        nops = rng.choice((30, 60, 120, 300))
        reopened = False
        while len(lines) < nops:
            k = rng.random()
            if shape == "pages":
                k *= 0.62
            elif shape == "log":
                k = 0.6 + k * 0.4
            if k < 0.22:
                c = rng.random()
                if c < 0.35 and npages:
                    p = rng.randrange(npages)
                    st["overwrites"] += 1
                elif c < 0.65:
                    p = npages
                    st["writes_at_end"] += 1
                else:
                    p = npages + rng.randrange(1, 6)
                    st["writes_beyond_end"] += 1
                lines.append("w %d %d" % (p, rng.randrange(100000)))
                st["writes"] += 1
                written.add(p)
                if p >= npages:
                    npages, tail = p + 1, 0
            elif k < 0.48:
                c = rng.random()
                if c < 0.5 and npages:
                    p = rng.randrange(npages)
                    st["reads_bytes" if p in written else "reads_hole"] += 1
                elif c < 0.75:
                    p = npages
                    st["reads_partial_part" if tail else "reads_at_end"] += 1
                else:
                    p = npages + rng.randrange(1, 4)
                    st["reads_past_end"] += 1
                lines.append("r %d" % p)
            elif k < 0.53:
                lines.append("size")
                st["sizes"] += 1
            elif k < 0.60:
                lines.append("alloc")
                st["allocs"] += 1
                if reopened:
                    st["allocs_after_reopen"] += 1
            elif k < 0.66:
                lines += ["close", "open %s" % name, "alloc", "size", "lsize"]
                st["reopens"] += 1
                reopened, read_moved, lpos = True, False, loglen
            elif k < 0.80:
                n = rng.choice((0, 1, 2, 7, 64, 500, 4096, 5000) if rng.random() < 0.3 else (3, 10, 40))
                lines.append("wl %d %d" % (n, rng.randrange(100000)))
                st["log_writes"] += 1
                if read_moved:
                    st["log_writes_after_read"] += 1
                loglen, lpos = max(loglen, lpos + n), lpos + n
            elif k < 0.95:
                est = loglen
                c = rng.random()
                if c < 0.25:
                    off, ln = 0, rng.choice((est, est + 10, 50000))
                elif c < 0.65:
                    off = rng.randrange(est + 1)
                    ln = rng.choice((0, 1, 5, est, 4096))
                elif c < 0.8:
                    off, ln = est, rng.choice((0, 1, 10))
                else:
                    off, ln = est + rng.randrange(1, 50), rng.choice((0, 1, 10))
                lines.append("rl %d %d" % (off, ln))
                if off < loglen:
                    lpos = off + min(ln, loglen - off)
                    read_moved = lpos < loglen
            else:
                lines.append("gc")
                st["gcs"] += 1
                loglen, lpos, read_moved = 0, 0, False
        lines += ["size", "lsize", "rl 0 60000", "r 0", "r %d" % npages, "close", "open %s" % name, "alloc", "alloc",
                  "size", "lsize", "rl 0 60000", "close"]
        return shape, lines

    def case(self):
        self.log = []
        self.start()
        self.nfile += 1
        name = "f%d_%d" % (os.getpid(), self.nfile)
        shape, lines = self.gen_case(name)
        answers = self.exchange(lines)
        st = self.stat
        holes = wrote_after_read = reopened = False
        lsize = 0
        for l, a in zip(lines, answers):
            st["ops"] += 1
            op = l.split()
            if op[0] == "rl":
                if a.startswith("ok"):
                    st["log_reads_ok"] += 1
                    n = int(a.split()[2])
                    if n < int(op[2]):
                        st["log_reads_short"] += 1
                    if op[1] == "0" and n == lsize:
                        st["log_reads_whole"] += 1
                else:
                    st["log_reads_eof"] += 1
            elif op[0] == "lsize":
                lsize = int(a)
                st["max_log"] = max(st["max_log"], lsize)
            elif op[0] == "size":
                st["max_pages"] = max(st["max_pages"], int(a) // 4096)
            elif op[0] == "r" and a == "bytes 4096:b93a0c83ce3b6325":
                holes = True
            elif op[0] == "close":
                reopened = True
            if a in ("bad", "undef") or a.startswith("panic") or (a.startswith("err") and op[0] != "r"):
                raise Diverged("unexpected answer %r to %r (both sides)" % (a, l))
        for f in (name + ".db", name + ".log"):
            try:
                os.remove(os.path.join(self.scratch, f))
            except OSError:
                pass
        st["cases"] += 1
        self.res.note_case(";".join(lines), holes and reopened)


HEAD = ("# file layer (DiskManagerImpl), model/engine correspondence (lib/diskcorr.py), case %d of this run\n"
        "# > line sent to both `verifharness diskfile - <dir>` (E<) and build/diskfile_driver (M<)\n")


def run_corr(res, rng, ncases):
    """see the module header; at most 5 replays are kept in res.mismatches"""
    if not os.path.exists(driver_bin()):
        res.broken.append("%s is missing (extracted file layer model)" % driver_bin())
        return
    if not os.path.exists(harness_bin()):
        res.broken.append("%s is missing" % harness_bin())
        return
    os.makedirs(os.path.join(BUILD, "tmp"), exist_ok=True)
    scratch = tempfile.mkdtemp(prefix="diskcorr_", dir=os.path.join(BUILD, "tmp"))
    c = Corr(res, rng, scratch)
    try:
        probe = Proc([harness_bin(), "diskfile", "-", scratch])
        ok = probe.ask("size", 20.0)
        probe.close()
        if ok != "bad":
            res.broken.append("`verifharness diskfile` does not answer (sub-command missing from this build?): %r" % (ok,))
            return
        for i in range(ncases):
            try:
                c.case()
            except Diverged as d:
                c.stat["cases"] += 1
                c.stat["mismatch_count"] += 1
                if len(res.mismatches) < 5:
                    res.mismatches.append((HEAD % (i + 1) + c.transcript(),
                                           "file layer model (Model/DiskFile.v) vs engine: " + str(d)))
                c.close()
            except Exception as ex:          # a bug of this module must not look like agreement
                res.broken.append("file layer correspondence crashed: %s: %s" % (type(ex).__name__, str(ex)[:300]))
                break
    finally:
        c.close()
        shutil.rmtree(scratch, ignore_errors=True)
        x = res.extra.setdefault("disk_file_cases", {})
        for k, v in c.stat.items():
            if k in ("max_pages", "max_log"):
                x[k] = max(x.get(k, 0), v)
            else:
                x[k] = x.get(k, 0) + v


if __name__ == "__main__":
    import argparse, json
    ap = argparse.ArgumentParser()
    ap.add_argument("--seed", type=int, default=1)
    ap.add_argument("--n", type=int, default=200)
    ap.add_argument("--show", type=int, default=1)
    a = ap.parse_args()
    res = Result("DISKCORR", "cli", a.seed)
    t0 = time.time()
    run_corr(res, random.Random(a.seed), a.n)
    print(json.dumps(res.extra, indent=1, sort_keys=True))
    print("time %.1fs  evaluations %d  nontrivial %d  mismatches %d  broken %d" % (
        time.time() - t0, res.evaluations, len(res.nontrivial),
        res.extra.get("disk_file_cases", {}).get("mismatch_count", 0), len(res.broken)))
    for b in res.broken:
        print("BROKEN:", b)
    for i, (text, why) in enumerate(res.mismatches):
        print("FINDING %d: %s" % (i + 1, why))
        if i < a.show:
            print("\n".join(text.split("\n")[-40:]))
    sys.exit(1 if res.mismatches or res.broken else 0)
