"""Table heap: extracted model (coq/Model/Heap.v, build/c14h_driver) against the real TableHeap
(`verifharness c14h`) on random histories, on every run.

A history drives ONE heap with 2-3 interleaved transactions: inserts of 20..3000-byte rows (pages fill, new
pages are allocated), delete-marks, deletes that empty a whole page at the front / in the middle / at the end
of the chain (committed and aborted), growing / shrinking / same-size updates, point reads (also of rows the
reader deleted itself and of empty slots), full scans (also by a transaction that has deleted rows itself), and
lock conflicts between the transactions (the lock manager never waits: a refused lock aborts the caller).

Every call is made on the engine first.  What the model takes as inputs is read off the engine's answer:
tuple.Size() of the row, the page ids the pool handed out during the call, and (from the lock tables before the
call) which rids are locked against the caller / held exclusively by the caller.  Compared after every call:
  the rid an insert chose (model: hp_place), in-place vs moved updates and the new rid, MarkDelete's answer,
  what GetTuple returns, the ordered result of the scan and whether it ended by an abort, the page chain, and the
  pins: the pool's pin counts of the heap's pages must be the same before and after the call (engine), the
  model's action sequence must be balanced and never unpin an unpinned page.
Commit / Abort are the transaction manager's: their page-level calls are replayed on the model from the write set
(ApplyDelete without the hint reset, RollbackDelete, rollback UpdateTuple) and checked through the following calls.
Not observable: the insertion hint (TableHeap.lastPageID is not exported) other than through the rids inserts choose.
"""
import os, random, shutil, sys, tempfile, time

sys.path.insert(0, os.path.dirname(os.path.abspath(__file__)))
from vlib import BUILD, HARNESS_BIN, Result
from dbsession import Proc

MODEL_BIN = os.path.join(BUILD, "c14h_driver")


class Diverged(Exception):
    pass


def kvs(line):
    d = {}
    for f in line.split():
        if "=" in f:
            k, v = f.split("=", 1)
            d[k] = v
        else:
            d.setdefault("_", f)
    return d


def plist(s):
    return [x for x in s.split(",") if x]


class Corr:
    def __init__(self, res, rng, variant="go", mutate=None):
        self.res, self.rng, self.variant, self.mutate = res, rng, variant, mutate
        os.makedirs(os.path.join(BUILD, "tmp"), exist_ok=True)
        self.dir = tempfile.mkdtemp(prefix="c14h_", dir=os.path.join(BUILD, "tmp"))
        self.engine = None
        self.model = Proc([MODEL_BIN, variant])
        self.nhist = self.nops = self.nmis = self.nnew = 0
        self.emptied = 0
        self.kinds = {}
        self.log = []

    # ---------------------------------------------------------------- processes
    def start_engine(self):
        if self.engine is None:
            d = tempfile.mkdtemp(prefix="e_", dir=self.dir)
            self.engine = Proc([HARNESS_BIN, "c14h", "-", d, "600"])

    def stop_engine(self):
        if self.engine is not None:
            self.engine.kill()
            self.engine = None

    def close(self):
        self.stop_engine()
        self.model.close()
        shutil.rmtree(self.dir, ignore_errors=True)

    def E(self, line):
        self.log.append("E> " + line)
        r = self.engine.ask(line, 30.0)
        self.log.append("E< " + str(r))
        if r is None:
            self.engine = None
            raise Diverged("the engine does not answer %r (hang or process death)" % line)
        return kvs(r)

    def M(self, line):
        self.log.append("M> " + line)
        r = self.model.ask(line, 30.0)
        self.log.append("M< " + str(r))
        if r is None:
            self.model = Proc([MODEL_BIN, self.variant])
            raise Diverged("the model driver does not answer %r" % line)
        return kvs(r)

    def transcript(self):
        return "\n".join(self.log) + "\n"

    def count(self, k):
        self.kinds[k] = self.kinds.get(k, 0) + 1

    # ---------------------------------------------------------------- bookkeeping
    def take_state(self, e):
        """chain and lock tables after an engine call"""
        self.chain = plist(e.get("chain", ""))
        self.xl = {}
        for x in plist(e.get("xl", "")):
            r, t = x.split(":")
            self.xl[r] = t
        self.sl = {}
        for x in plist(e.get("sl", "")):
            r, ts = x.split(":")
            self.sl[r] = ts.split("+")

    def lock_inputs(self, t, exclusive):
        den = set()
        for r, o in self.xl.items():
            if o != t:
                den.add(r)
        if exclusive:
            for r, ts in self.sl.items():
                if self.xl.get(r) != t and any(x != t for x in ts):
                    den.add(r)
        mine = [r for r, o in self.xl.items() if o == t]
        return "den=%s mine=%s" % (",".join(sorted(den)), ",".join(sorted(mine)))

    def check_common(self, e, m, what):
        if "panic" in e:
            raise Diverged("%s: the engine panics (%s); model answer: %s" % (what, e["panic"], m))
        if e.get("pb") != e.get("pa"):
            raise Diverged("%s: the pool's pin counts of the heap's pages changed: before %s, after %s" % (what, e.get("pb"), e.get("pa")))
        if m.get("bal") != "1":
            raise Diverged("%s: the model's action sequence is not pin-balanced (model pins %s)" % (what, m.get("pins")))
        if plist(m.get("chain", "")) != self.chain:
            raise Diverged("%s: page chain: engine %s, model %s" % (what, ",".join(self.chain), m.get("chain")))

    def note_empty(self):
        occupied = {r.split(".")[0] for r in self.rows}
        for p in self.chain:
            if p not in occupied and p not in self.seen_empty and len(self.chain) > 1:
                self.seen_empty.add(p)
                self.emptied += 1

    # ---------------------------------------------------------------- one engine call and its model call
    def call(self, t, op, arg=None, ln=0, seed=0):
        """returns the engine's answer fields"""
        self.nops += 1
        self.count(op)
        before = list(self.chain)
        if op == "ins":
            inputs = self.lock_inputs(t, True)
            e = self.E("ins %s %d %d" % (t, ln, seed))
        elif op == "mark":
            inputs = self.lock_inputs(t, True)
            e = self.E("mark %s %s" % (t, arg))
        elif op == "upd":
            inputs = self.lock_inputs(t, True)
            e = self.E("upd %s %s %d %d" % (t, arg, ln, seed))
        elif op == "get":
            inputs = self.lock_inputs(t, False)
            e = self.E("get %s %s" % (t, arg))
        else:
            inputs = self.lock_inputs(t, False)
            e = self.E("scan %s" % t)
        self.take_state(e)
        new = [p for p in self.chain if p not in before]
        self.nnew += len(new)
        size = int(e.get("size", "0"))
        if self.mutate == "size" and op in ("ins", "upd") and size > 1000:
            size -= 600
        what = "%s %s by %s" % (op, arg or "", t)
        if op == "ins":
            m = self.M("ins %d %d new=%s %s" % (size, seed, ",".join(new), inputs))
            self.check_common(e, m, what)
            if m.get("rid") != e.get("rid"):
                raise Diverged("%s (%d bytes): the engine put the row at %s, the model (hp_place) at %s" % (what, size, e.get("rid"), m.get("rid", m.get("_"))))
            rid = e["rid"]
            self.rows[rid] = dict(ln=ln, seed=seed, size=size, marked=None, by=t)
            self.ws[t].append(("I", rid))
        elif op == "mark":
            m = self.M("mark %s %s" % (arg, inputs))
            self.check_common(e, m, what)
            if m.get("ok") != e.get("ok"):
                raise Diverged("%s: MarkDelete returns %s, the model %s" % (what, e.get("ok"), m.get("ok")))
            if e["ok"] == "1":
                self.rows[arg]["marked"] = t
                self.ws[t].append(("D", arg))
        elif op == "upd":
            m = self.M("upd %s %d %d new=%s %s" % (arg, size, seed, ",".join(new), inputs))
            self.check_common(e, m, what)
            if e.get("ok") == "1":
                em = (e.get("ok"), e.get("inplace"), e.get("rid"))
                mm = (m.get("ok"), m.get("inplace"), m.get("rid"))
                if em != mm:
                    raise Diverged("%s to %d bytes: engine (ok, in place, rid) = %s, model %s" % (what, size, em, mm))
                old = self.rows[arg]
                if e["inplace"] == "1":
                    self.ws[t].append(("U", arg, old["ln"], old["seed"], old["size"]))
                    old.update(ln=ln, seed=seed, size=size)
                    self.count("upd_inplace")
                else:
                    old["marked"] = t
                    self.rows[e["rid"]] = dict(ln=ln, seed=seed, size=size, marked=None, by=t)
                    self.ws[t].append(("M", arg, e["rid"]))
                    self.count("upd_moved")
            elif m.get("ok") != "0":
                raise Diverged("%s: UpdateTuple fails, the model answers %s" % (what, m))
        elif op == "get":
            m = self.M("get %s %s" % (arg, inputs))
            self.check_common(e, m, what)
            if m.get("row") != e.get("row"):
                raise Diverged("%s: GetTuple gives %s, the model %s" % (what, e.get("row"), m.get("row", m.get("_"))))
            self.count("get_" + ("row" if e["row"].isdigit() else e["row"]))
        else:
            m = self.M("scan %s" % inputs)
            self.check_common(e, m, what)
            if m.get("rows") != e.get("rows"):
                raise Diverged("%s: the engine's iterator returns [%s], the model [%s]" % (what, e.get("rows"), m.get("rows")))
            if (e.get("st") == "A") != (m.get("end") == "abort") or m.get("end") not in ("end", "abort"):
                raise Diverged("%s: the engine's transaction state is %s after the scan, the model's scan ends with %s" % (what, e.get("st"), m.get("end")))
            if m.get("end") == "abort":
                self.count("scan_aborted")
            if any(v["marked"] == t for v in self.rows.values()):
                self.count("scan_with_own_deletes")
        if e.get("st") == "A":
            self.dead.add(t)
        return e

    def tm_model(self, cmd, what):
        m = self.M(cmd)
        if m.get("_") != "ok" or m.get("bal") != "1":
            raise Diverged("%s: replaying %r on the model gives %s" % (what, cmd, m))
        return m

    def finish_txn(self, t, commit):
        self.nops += 1
        self.count("commit" if commit else "abort")
        e = self.E("%s %s" % ("commit" if commit else "abort", t))
        self.take_state(e)
        what = "%s of %s" % ("commit" if commit else "abort", t)
        m = None
        for w in reversed(self.ws[t]):
            if commit:
                if w[0] == "D":
                    m = self.tm_model("papply " + w[1], what)
                    del self.rows[w[1]]
                elif w[0] == "M":
                    m = self.tm_model("papply " + w[1], what)
                    del self.rows[w[1]]
            else:
                if w[0] == "D":
                    m = self.tm_model("rollback " + w[1], what)
                    self.rows[w[1]]["marked"] = None
                elif w[0] == "I":
                    m = self.tm_model("papply " + w[1], what)
                    del self.rows[w[1]]
                elif w[0] == "M":
                    m = self.tm_model("papply " + w[2], what)
                    del self.rows[w[2]]
                    m = self.tm_model("rollback " + w[1], what)
                    self.rows[w[1]]["marked"] = None
                else:
                    m = self.tm_model("pupd %s %d %d" % (w[1], w[4], w[3]), what)
                    self.rows[w[1]].update(ln=w[2], seed=w[3], size=w[4])
        for v in self.rows.values():
            if v["by"] == t:
                v["by"] = None
        if "panic" in e:
            raise Diverged("%s: the engine panics (%s)" % (what, e["panic"]))
        if e.get("pb") != e.get("pa"):
            raise Diverged("%s: the pool's pin counts of the heap's pages changed: before %s, after %s" % (what, e.get("pb"), e.get("pa")))
        if m is not None and plist(m.get("chain", "")) != self.chain:
            raise Diverged("%s: page chain: engine %s, model %s" % (what, ",".join(self.chain), m.get("chain")))
        self.ws[t] = []
        self.dead.discard(t)
        self.note_empty()
        e2 = self.E("begin %s" % t)
        self.take_state(e2)

    # ---------------------------------------------------------------- generation
    def row_len(self):
        r = self.rng.random()
        if r < 0.25:
            return self.rng.randint(20, 200)
        if r < 0.55:
            return self.rng.randint(200, 1500)
        return self.rng.randint(1500, 3000)

    def lockable(self, t, rid):
        if self.xl.get(rid, t) != t:
            return False
        return all(x == t for x in self.sl.get(rid, []))

    def pick_row(self, t, want_conflict=False, unmarked=True):
        c = [r for r, v in self.rows.items() if not (unmarked and v["marked"])]
        if not c:
            return None
        good = [r for r in c if self.lockable(t, r) != want_conflict]
        return self.rng.choice(sorted(good or c))

    def history(self):
        rng = self.rng
        self.log = []
        if self.nhist % 40 == 0:
            self.stop_engine()      # the lock manager keeps an (empty) entry for every rid ever locked: start afresh now and then
        self.start_engine()
        e = self.E("newheap")
        if "first" not in e:
            raise Diverged("newheap: %s" % e)
        self.take_state(e)
        self.M("newheap %s" % e["first"])
        self.rows, self.ws, self.dead, self.seen_empty = {}, {}, set(), set()
        txns = ["a", "b", "c"][:rng.choice([2, 3, 3])]
        for t in txns:
            self.ws[t] = []
            self.take_state(self.E("begin %s" % t))
        seed = rng.randint(0, 255)
        nsteps = rng.randint(30, 80)
        # a first phase that fills a few pages, so that there are pages to empty
        prefill = rng.randint(0, 12)
        for step in range(nsteps):
            t = rng.choice(txns)
            if t in self.dead:
                self.finish_txn(t, False)
                continue
            seed = (seed + 37) % 256
            r = rng.random()
            if step < prefill:
                r = 0.0
            elif rng.random() < 0.12 and self.ws[t]:
                self.finish_txn(t, rng.random() < 0.8)      # short transactions: fewer lock conflicts
                continue
            if r < 0.36 or not self.rows:
                self.call(t, "ins", ln=self.row_len() if step >= prefill else rng.randint(900, 3000), seed=seed)
            elif r < 0.48:
                rid = self.pick_row(t, want_conflict=rng.random() < 0.25)
                if rid:
                    self.call(t, "mark", rid)
            elif r < 0.58:
                # empty one whole page: front / middle / end of the chain
                k = rng.choice(["front", "middle", "end"])
                p = self.chain[0] if k == "front" else self.chain[-1] if k == "end" else self.chain[len(self.chain) // 2]
                self.count("empty_" + k)
                for rid in sorted((x for x in self.rows if x.split(".")[0] == p and not self.rows[x]["marked"]),
                                  key=lambda x: int(x.split(".")[1])):
                    if t in self.dead:
                        break
                    self.call(t, "mark", rid)
                if t not in self.dead and rng.random() < 0.7:
                    self.finish_txn(t, rng.random() < 0.75)
            elif r < 0.72:
                rid = self.pick_row(t, want_conflict=rng.random() < 0.15, unmarked=rng.random() < 0.93)
                if rid:
                    old = self.rows[rid]["ln"]
                    k = rng.random()
                    if k < 0.3:
                        ln = old
                    elif k < 0.7:
                        ln = min(3000, old + rng.choice([1, 10, 60, 300, 1200, 2500]))
                    else:
                        ln = max(20, old - rng.choice([1, 10, 60, 300, 1200]))
                    self.call(t, "upd", rid, ln=ln, seed=seed)
            elif r < 0.80:
                k = rng.random()
                if k < 0.7 or not self.chain:
                    rid = self.pick_row(t, want_conflict=rng.random() < 0.2, unmarked=rng.random() < 0.6)
                else:
                    # an empty slot, or a slot beyond the slot array, of a page of the heap
                    p = rng.choice(self.chain)
                    used = [int(x.split(".")[1]) for x in self.rows if x.split(".")[0] == p]
                    free = [s for s in range(max(used + [0]) + 2) if s not in used]
                    rid = "%s.%d" % (p, rng.choice(free))
                if rid:
                    self.call(t, "get", rid)
            elif r < 0.90:
                if rng.random() < 0.6:
                    # let the others finish first, so that the scan is not stopped by their locks
                    for u in txns:
                        if u != t and (self.ws[u] or u in self.dead or any(u in x for x in self.sl.values())):
                            self.finish_txn(u, u not in self.dead and rng.random() < 0.7)
                self.call(t, "scan")
            else:
                self.finish_txn(t, rng.random() < 0.65)
        for t in txns:
            self.finish_txn(t, t not in self.dead and rng.random() < 0.7)
        self.call(txns[0], "scan")
        self.note_empty()


def run_corr(res, rng, nhist, variant="go", mutate=None):
    """see the module header; appends (replay_text, why) to res.mismatches (at most 5) and counters to res.extra"""
    if not os.path.exists(MODEL_BIN):
        res.broken.append("build/c14h_driver is missing (extracted table heap model)")
        return
    c = Corr(res, rng, variant, mutate)
    try:
        for _ in range(nhist):
            try:
                c.history()
                c.nhist += 1
            except Diverged as d:
                c.nhist += 1
                c.nmis += 1
                if len(res.mismatches) < 5:
                    head = ("# table heap model/engine correspondence (lib/heapcorr.py), history %d of this run\n"
                            "# E> command to `verifharness c14h`, E< its answer; M> command to build/c14h_driver, M< its answer\n" % c.nhist)
                    res.mismatches.append((head + c.transcript(), "table heap model (Model/Heap.v) vs engine: " + str(d)))
                c.stop_engine()     # the heap may be unusable (a latch held after a panic): fresh process
            except Exception as ex:          # a bug of this module must not look like agreement
                res.broken.append("table heap correspondence crashed: %s: %s" % (type(ex).__name__, str(ex)[:300]))
                break
    finally:
        c.close()
        x = res.extra
        x["heap_model_histories"] = x.get("heap_model_histories", 0) + c.nhist
        x["heap_model_ops"] = x.get("heap_model_ops", 0) + c.nops
        x["heap_model_new_pages"] = x.get("heap_model_new_pages", 0) + c.nnew
        x["heap_model_emptied_pages"] = x.get("heap_model_emptied_pages", 0) + c.emptied
        x["heap_model_mismatch_count"] = x.get("heap_model_mismatch_count", 0) + c.nmis
        k = x.setdefault("heap_model_kinds", {})
        for a, b in c.kinds.items():
            k[a] = k.get(a, 0) + b


if __name__ == "__main__":
    import argparse, json
    ap = argparse.ArgumentParser()
    ap.add_argument("--seed", type=int, default=1)
    ap.add_argument("--n", type=int, default=200)
    ap.add_argument("--variant", choices=["go", "gft", "iter"], default="go",
                    help="self-test: run the MODEL with one of the two regressions (a mismatch must be reported)")
    ap.add_argument("--mutate", choices=["size"], default=None,
                    help="self-test: tell the model a wrong row size (a mismatch must be reported)")
    ap.add_argument("--show", type=int, default=1, help="number of mismatch transcripts to print in full")
    a = ap.parse_args()
    res = Result("HEAPCORR", "cli", a.seed)
    t0 = time.time()
    run_corr(res, random.Random(a.seed), a.n, a.variant, a.mutate)
    out = dict(res.extra)
    print(json.dumps(out, indent=1, sort_keys=True))
    print("time %.1fs  mismatches %d  broken %d" % (time.time() - t0, out.get("heap_model_mismatch_count", 0), len(res.broken)))
    for b in res.broken:
        print("BROKEN:", b)
    for i, (text, why) in enumerate(res.mismatches):
        print("MISMATCH %d: %s" % (i + 1, why))
        if i < a.show:
            print(text)
    sys.exit(1 if res.mismatches or res.broken else 0)
