"""Known finding F-BTREE-STOPPER (C17, C07, C06).

The B-tree wrapper (lib/storage/index/btree_index.go) hands the B-link tree the key bytes
[order-preserving 4-byte key][8-byte row id]; for an Integer key k >= 0x7FFF0000 = 2147418112 these start with FF FF.  The B-link
tree library keeps the two bytes FF FF as the "stopper" (the infinite fence key that every page chain ends with), and a longer key
with that prefix compares ABOVE it.  Such keys break the tree's search invariant: after the first leaf split, entries are lost
from scans and lookups, or end up out of order, and a DeleteEntry does not find them (the row's entry then stays behind).
B-tree indexes are creatable through the catalog API only.

The probe replays the smallest shape found: 101 entries under three adjacent keys just above the limit (the 101st insert splits the
only leaf).  The same shape just below the limit behaves (control), which is what keeps the finding narrow.
"""
import random

from dbsession import DB

LIMIT = 0x7FFF0000        # 2147418112: first Integer key whose encoding starts FF FF


def clamp(v):
    """generators: integer keys of B-tree columns are kept below the limit (boundary neighbours preserved)"""
    return v if v < LIMIT else LIMIT - 1 - (2**31 - 1 - v) % 4096


def _entries(db, tab, col):
    a = db.cmd("ixrange %s %d - -" % (tab, col))
    out = []
    for e in a[3:].split(";") if a.startswith("ok:") else []:
        if e:
            k, r = e.split("@")
            p, s = r.split(".")
            out.append((int(k[2:]), int(p), int(s)))
    return out


def container_probe(base, n=140, seed=1):
    """direct index operations; returns None if the index behaves, else a description"""
    rng = random.Random(seed)
    db = DB(mem_kb=4000)
    try:
        if not db.open().startswith("ok"):
            return None
        db.cmd("mktable t a:i:b,b:i:n")
        ins = set()
        while len(ins) < n:
            e = (base - rng.randrange(3), rng.randrange(1, 20), rng.randrange(200))
            if e in ins:
                continue
            ins.add(e)
            db.cmd("ixins t 0 i:%d %d %d" % e)
        got = _entries(db, "t", 0)
        if got == sorted(ins):
            return None
        lost = len(ins - set(got))
        unsorted = sum(1 for i in range(len(got) - 1) if got[i] > got[i + 1])
        return "after %d InsertEntry calls under keys %d..%d a full scan returns %d entries (%d lost, %d out of key order)" % (n, base - 2, base, len(got), lost, unsorted)
    finally:
        db.destroy()


def sql_probe(base, n=300, seed=1):
    """the same through a table: rows inserted by SQL into a table whose int column has a B-tree index; the index path loses rows"""
    db = DB(mem_kb=4000)
    try:
        if not db.open().startswith("ok"):
            return None
        db.cmd("mktable tb k:i:b,v:i:n")
        rng = random.Random(seed)
        want = 0
        for i in range(n):
            k = base - rng.randrange(3)
            want += k <= base - 1
            db.sql("INSERT INTO tb(k,v) VALUES (%d, %d);" % (k, i))
        # (the unbounded side of the scan starts at the tree's first leaf, where the damage shows)
        via_index = db.sql("SELECT v FROM tb WHERE k <= %d;" % (base - 1))
        via_scan = db.sql("SELECT v FROM tb WHERE v >= 0 AND v <= %d;" % n)
        ni = len([x for x in via_index[3:].split(";") if x]) if via_index.startswith("ok:") else -1
        ns = len([x for x in via_scan[3:].split(";") if x]) if via_scan.startswith("ok:") else -1
        if ni == want and ns == n:
            return None
        return "%d rows with k in %d..%d, %d of them with k <= %d: SELECT .. WHERE v >= 0 AND v <= %d (sequential scan) returns %d rows, SELECT .. WHERE k <= %d (B-tree range scan) returns %d" % (n, base - 2, base, want, base - 1, n, ns, base - 1, ni)
    finally:
        db.destroy()


def probe(res, sql=False):
    f = sql_probe if sql else container_probe
    below = f(LIMIT - 1)
    if below:
        return [("btree stopper control (keys just below 2147418112)", "B-tree index with keys %d..%d: %s" % (LIMIT - 3, LIMIT - 1, below))]
    above = f(2**31 - 1)
    if above:
        res.known_hits["F-BTREE-STOPPER"] = "B-tree index with Integer keys >= 2147418112 (encoded FF FF.., above the B-link tree's FF FF stopper key): " + above
    return []
