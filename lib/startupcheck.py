"""Replays real I/O traces (hook H1) of an engine life with crashes and restarts through the extracted start-up model
(Model/Startup.v): the LSN of every record the engine appends, and in particular of the first record after each
restart (the "floor"), must be the model's next LSN."""
import os, subprocess
from vlib import BUILD, big_stack
from crashlib import parse_log


def lines_of(trace, table_pages):
    """trace events -> driver lines; table_pages (set) is extended with the pages the log records name"""
    out = []
    for e in trace:
        if e[0] == "L":
            recs = []
            for r in parse_log(e[1]):
                if "page" in r and r["page"] >= 0:
                    table_pages.add(r["page"])
                if r["lsn"] < 0:
                    continue
                recs.append("%d:%d" % (r["lsn"], r["page"]) if ("page" in r and r["page"] >= 0 and r["type"] in (1, 2, 3, 4, 5)) else "%d" % r["lsn"])
            if recs:          # a log write without a numbered record changes nothing the model sees
                out.append("L " + ",".join(recs))
        elif e[0] == "P":
            v = int.from_bytes(e[2][4:8], "little")
            out.append(("P %d %d" if e[1] in table_pages else "X %d %d") % (e[1], v))
        elif e[0] == "G":
            out.append("G")
    return out


def life(segments):
    """segments: list of event lists, one per process incarnation (the first is the fresh database); a kill separates them"""
    tp = set()
    lines = []
    for i, seg in enumerate(segments):
        lines.append("S")
        lines += lines_of(seg, tp)
        if i + 1 < len(segments):
            lines.append("K")
    return lines


def run_driver(blocks):
    text = "".join("\n".join(b) + "\nEND\n" for b in blocks)
    p = subprocess.run([os.path.join(BUILD, "startup_driver")], input=text, capture_output=True, text=True, timeout=600, preexec_fn=big_stack)
    return p.returncode, [l for l in p.stdout.strip().split("\n") if l], p.stderr[-300:]
