"""Temporary tuple page of the hash join (C11): extracted model (coq/Model/TmpPage.v, build/tmppage_driver)
against the real TmpTuplePage (`verifharness tmppage`, lib/materialization/tmp_tuple_page.go) on random cases.

A case is one page: `init <pageid>`, then inserts until the page is full and beyond.  Sizes are chosen to land on
every boundary of the room check: with r = free - 20 bytes of room left, the next tuple size s is picked so that
r - (s + 4) is each of -2 .. +6 (negative: must be refused); plus the fixed sizes 0, 1, 4071, 4072 (the largest
that fits an empty page), 4073, and sizes larger than a page (5000, 8192, 70000).  After every insert: the answer
(`ok <offset> <pageid>` / `full` / `panic`), the free-space pointer, and a Get of every offset handed out so far
(all of them while there are few, the newest + a sample otherwise; all of them again at the end), compared between
model and engine AND against the bytes that were inserted.  Gets at arbitrary offsets (inside records, at 4092..4100)
compare the panics.  Some cases start from a page whose pointer field was overwritten (`setfree`): free-space pointers
below 20, above 4096, 2^32-1 — the slice-bound panics of Insert must agree.  The whole page (`dump`) is compared at
the end of every case that did not panic.

mismatch (model != engine)          -> res.mismatches.append((replay_text, message))
engine does not return what was put -> res.oracle_failures.append((replay_text, message))
Binaries: vlib.HARNESS_BIN and build/tmppage_driver; env TMPPAGE_HARNESS / TMPPAGE_DRIVER override (private testing).
"""
import os, random, sys, time

sys.path.insert(0, os.path.dirname(os.path.abspath(__file__)))
from vlib import BUILD, HARNESS_BIN, Result
from dbsession import Proc

PAGE = 4096
HDR = 20
DELTAS = list(range(-2, 7))
SPECIAL = [0, 1, 4071, 4072, 4073, 5000, 8192, 70000]


def harness_bin():
    return os.environ.get("TMPPAGE_HARNESS") or HARNESS_BIN


def driver_bin():
    return os.environ.get("TMPPAGE_DRIVER") or os.path.join(BUILD, "tmppage_driver")


def row_bytes(n, seed):
    """harness/c15.go rowBytes = ocaml/util.ml row_bytes"""
    return bytes(((seed + j * 131 + (j // 256) * 17) & 0xFF) for j in range(n))


def hexs(b):
    return b.hex() if b else "-"


class Diverged(Exception):
    pass


class Wrong(Exception):
    """the engine's own answer contradicts what was inserted"""


class Corr:
    def __init__(self, res, rng, driver_args=()):
        self.res, self.rng = res, rng
        self.driver_args = list(driver_args)
        self.engine = self.model = None
        self.log = []
        self.stat = {"cases": 0, "inserts_ok": 0, "inserts_full": 0, "inserts_panic": 0, "gets": 0, "gets_panic": 0,
                     "dumps": 0, "records_max": 0, "mismatch_count": 0, "oracle_failure_count": 0,
                     "nonwf_cases": 0, "boundary": {}, "special": {}, "exact_fill": 0}

    def start(self):
        if self.engine is None:
            self.engine = Proc([harness_bin(), "tmppage", "-"])
        if self.model is None:
            self.model = Proc([driver_bin()] + self.driver_args)

    def close(self):
        for p in (self.engine, self.model):
            if p is not None:
                p.close()
        self.engine = self.model = None

    def both(self, line):
        e = self.engine.ask(line, 30.0)
        m = self.model.ask(line, 30.0)
        self.log.append("> %s\nE< %s\nM< %s" % (line if len(line) < 200 else line[:200] + "...", clip(e), clip(m)))
        if e is None:
            self.engine = None
            raise Diverged("the engine does not answer %r (hang or process death)" % line[:80])
        if m is None:
            self.model = None
            raise Diverged("the model driver does not answer %r" % line[:80])
        if e != m:
            raise Diverged("answers differ on %r: engine %s, model %s" % (line[:80], clip(e), clip(m)))
        return e

    def transcript(self):
        return "\n".join(self.log) + "\n"

    # ------------------------------------------------------------------ one case
    def insert(self, size, recs):
        rng = self.rng
        if size <= 64 and rng.random() < 0.3:
            data = bytes(rng.choice((0, 1, 0x7F, 0x80, 0xFF, rng.randrange(256))) for _ in range(size))
            line = "ins %d x%s" % (size, hexs(data))
        else:
            seed = rng.randrange(256)
            data = row_bytes(size, seed)
            line = "ins %d %d" % (size, seed)
        a = self.both(line)
        if a.startswith("ok "):
            self.stat["inserts_ok"] += 1
            off = int(a.split()[1])
            recs.append((off, data))
        elif a == "full":
            self.stat["inserts_full"] += 1
        elif a == "panic":
            self.stat["inserts_panic"] += 1
        else:
            raise Diverged("unexpected answer %r to %r" % (a, line[:60]))
        return a

    def get(self, off, expect=None):
        a = self.both("get %d" % off)
        self.stat["gets"] += 1
        if a == "panic":
            self.stat["gets_panic"] += 1
        if expect is not None and a != hexs(expect):
            raise Wrong("Get(%d) returns %s, the tuple inserted there was %s" % (off, clip(a), clip(hexs(expect))))
        return a

    def check_records(self, recs, everything):
        if everything or len(recs) <= 24:
            todo = recs
        else:
            todo = recs[-6:] + self.rng.sample(recs[:-6], 6)
        for off, data in todo:
            self.get(off, data)

    def next_size(self, free, mode):
        rng = self.rng
        room = free - HDR                    # bytes available for size field + data
        if mode == "boundary" and room > 900 and rng.random() < 0.85:
            mode = "plain"                   # keep the page filling up slowly: the boundaries are met near the end
        if mode == "boundary" and room >= 4 - 2:
            d = rng.choice(DELTAS)
            s = room - 4 - d
            if s >= 0:
                self.stat["boundary"][str(d)] = self.stat["boundary"].get(str(d), 0) + 1
                return s
        if mode == "special":
            s = rng.choice(SPECIAL)
            self.stat["special"][str(s)] = self.stat["special"].get(str(s), 0) + 1
            return s
        k = rng.random()
        if k < 0.15:
            return 0
        if k < 0.25:
            return 1
        if k < 0.6:
            return rng.randrange(0, 60)
        if k < 0.9:
            return rng.randrange(0, 700)
        return rng.randrange(0, 4200)

    def case(self):
        rng = self.rng
        self.log = []
        self.start()
        recs = []
        pid = rng.choice((0, 1, 7, 255, 256, 65535, 2147483647, -1, -2147483648, rng.randrange(-2 ** 31, 2 ** 31)))
        self.both("init %d" % pid)
        free = int(self.both("free"))
        kind = rng.random()
        nonwf = kind < 0.12
        panicked = False
        seen_ok = seen_full = False
        if nonwf:
            self.stat["nonwf_cases"] += 1
            v = rng.choice((0, 3, 16, 17, 19, 20, 23, 24, 4093, 4096, 4097, 4100, 5000, 65536, 2 ** 32 - 1,
                            rng.randrange(0, 40), rng.randrange(4080, 4200)))
            self.both("setfree %d" % v)
            free = int(self.both("free"))
        steps = 0
        beyond = rng.randrange(2, 7)
        first_special = kind >= 0.12 and kind < 0.35
        while steps < 400:
            steps += 1
            if steps == 1 and first_special:
                mode = "special"
            else:
                mode = rng.choices(("boundary", "special", "plain"), (0.3, 0.08, 0.62))[0]
            if nonwf:
                size = rng.choice((0, 1, 2, 5, rng.randrange(0, 40), max(0, free - HDR - 4 - rng.choice(DELTAS)) if free < 2 ** 31 else 9))
            else:
                size = self.next_size(free, mode)
            a = self.insert(size, recs)
            if a == "panic":
                panicked = True          # the engine's page is half updated now (pointer moved, record not written)
                break
            seen_ok |= a.startswith("ok")
            seen_full |= a == "full"
            f2 = int(self.both("free"))
            if a.startswith("ok"):
                off = int(a.split()[1])
                if not nonwf and (off != free - 4 - size or f2 != off):
                    raise Wrong("insert of %d bytes at free=%d answered offset %d and left free=%d" % (size, free, off, f2))
                if int(a.split()[2]) != pid:
                    raise Wrong("TmpTuple carries page id %s, the page was initialised with %d" % (a.split()[2], pid))
            elif f2 != free:
                raise Wrong("a refused insert moved the free-space pointer from %d to %d" % (free, f2))
            free = f2
            if free == HDR and a.startswith("ok"):
                self.stat["exact_fill"] += 1
            if not nonwf:
                self.check_records(recs, False)
            if rng.random() < 0.15:
                # arbitrary offsets: inside records, around the end of the page.  DeserializeFrom allocates
                # make([]byte, size) BEFORE it slices the page, so a garbage size field of up to 4 GB is only
                # tried when it is below 1 MB (the field is read from the dump, which is compared as well)
                o = rng.choice((rng.randrange(0, 4101), rng.randrange(4088, 4101), free, max(0, free - 1), free + 1))
                o = min(o, 2 ** 32 - 1)
                pg = bytes.fromhex(self.both("dump"))
                if o + 4 > len(pg) or int.from_bytes(pg[o:o + 4], "little") < (1 << 20):
                    self.get(o)
            if a == "full" and (free - HDR < 4 or rng.random() < 0.3):
                beyond -= 1
                if beyond <= 0:
                    break
        self.stat["records_max"] = max(self.stat["records_max"], len(recs))
        if not panicked:
            if not nonwf:
                self.check_records(recs, True)
            self.both("free")
            self.both("dump")
            self.stat["dumps"] += 1
        else:
            # after a panic inside Insert the engine's frame is not the model's any more: fresh processes' state
            self.both("init 0")
        self.stat["cases"] += 1
        key = "\n".join(l.split("\n", 1)[0] for l in self.log)
        self.res.note_case(key, seen_ok and seen_full)


def clip(s):
    if s is None:
        return "None"
    return s if len(s) <= 120 else "%s...(%d chars)" % (s[:100], len(s))


HEAD = ("# temporary tuple page, model/engine correspondence (lib/tmppagecorr.py), case %d of this run\n"
        "# > command sent to both `verifharness tmppage -` (E<) and build/tmppage_driver (M<)\n")


def run_corr(res, rng, ncases, driver_args=()):
    """see the module header; at most 5 replays are kept in res.mismatches / res.oracle_failures"""
    if not os.path.exists(driver_bin()):
        res.broken.append("%s is missing (extracted temporary tuple page model)" % driver_bin())
        return
    if not os.path.exists(harness_bin()):
        res.broken.append("%s is missing" % harness_bin())
        return
    c = Corr(res, rng, driver_args)
    try:
        probe = Proc([harness_bin(), "tmppage", "-"])
        ok = probe.ask("free", 20.0)
        probe.close()
        if ok != "4096":
            res.broken.append("`verifharness tmppage` does not answer (sub-command missing from this build?): %r" % (ok,))
            return
        for i in range(ncases):
            try:
                c.case()
            except Diverged as d:
                c.stat["cases"] += 1
                c.stat["mismatch_count"] += 1
                if len(res.mismatches) < 5:
                    res.mismatches.append((HEAD % (i + 1) + c.transcript(),
                                           "temporary tuple page model (Model/TmpPage.v) vs engine: " + str(d)))
                c.close()
            except Wrong as w:
                c.stat["cases"] += 1
                c.stat["oracle_failure_count"] += 1
                if len(res.oracle_failures) < 5:
                    res.oracle_failures.append((HEAD % (i + 1) + c.transcript(),
                                                "temporary tuple page (engine and model agree): " + str(w)))
                c.close()
            except Exception as ex:          # a bug of this module must not look like agreement
                res.broken.append("temporary tuple page correspondence crashed: %s: %s" % (type(ex).__name__, str(ex)[:300]))
                break
    finally:
        c.close()
        x = res.extra.setdefault("tmp_page_cases", {})
        for k, v in c.stat.items():
            if isinstance(v, dict):
                d = x.setdefault(k, {})
                for a, b in v.items():
                    d[a] = d.get(a, 0) + b
            elif k == "records_max":
                x[k] = max(x.get(k, 0), v)
            else:
                x[k] = x.get(k, 0) + v


if __name__ == "__main__":
    import argparse, json
    ap = argparse.ArgumentParser()
    ap.add_argument("--seed", type=int, default=1)
    ap.add_argument("--n", type=int, default=200)
    ap.add_argument("--weak-model", action="store_true",
                    help="run the model with the room check without +4 (self-test: must produce mismatches)")
    ap.add_argument("--show", type=int, default=1)
    a = ap.parse_args()
    res = Result("TMPPAGECORR", "cli", a.seed)
    t0 = time.time()
    run_corr(res, random.Random(a.seed), a.n, ["weak"] if a.weak_model else [])
    print(json.dumps(res.extra, indent=1, sort_keys=True))
    print("time %.1fs  evaluations %d  nontrivial %d  mismatches %d  oracle failures %d  broken %d" % (
        time.time() - t0, res.evaluations, len(res.nontrivial),
        res.extra.get("tmp_page_cases", {}).get("mismatch_count", 0),
        res.extra.get("tmp_page_cases", {}).get("oracle_failure_count", 0), len(res.broken)))
    for b in res.broken:
        print("BROKEN:", b)
    for i, (text, why) in enumerate(res.mismatches + res.oracle_failures):
        print("FINDING %d: %s" % (i + 1, why))
        if i < a.show:
            print("\n".join(text.split("\n")[-40:]))
    sys.exit(1 if res.mismatches or res.oracle_failures or res.broken else 0)
