"""Users of the buffer pool under eviction pressure.

The pool model (C13) assumes its clients keep the contract (write only while
pinned, release a modified page dirty).  Whether the engine's own pool users
keep it can only be seen when pages are actually cached out between the write
and the next read; these scenarios run real SQL in pools of 12-40 frames, so
that every table page, index node and temporary page is evicted and read back
many times, and compare every answer with the reference.

  tiny_pool_join   hash join whose build side spans several temporary pages and
                   whose probe side is several times the pool (the matches come
                   last, i.e. after the build side's pages were cached out)
  small_pool_dml   mirrored DML workload (lib/workload.py) on indexed tables
                   whose pages exceed the pool several times
"""
import random
from dbsession import DB, canon_rows
from workload import Mirror
from sqlgen import Val


def tiny_pool_join(res, rng, frames=12, fails=None):
    fails = fails if fails is not None else []
    db = DB(mem_kb=frames * 4)
    try:
        if not db.open().startswith("ok"):
            fails.append(("open with %d frames" % frames, "database does not start: %s" % db.dead)); return fails
        db.cmd("mktable ja a:i:n,b:s:n"); db.cmd("mktable jb x:i:n,y:s:n")
        nb, na = 40 * frames, 40
        wide = lambda c, n: (c * n).hex()
        for i in range(nb):
            db.cmd("rawinsert jb i:%d s:%s" % (i, wide(b"p", 150 + i % 40)))
        for i in range(na):
            db.cmd("rawinsert ja i:%d s:%s" % (nb - na + i, wide(b"w", 120 + i % 60)))
        for sql, want in (("SELECT ja.a, jb.x FROM ja JOIN jb ON ja.a = jb.x;", sorted("i:%d,i:%d" % (nb - na + i, nb - na + i) for i in range(na))),
                          ("SELECT jb.x, ja.b FROM jb JOIN ja ON jb.x = ja.a WHERE jb.x >= %d;" % (nb - 5), sorted("i:%d,s:%s" % (nb - na + i, wide(b"w", 120 + i % 60)) for i in range(na - 5, na)))):
            shape = db.cmd("plan " + sql)
            got = canon_rows(db.sql(sql, timeout=60))
            res.evaluations += 1
            if got != "ok:" + ";".join(want) or db.dead:
                fails.append(("# %d-frame pool, tables ja (%d wide rows) and jb (%d wide rows, %d pages); plan %s\n%s" % (frames, na, nb, nb // 20, shape, sql),
                              "join answer under eviction pressure differs from the rows stored: engine %s | expected %d rows %s..." % (got[:200] if not db.dead else db.dead, len(want), ";".join(want)[:120])))
                break
        res.extra["pressure_join_frames"] = frames
    finally:
        db.destroy()
    return fails


def tmp_page_fill_join(res, widths=(1, 2, 3, 4, 5, 6)):
    """hash joins whose build side fills its temporary pages to the last byte: for w integer columns per row a record of the
    temporary page takes 5*w + 4 bytes, and the rows are as many as fill one page and start the next, on BOTH sides (whichever
    side the planner builds from); every row must come back exactly as stored"""
    fails = []
    db = DB(mem_kb=4000)
    try:
        if not db.open().startswith("ok"):
            return [("open", "database does not start: %s" % db.dead)]
        for w in widths:
            n = 4076 // (5 * w + 4) + 25
            ta, tb = "fa%d" % w, "fb%d" % w
            ca = ["a%d" % i for i in range(w)]; cb = ["b%d" % i for i in range(w)]
            db.cmd("mktable %s %s" % (ta, ",".join("%s:i:n" % c for c in ca)))
            db.cmd("mktable %s %s" % (tb, ",".join("%s:i:n" % c for c in cb)))
            for i in range(n):
                db.cmd("rawinsert %s %s" % (ta, " ".join("i:%d" % (i if j == 0 else 1000 * j + i) for j in range(w))))
                db.cmd("rawinsert %s %s" % (tb, " ".join("i:%d" % (i if j == 0 else 7000 * j + i) for j in range(w))))
            sql = "SELECT %s, %s FROM %s JOIN %s ON %s.a0 = %s.b0;" % (", ".join("%s.%s" % (ta, c) for c in ca), ", ".join("%s.%s" % (tb, c) for c in cb), ta, tb, ta, tb)
            want = sorted(",".join(["i:%d" % (i if j == 0 else 1000 * j + i) for j in range(w)] + ["i:%d" % (i if j == 0 else 7000 * j + i) for j in range(w)]) for i in range(n))
            shape = db.cmd("plan " + sql)
            got = canon_rows(db.sql(sql, timeout=60))
            res.evaluations += 1
            res.note_case("tmp-page fill join w=%d n=%d %s" % (w, n, shape), True)
            if got != "ok:" + ";".join(want) or db.dead:
                g = got[3:].split(";") if got.startswith("ok:") else []
                miss = [x for x in want if x not in set(g)][:3]
                fails.append(("# tables %s, %s: %d rows of %d integer columns each (rawinsert), no index; plan %s\n%s" % (ta, tb, n, w, shape, sql),
                              "hash join over a build side that fills its temporary page exactly: engine returns %s rows, %d expected; missing e.g. %s; answer %s" % (len(g) if g else "no", n, miss, (got if not db.dead else db.dead)[:160])))
                break
        res.extra["tmp_page_fill_widths"] = list(widths)
    finally:
        db.destroy()
    return fails


def wide_joined_rows(res, widths=(1500, 2024, 2025, 2600, 3500), repeats=10):
    """three-table joins whose intermediate result rows are wider than a page (two strings of W bytes each): when the planner builds the
    second hash join from the first join's output, a build-side row does not fit even into an empty temporary page"""
    fails = []
    for w in widths:
        db = DB(mem_kb=4000)
        try:
            if not db.open().startswith("ok"):
                return [("open", "database does not start: %s" % db.dead)]
            db.cmd("mktable w1 a:i:n,s:s:n"); db.cmd("mktable w2 b:i:n,u:s:n"); db.cmd("mktable w3 c:i:n,d:i:n")
            for i in (1, 2, 3):
                db.cmd("rawinsert w1 i:%d s:%s" % (i, (bytes([96 + i]) * (w - i)).hex()))
                db.cmd("rawinsert w2 i:%d s:%s" % (i, (bytes([64 + i]) * (w + i)).hex()))
            for i in range(1, 6):
                db.cmd("rawinsert w3 i:%d i:%d" % (i, i * 10))
            db.cmd("stats")
            sql = "SELECT w1.a, w1.s, w2.u, w3.d FROM w1, w2, w3 WHERE w1.a = w2.b AND w2.b = w3.c;"
            want = "ok:" + ";".join(sorted("i:%d,s:%s,s:%s,i:%d" % (i, (bytes([96 + i]) * (w - i)).hex(), (bytes([64 + i]) * (w + i)).hex(), i * 10) for i in (1, 2, 3)))
            shapes = set()
            for _ in range(repeats):
                shape = db.cmd("plan " + sql)
                got = canon_rows(db.sql(sql, timeout=60))
                shapes.add(shape)
                res.evaluations += 1
                if got != want or db.dead:
                    fails.append(("# tables w1(a int, s), w2(b int, u), w3(c int, d int) without indexes, 3 rows with strings of about %d bytes each (rawinsert), 5 rows in w3; plan %s\n%s" % (w, shape, sql),
                                  "join whose intermediate rows are %d bytes wide: engine answers %s, expected the 3 combinations" % (2 * w + 24, (db.dead or got)[:200])))
                    break
            res.note_case("wide joined rows w=%d %s" % (w, sorted(shapes)), True)
            if fails:
                break
        finally:
            db.destroy()
    return fails


def small_pool_dml(res, rng, frames=32, steps=60, fails=None, nrows=250):
    fails = fails if fails is not None else []
    m = Mirror(rng, mem_kb=frames * 4)
    try:
        if not m.open():
            return fails + m.fails
        # one SQL table (skip-list index on every column) and one without indexes
        if not m.create("pa", via_sql=True, ncols=2, types=["i", "s"]) or not m.create("pb", via_sql=False, kinds_pool="n", ncols=3, types=["i", "s", "i"]):
            return fails + m.fails
        for name in ("pa", "pb"):
            for i in range(nrows):
                vals = m.rnd_vals(name, small=False)
                vals = [Val("s", (v.v + b"e" * 200)[:180 + i % 50]) if v.kind == "s" else v for v in vals]
                m.insert(name, vals)
        for step in range(steps):
            name = rng.choice(["pa", "pb"])
            r = rng.random()
            if r < 0.35:
                m.update(name)
            elif r < 0.5:
                m.delete(name)
            elif r < 0.75:
                vals = m.rnd_vals(name, small=False)
                vals = [Val("s", (v.v + b"f" * 200)[:150 + step % 80]) if v.kind == "s" else v for v in vals]
                m.insert(name, vals)
            else:
                m.txn_block(name, rng.randrange(1, 4), rng.random() < 0.6)
            if step % 10 == 9:
                m.verify(name, nq=3, what="under eviction pressure (%d frames)" % frames)
            if m.fails or m.db.dead:
                break
        if not m.fails and not m.db.dead:
            for name in ("pa", "pb"):
                m.verify(name, nq=4, what="at end, %d frames" % frames)
                m.verify_index(name, what="at end, %d frames" % frames)
        if m.db.dead and not m.fails:
            m.fail(m.db.log[-1], "engine stopped answering in a %d-frame pool: %s" % (frames, m.db.dead))
        res.evaluations += steps
        res.extra["pressure_dml_frames"] = frames
        return fails + m.fails
    finally:
        m.close()
