"""Row (tuple) codec: extracted model (coq/Model/TupleCodec.v, build/tuple_driver) against the real code
(`verifharness tuplecodec`: tuple.NewTupleFromSchema / Tuple.Data / Size / GetValue / GetValueInBytes,
Value.Serialize / NewValueFromBytes, schema.NewSchema) on random inputs.  No database is involved.

Cases (one line each, the same line goes to both sides):
  E <schema> <values>   build the tuple, print bytes + Size(), read every column back.
                        Schemas: 1..20 columns (rarely 0) over Integer / Float / Boolean / Varchar.  Rows: boundary
                        and random int32, float32 bit patterns (+-0, denormals, +-inf, quiet and signalling NaNs, max),
                        strings (empty .. several thousand bytes, every byte value; rarely the lengths around the
                        uint16 / int16 limits: 32767, 32768, 65532..65537, 70000), NULL in any column (typed, and the
                        engine's own Integer-typed types.NewNull()).  Mostly well-typed; some rows have values of
                        another type than the column (the Go code does not check; the model follows the code), some
                        are too short (index out of range) or too long.
  D <schema> <hex>      read every column of given bytes: tuples produced by E cases, unchanged and damaged (truncated,
                        a byte changed, a length or pointer field changed, extended).
Compared per case: the whole answer line (tuple bytes, Size(), every GetValue answer with NULL-ness and value type, every
GetValueInBytes answer, panics).  Checked in addition, independently of the model:
  - Size() is the number of bytes of Data() and, for well-typed rows, sum of fixed lengths + sum of (len+3) over Varchars;
  - when the model's hypothesis tc_row_ok holds (column `ok=1` of the driver) every column must read back as the token that
    was stored (this is the statement of tuple_roundtrip on the real code);
  - when only tc_row_wf holds (a Varchar longer than 65532 bytes) the real code must answer what tc_readback predicts
    (driver column `rb=1`): these cases are counted in res.extra["tuple_codec_cases"]["long_varchar"].
Mismatches go to res.mismatches as (replay_text, message); the replay text can be fed to both programs as it is.
Environment: TUPLE_HARNESS / TUPLE_DRIVER override the two binaries (private builds)."""
import os, random, subprocess, sys, time

sys.path.insert(0, os.path.dirname(os.path.abspath(__file__)))
from vlib import BUILD, HARNESS_BIN, Result, big_stack


def harness_bin():
    return os.environ.get("TUPLE_HARNESS") or HARNESS_BIN


def driver_bin():
    return os.environ.get("TUPLE_DRIVER") or os.path.join(BUILD, "tuple_driver")


TYPES = "ifbs"
FIXED = {"i": 5, "f": 5, "b": 2, "s": 4}

INTS = [0, 1, -1, 2, 127, 128, 255, 256, 32767, 32768, 65535, 65536, 2147483647, -2147483648, 2147483646, -2147483647,
        2147418112, 2147418111, 16777216, -16777216, 0x01020304, -0x01020304]
FLOATS = [0x00000000, 0x80000000,           # +0 -0
          0x00000001, 0x807fffff, 0x007fffff, 0x00800000,   # denormals, smallest normal
          0x7f800000, 0xff800000,           # +-inf
          0x7fc00000, 0xffc00000, 0x7fc00001, 0x7fffffff, 0xffffffff,   # quiet NaNs
          0x7f800001, 0xff800001, 0x7fa00000, 0x7fbfffff,   # signalling NaNs
          0x7f7fffff, 0xff7fffff, 0x3f800000, 0xbf800000, 0x3fc00000, 0x4b000000]
RARE_LENS = [32764, 32765, 32767, 32768, 32769, 65531, 65532, 65533, 65534, 65535, 65536, 65537, 65540, 70000]


def rnd_bytes(rng, n):
    mode = rng.randrange(4)
    if mode == 0:
        return bytes(rng.randrange(256) for _ in range(n))
    if mode == 1:
        return bytes(rng.choice(b"abcxyz 0189_%'") for _ in range(n))
    if mode == 2:
        b = rng.randrange(256)
        return bytes([b]) * n
    return bytes(rng.choice([0, 0, 1, 255, 0x80, 0x7f, 0xc3, 0xa9]) for _ in range(n))


def gen_str(rng, st, huge):
    r = rng.random()
    if huge:
        n = rng.choice(RARE_LENS)
    elif r < 0.12:
        n = 0
    elif r < 0.45:
        n = rng.randrange(1, 12)
    elif r < 0.70:
        n = rng.randrange(12, 300)
    elif r < 0.80:
        n = rng.choice([253, 254, 255, 256, 257, 258, 259, 260, 509, 512, 1021, 1024])
    else:
        n = rng.randrange(300, 6000)
        if n > st["_budget"]:              # keep the whole row below ~15 kB (the model side is list based)
            n = rng.randrange(0, 40)
    st["_budget"] -= n
    st["maxlen"] = max(st["maxlen"], n)
    b = rnd_bytes(rng, n)
    return "s:" + (b.hex() if n else "-"), n


def gen_val(rng, ty, st, huge=False):
    """returns (token, expected read-back token, varchar length or None)"""
    if ty == "i":
        z = rng.choice(INTS) if rng.random() < 0.5 else rng.randrange(-2 ** 31, 2 ** 31)
        if z in (2147483647, -2147483648):
            st["int_boundary"] += 1
        return "i:%d" % z, "i:%d" % z, None
    if ty == "f":
        if rng.random() < 0.6:
            u = rng.choice(FLOATS)
        else:
            u = rng.randrange(2 ** 32)
        e, m = (u >> 23) & 0xff, u & 0x7fffff
        if e == 255 and m:
            st["float_nan"] += 1
            if not m & 0x400000:
                st["float_snan"] += 1
        elif e == 255:
            st["float_inf"] += 1
        elif e == 0 and m:
            st["float_denormal"] += 1
        elif u == 0x80000000:
            st["float_negzero"] += 1
        return "f:%d" % u, "f:%d" % u, None
    if ty == "b":
        b = rng.randrange(2)
        return "b:%d" % b, "b:%d" % b, None
    tok, n = gen_str(rng, st, huge)
    if n == 0:
        st["str_empty"] += 1
    if n >= 1000:
        st["str_ge_1000"] += 1
    return tok, tok, n


def gen_schema(rng):
    r = rng.random()
    if r < 0.01:
        return "-"
    n = rng.randrange(1, 21)
    w = rng.choice([(4, 3, 1, 4), (1, 1, 1, 1), (1, 0, 0, 5), (5, 5, 2, 1), (0, 0, 0, 1), (1, 1, 3, 1)])
    return "".join(rng.choices(TYPES, weights=w)[0] for _ in range(n))


def gen_E(rng, st):
    """returns (line, info) ; info = dict(kind, expect (list of tokens or None), size (int or None))"""
    sch = gen_schema(rng)
    cols = "" if sch == "-" else sch
    r = rng.random()
    kind = "valid"
    if r < 0.08:
        kind = "mistyped"
    elif r < 0.11:
        kind = "short"
    elif r < 0.13:
        kind = "long"
    if kind in ("short",) and not cols:
        kind = "valid"
    toks, expect = [], []
    size = sum(FIXED[c] for c in cols)
    nullp = rng.choice([0.0, 0.1, 0.1, 0.3, 0.9])
    st["_budget"] = 15000
    # about 2% of the rows get ONE string with a length around the uint16 / int16 limits
    scols = [i for i, c in enumerate(cols) if c == "s"]
    huge_col = rng.choice(scols) if scols and rng.random() < 0.025 else -1
    for ci, c in enumerate(cols):
        ty = c
        if kind == "mistyped" and rng.random() < 0.35:
            ty = rng.choice(TYPES)
        if rng.random() < nullp:
            st["null_" + c] += 1
            if ty != c:
                toks.append("n" + ty)
            elif c == "i" and rng.random() < 0.3:
                toks.append("N")
            elif kind == "mistyped" and rng.random() < 0.3:
                toks.append("N")           # the engine's Integer-typed NULL in a column of any type
            else:
                toks.append(rng.choice(["n", "n" + c]))
            expect.append("n" + c)
            if c == "s":
                size += 3
            continue
        tok, back, n = gen_val(rng, ty, st, ci == huge_col and ty == "s")
        toks.append(tok)
        expect.append(back)
        if c == "s" and n is not None:
            size += n + 3
    if kind == "short":
        k = rng.randrange(len(toks))
        toks = toks[:k]
    elif kind == "long":
        for _ in range(rng.randrange(1, 4)):
            toks.append(gen_val(rng, rng.choice(TYPES), st)[0])
    st["kind_" + kind] += 1
    st["ncols_%s" % ("0" if not cols else "1-3" if len(cols) <= 3 else "4-10" if len(cols) <= 10 else "11-20")] += 1
    line = "E %s %s" % (sch, " ".join(toks))
    return line.rstrip(), {"kind": kind, "expect": expect, "size": size, "ncols": len(cols)}


def damage(rng, data):
    """a damaged copy of tuple bytes"""
    b = bytearray(data)
    r = rng.randrange(7)
    if r == 0 or not b:
        return bytes(b), "same"
    if r == 1:
        return bytes(b[:rng.randrange(len(b) + 1)]), "truncated"
    if r == 2:
        return bytes(b[:max(0, len(b) - rng.randrange(1, 4))]), "truncated"
    if r == 3:
        i = rng.randrange(len(b))
        b[i] = rng.choice([0, 1, 2, 3, 4, 5, 0x7f, 0x80, 0xff, rng.randrange(256)])
        return bytes(b), "byte"
    if r == 4:
        for _ in range(rng.randrange(1, 5)):
            i = rng.randrange(len(b))
            b[i] = rng.randrange(256)
        return bytes(b), "bytes"
    if r == 5:
        return bytes(b) + rnd_bytes(rng, rng.randrange(1, 8)), "extended"
    i = rng.randrange(len(b))
    b[i] = (b[i] + rng.choice([1, -1, 3, -3])) % 256
    return bytes(b), "field"


class Counter(dict):
    def __missing__(self, k):
        return 0


def run_side(argv, text, timeout):
    try:
        p = subprocess.run(argv, input=text.encode(), stdout=subprocess.PIPE, stderr=subprocess.DEVNULL, timeout=timeout,
                           preexec_fn=big_stack)
    except subprocess.TimeoutExpired:
        return None, "timeout after %ss" % timeout
    if p.returncode != 0:
        return None, "exit code %d" % p.returncode
    return p.stdout.decode(errors="replace").split("\n")[:-1], None


def parse_answer(a):
    d = {}
    for f in a.split():
        if "=" in f:
            k, v = f.split("=", 1)
            d[k] = v
    return d


def norm_tok(tok, col):
    """the token a stored value must read back as (well-typed rows)"""
    if tok in ("n", "N"):
        return "n" + col
    return tok


def run_batch(res, st, lines, infos, counters):
    """run both sides on the lines; returns the Go answers (for D-case generation)"""
    text = "\n".join(lines) + "\n"
    go, err = run_side([harness_bin(), "tuplecodec", "-"], text, 600)
    if go is None:
        res.broken.append("tuple codec correspondence: `verifharness tuplecodec` failed: %s" % err)
        return None
    ml, err = run_side([driver_bin()], text, 600)
    if ml is None:
        res.broken.append("tuple codec correspondence: build/tuple_driver failed: %s" % err)
        return None
    if len(go) != len(lines) or len(ml) != len(lines):
        res.broken.append("tuple codec correspondence: %d cases, %d harness answers, %d model answers" % (len(lines), len(go), len(ml)))
        return None
    for line, info, g, m in zip(lines, infos, go, ml):
        counters["cases"] += 1
        mm, _, mx = m.partition(" | ")
        flags = parse_answer(mx)
        why = None
        if g == "badcase" or mm == "badcase":
            res.broken.append("tuple codec correspondence: a generated case was rejected as malformed: %s" % line[:200])
            continue
        if g != mm:
            why = "model and Go code answer differently"
        ga = parse_answer(g)
        nontrivial = False
        if why is None and line.startswith("E"):
            if g == "panic":
                st["E_panic"] += 1
                if info["kind"] in ("valid", "long"):
                    why = "NewTupleFromSchema panics on a well-typed row that has a value for every column"
            else:
                data = "" if ga["data"] == "-" else ga["data"]
                if int(ga["size"]) * 2 != len(data):
                    why = "Size() = %s but Data() has %d bytes" % (ga["size"], len(data) // 2)
                cols = [] if ga["cols"] == "-" else ga["cols"].split(",")
                if info["kind"] == "short":
                    why = why or "a row shorter than the schema was accepted"
                elif info["kind"] == "long":
                    st["rows_with_extra_values_agreeing"] += 1       # the extra values are ignored by both sides
                    nontrivial = info["ncols"] > 0
                elif info["kind"] == "valid" and flags.get("wf") != "1":
                    why = why or "generator/model disagreement: a well-typed row is not tc_row_wf"
                elif info["kind"] == "valid":
                    nontrivial = info["ncols"] > 0
                    if int(ga["size"]) != info["size"]:
                        why = why or "Size() = %s, expected %d (fixed lengths + (len+3) per Varchar)" % (ga["size"], info["size"])
                    if flags.get("ok") == "1":
                        st["roundtrip_checked"] += 1
                        if cols != info["expect"]:
                            bad = [i for i, (a, b) in enumerate(zip(cols, info["expect"])) if a != b]
                            why = why or "values do not read back as stored (columns %s) although tc_row_ok holds" % bad
                    else:
                        st["long_varchar"] += 1
                        if flags.get("rb") != "1":
                            why = why or "model: read-back differs from tc_readback on a well-formed row"
                        if "panic" in cols:
                            st["long_varchar_getvalue_panics"] += 1
                        elif cols != info["expect"]:
                            st["long_varchar_silently_truncated"] += 1
                else:
                    st["mistyped_rows_agreeing"] += 1
                    nontrivial = True
                if "panic" in ga.get("gvb", ""):
                    st["getvalueinbytes_panics"] += 1
        elif why is None:
            st["D_" + info["kind"]] += 1
            nontrivial = True
            if "panic" in ga.get("cols", ""):
                st["D_getvalue_panics"] += 1
            if info.get("expect") is not None and ga.get("cols") != info["expect"]:
                why = "GetValue on the unchanged bytes of a tuple differs from the read-back right after building it"
        res.note_case(line, nontrivial)
        if why:
            counters["mismatches"] += 1
            if len(res.mismatches) < 5:
                show = line if len(line) < 4000 else line[:4000] + "...(%d characters)" % len(line)
                head = ("# row codec model/engine correspondence (lib/tuplecorr.py)\n"
                        "# feed the case line to `verifharness tuplecodec -` and to build/tuple_driver\n"
                        "# Go   : %s\n# model: %s\n" % (g[:3000], m[:3000]))
                res.mismatches.append((head + line + "\n", "row codec (Model/TupleCodec.v) vs tuple.go/column_value.go: %s; case: %s" % (why, show[:300])))
    return go


def run_corr(res, rng, ncases):
    """see the module header"""
    for p, what in ((harness_bin(), "Go harness"), (driver_bin(), "extracted row codec model (build/tuple_driver)")):
        if not os.path.exists(p):
            res.broken.append("tuple codec correspondence: %s is missing: %s" % (what, p))
            return
    st = Counter()
    st["maxlen"] = 0
    counters = Counter()
    t0 = time.time()
    try:
        done = 0
        while done < ncases:
            nb = min(400, ncases - done)
            nE = max(1, int(nb * 0.85))
            lines, infos = [], []
            for _ in range(nE):
                l, i = gen_E(rng, st)
                lines.append(l)
                infos.append(i)
            go = run_batch(res, st, lines, infos, counters)
            if go is None:
                return
            done += nE
            # D cases from the tuples the engine has just built
            pool = []
            for l, g in zip(lines, go):
                if g.startswith("data=") and len(g) < 20000:
                    a = parse_answer(g)
                    if a["data"] != "-" and a["cols"] != "-":
                        pool.append((l.split()[1], bytes.fromhex(a["data"]), a["cols"]))
            nD = nb - nE
            if nD > 0 and pool:
                dl, di = [], []
                for _ in range(nD):
                    sch, data, cols = rng.choice(pool)
                    d, how = damage(rng, data)
                    if rng.random() < 0.1:
                        sch = gen_schema(rng)          # another schema over the same bytes
                        if sch == "-":
                            sch = "s"
                        how = "reschema"
                    dl.append("D %s %s" % (sch, d.hex() if d else "-"))
                    di.append({"kind": how, "expect": cols if how == "same" else None})
                if run_batch(res, st, dl, di, counters) is None:
                    return
            done += nD
    except Exception as ex:          # a bug of this module must not look like agreement
        res.broken.append("tuple codec correspondence crashed: %s: %s" % (type(ex).__name__, str(ex)[:300]))
    finally:
        x = res.extra.setdefault("tuple_codec_cases", {})
        for k, v in list(st.items()) + list(counters.items()):
            if k == "_budget":
                continue
            if k == "maxlen":
                x[k] = max(x.get(k, 0), v)
            else:
                x[k] = x.get(k, 0) + v
        x["seconds"] = round(x.get("seconds", 0) + time.time() - t0, 1)


if __name__ == "__main__":
    import argparse, json
    ap = argparse.ArgumentParser()
    ap.add_argument("--seed", type=int, default=1)
    ap.add_argument("--n", type=int, default=2000)
    ap.add_argument("--show", type=int, default=1)
    a = ap.parse_args()
    res = Result("TUPLECORR", "cli", a.seed)
    run_corr(res, random.Random(a.seed), a.n)
    print(json.dumps(res.extra, indent=1, sort_keys=True))
    print("evaluations %d  nontrivial %d  mismatches %d  broken %d" % (res.evaluations, len(res.nontrivial), len(res.mismatches), len(res.broken)))
    for b in res.broken:
        print("BROKEN:", b)
    for i, (text, why) in enumerate(res.mismatches):
        print("MISMATCH %d: %s" % (i + 1, why))
        if i < a.show:
            print(text[:6000])
    sys.exit(1 if res.mismatches or res.broken else 0)
