"""Page-id allocation and reuse: extracted model (coq/Model/PageAlloc.v, build/pagealloc_driver) against a real
engine instance (`verifharness pagealloc`: disk manager on files + log manager + buffer pool + transaction manager,
started and restarted with the engine's own start-up sequence), on random histories.

A history is what the callers of the pool do, on a pool of 4..16 frames: NewPage (also as TablePage.Init does it
when a heap grows, inside a real transaction), unpin, fetch, FlushPage, log flush, the three ways a page is given
back (hash-join style DeallocatePage(id,true) of an unpinned page — resident or already cached out —, the same call
on a pinned page, skip-list style SetIsDeallocated + unpin + DeallocatePage(id,false)), inside transactions that
commit or abort, DiskManager.AllocatePage probes, clean restarts and crash restarts.

Every call is made on the engine first.  What the model takes as inputs is read off the engine's answer: which
flagged pages were cached out by the call, which pages were written to the db file (hook H1), which memory effect a
DeallocatePage call had, the order of the reusable list after a restart (Go map order) and how many allocation
records the log file holds at a crash.  Compared after every call: the id returned (NewPage, probe), the reusable
list (order included), the set of flagged pages, the db file size in pages; at every restart the allocation records
found in the log file (DEALLOCATE_PAGE / REUSE_PAGE / NewTablePage, in order) against the model's log, and the model
must accept the engine's list order as a permutation of the set it computes.

ORACLE (independent of the model): this module plays the owners.  It remembers every id NewPage returned and it has
not given back; owners survive a clean restart, and a crash restart if their page reached the db file or their
NewTablePage record reached the log file.  An id handed out while an owner holds it, or two frames of the pool
holding the same page id, is a violation.  Violations carry a signature:
  F-ALLOC-LOG-RACE     an allocation overtook the log half of a deallocation (model: pa_client_ok = false; only in
                       histories that emulate two threads, see `races`, and in the two race probes).  A recorded
                       finding: reported through res.known_hits["F-ALLOC-LOG-RACE"], not res.oracle_failures.
  ILL-FORMED-IMAGE     the model calls the restart image ill formed (pa_image_ok = false).  For the current engine
                       that is the owned half only, which this module's owners keep: not expected.  For the pre-fix
                       model (variant "prefix", engine before d99b876) it is the repaired defect F-ALLOC-BEYOND-FILE.
  UNEXPLAINED          anything else.
Everything but F-ALLOC-LOG-RACE goes to res.oracle_failures.  The default run (model of the current engine, Redo with
the repair d99b876) expects no mismatch and no oracle failure, with temporary pages given back above the end of the
db file included.
Three probes outside the model correspondence: run_db_probe (the witness of the repaired defect through SQL on a whole
database: must find nothing now), run_race_probe (the log race as a single-threaded interleaving of pool calls,
deterministic) and run_thread_probe (the log race with real goroutines); the race probes fill res.known_hits.
Not observable: DiskManagerImpl.nextPageID (read through probes and through every NewPage answered while the
reusable list is empty).
"""
import os, random, shutil, sys, tempfile, time

sys.path.insert(0, os.path.dirname(os.path.abspath(__file__)))
from vlib import BUILD, HARNESS_BIN, Result
from dbsession import Proc

HARNESS = os.environ.get("PAGEALLOC_HARNESS", HARNESS_BIN)
DRIVER = os.environ.get("PAGEALLOC_DRIVER", os.path.join(BUILD, "pagealloc_driver"))


RACE = "F-ALLOC-LOG-RACE"


def _hit(res, what):
    """record a reproduction of the listed finding (several probes may add to the same entry)"""
    old = res.known_hits.get(RACE)
    if old is None:
        res.known_hits[RACE] = what
    elif what[:60] not in old:
        res.known_hits[RACE] = old + " || " + what


class Diverged(Exception):
    pass


class OracleFailed(Exception):
    pass


def kvs(line):
    d = {}
    for f in line.split():
        if "=" in f:
            k, v = f.split("=", 1)
            d[k] = v
        else:
            d.setdefault("_", f)
    return d


def ilist(s):
    return [int(x) for x in (s or "").split(",") if x]


class Corr:
    def __init__(self, res, rng, variant="", avoid=()):
        self.res, self.rng, self.avoid = res, rng, set(avoid)
        os.makedirs(os.path.join(BUILD, "tmp"), exist_ok=True)
        self.dir = tempfile.mkdtemp(prefix="pagealloc_", dir=os.path.join(BUILD, "tmp"))
        self.engine = None
        self.variant = variant
        self.model = Proc([DRIVER] + ([variant] if variant else []))
        self.nhist = self.nops = self.nmis = self.norc = self.nrace = 0
        self.kinds = {}
        self.stats = {"new": 0, "reused": 0, "dealloc": 0, "clean": 0, "crash": 0, "illformed_images": 0,
                      "race_windows": 0, "evictions_of_flagged": 0}
        self.log = []
        self.hno = 0

    # ---------------------------------------------------------------- processes
    def start_engine(self):
        if self.engine is None:
            d = tempfile.mkdtemp(prefix="e_", dir=self.dir)
            self.engine = Proc([HARNESS, "pagealloc", "-", d])
            self.running = False

    def stop_engine(self):
        if self.engine is not None:
            self.engine.kill()
            self.engine = None

    def close(self):
        self.stop_engine()
        self.model.close()
        shutil.rmtree(self.dir, ignore_errors=True)

    def E(self, line):
        self.log.append("E> " + line)
        r = self.engine.ask(line, 30.0)
        self.log.append("E< " + str(r))
        if r is None:
            self.engine = None
            raise Diverged("the engine does not answer %r (hang or process death)" % line)
        e = kvs(r)
        if e.get("_", "").startswith("err") or e.get("_") == "panic":
            raise Diverged("the engine answers %r to %r" % (e.get("_"), line))
        return e

    def M(self, line):
        self.log.append("M> " + line)
        r = self.model.ask(line, 30.0)
        self.log.append("M< " + str(r))
        if r is None:
            self.model = Proc([DRIVER] + ([self.variant] if self.variant else []))
            raise Diverged("the model driver does not answer %r" % line)
        m = kvs(r)
        if m.get("ok") == "0":
            self.contract_broken = True
            # (after an ill-formed restart image ids at or above the allocator's next id are in use: "only
            #  allocated ids are written" no longer holds in the model's terms)
            if not self.racing and not self.image_bad:
                raise Diverged("the model calls %r a breach of the callers' contract (pa_client_ok) in a history that keeps it" % line)
        if m.get("img") == "0":
            self.image_bad = True
            self.stats["illformed_images"] += 1
        return m

    def transcript(self):
        return "\n".join(self.log) + "\n"

    def count(self, k):
        self.kinds[k] = self.kinds.get(k, 0) + 1
        self.nops += 1

    # ---------------------------------------------------------------- comparison
    def feed_events(self, e, skip_evicted=False):
        """cache-outs of flagged pages and page writes the engine performed inside the call, as model inputs"""
        if not skip_evicted:
            for p in ilist(e.get("evicted")):
                self.stats["evictions_of_flagged"] += 1
                self.M("evict %d" % p)
        for p in ilist(e.get("wrote")):
            self.M("wrote %d" % p)
            if p in self.owners:
                self.owners[p]["written"] = True

    def take(self, e):
        self.pins = {}
        for x in (e.get("pinned") or "").split(","):
            if x:
                a, b = x.split(":")
                self.pins[int(a)] = self.pins.get(int(a), 0) + int(b)
        self.resident = ilist(e.get("resident"))
        self.npages = int(e.get("npages", "0"))
        if len(set(self.resident)) != len(self.resident):
            dup = sorted(p for p in set(self.resident) if self.resident.count(p) > 1)
            self.oracle("two frames of the pool hold the same page id %s" % dup)

    def compare(self, e, m, what):
        if ilist(e.get("reusable")) != ilist(m.get("reusable")):
            raise Diverged("%s: reusable list: engine %s, model %s" % (what, e.get("reusable"), m.get("reusable")))
        if sorted(ilist(e.get("flagged"))) != sorted(ilist(m.get("flagged"))):
            raise Diverged("%s: flagged pages: engine %s, model %s" % (what, e.get("flagged"), m.get("flagged")))
        if int(e.get("npages", "0")) != int(m.get("fsize", "-1")):
            raise Diverged("%s: db file size in pages: engine %s, model %s" % (what, e.get("npages"), m.get("fsize")))

    def oracle(self, msg):
        if self.image_bad:
            sig = "F-ALLOC-BEYOND-FILE (repaired by d99b876)" if self.variant == "prefix" else "ILL-FORMED-IMAGE"
        elif self.contract_broken:
            sig = "F-ALLOC-LOG-RACE"
        else:
            sig = "UNEXPLAINED"
        raise OracleFailed("%s: %s" % (sig, msg))

    # ---------------------------------------------------------------- operations
    def pinned_total(self):
        return sum(self.pins.values())

    def op_new(self, heap=False):
        if len(self.pins) >= self.frames - 2:
            return self.op_unpin()
        e = self.E("newheap -1" if heap else "new")
        if e.get("_") == "nil":
            raise Diverged("NewPage returned nil")
        self.feed_events(e)
        m = self.M("newheap" if heap else "new")
        pid = int(e["id"])
        self.stats["new"] += 1
        if pid in self.ever_released:
            self.stats["reused"] += 1
        if e.get("id") != m.get("id"):
            raise Diverged("NewPage: engine returned %s, model %s" % (e.get("id"), m.get("id")))
        self.compare(e, m, "NewPage")
        # oracle, before this module's books are touched
        if pid in self.owners:
            self.take(e)
            self.oracle("NewPage handed out id %d while an owner holds it (owners: %s)" % (pid, sorted(self.owners)))
        self.owners[pid] = {"heap": heap, "written": False, "dirtied": False}
        self.zombies.discard(pid)
        self.take(e)
        self.count("newheap" if heap else "new")

    def pick(self, pred, heap_too=True):
        # heap pages are never given back (TableHeap has no page deallocation)
        c = [p for p in sorted(self.owners) if pred(p) and (heap_too or not self.owners[p]["heap"])]
        return self.rng.choice(c) if c else None

    def op_unpin(self):
        c = sorted(self.pins)
        if not c:
            return
        p = self.rng.choice(c)
        # contract of the pool's users (C13/C14): a page that was modified — a new page is — is released dirty
        clean = p in self.owners and self.owners[p]["dirtied"] and self.rng.random() < 0.2
        e = self.E("unpin %d %d" % (p, 0 if clean else 1))
        if p in self.owners:
            self.owners[p]["dirtied"] = True
        self.take(e)
        self.count("unpin")

    def op_fetch(self):
        if len(self.pins) >= self.frames - 2:
            return self.op_unpin()
        p = self.pick(lambda p: p not in self.pins)
        if p is None:
            return
        e = self.E("fetch %d" % p)
        self.feed_events(e)
        self.take(e)
        self.sync_state(e, "FetchPage")
        self.count("fetch")

    def sync_state(self, e, what):
        """compare without a model operation of its own: ask the model for its state through a no-op-free path"""
        # the model driver prints its state after every command; the last answer is current
        m = self.last_model_state()
        self.compare(e, m, what)

    def last_model_state(self):
        for l in reversed(self.log):
            if l.startswith("M< ") and "reusable=" in l:
                return kvs(l[3:])
        return {"reusable": "", "flagged": "", "fsize": "0"}

    def op_flush(self):
        p = self.pick(lambda p: p in self.resident)
        if p is None:
            return
        e = self.E("flush %d" % p)
        self.feed_events(e)
        self.take(e)
        self.sync_state(e, "FlushPage")
        self.count("flush")

    def op_flushlog(self):
        e = self.E("flushlog")
        m = self.M("flushlog")
        self.compare(e, m, "log flush")
        self.take(e)
        self.count("flushlog")

    def op_probe(self):
        e = self.E("probe")
        m = self.M("probe")
        if e.get("id") != m.get("id"):
            raise Diverged("AllocatePage: engine returned %s, model %s" % (e.get("id"), m.get("id")))
        self.take(e)
        self.count("probe")

    def expected_mode(self, p, nowait):
        if not nowait or p not in self.resident:
            return "none"
        return "flag" if p in self.pins else "now"

    def release(self, p):
        del self.owners[p]
        self.ever_released.add(p)
        self.stats["dealloc"] += 1

    def op_dealloc_nowait(self, pinned):
        """DeallocatePage(id, true): hash join style (unpinned) or on a page the caller still pins"""
        if pinned:
            p = self.pick(lambda p: p in self.pins, False)
        else:
            p = self.pick(lambda p: p not in self.pins, False)
        if p is None:
            return
        if "beyond" in self.avoid and p >= self.npages and p in self.resident:
            e = self.E("flush %d" % p)     # keep the id below the file size (see the module header)
            self.feed_events(e)
            self.take(e)
        if "beyond" in self.avoid and p >= self.npages:
            return
        exp = self.expected_mode(p, True)
        e = self.E("dealloc %d 1" % p)
        mode = e.get("mode")
        if mode != exp:
            raise Diverged("DeallocatePage(%d,true): memory effect %s, expected %s from the pool state before the call" % (p, mode, exp))
        self.M("release %d %s" % (p, mode))
        m = self.M("logdealloc %d" % p)
        self.compare(e, m, "DeallocatePage")
        self.release(p)
        if mode == "flag":
            self.zombies.add(p)
        self.take(e)
        self.count("dealloc_" + mode)

    def op_dealloc_skiplist(self, window=0):
        """SkipListBlockPage.Remove: SetIsDeallocated(true) by the pin holder, unpin; SkipList.Remove: DeallocatePage(id,false)"""
        p = self.pick(lambda p: p in self.pins, False)
        if p is None:
            return
        if "beyond" in self.avoid and p >= self.npages:
            e = self.E("flush %d" % p)
            self.feed_events(e)
            self.take(e)
        e = self.E("mark %d" % p)
        m = self.M("release %d flag" % p)
        self.compare(e, m, "SetIsDeallocated")
        self.release(p)
        self.zombies.add(p)
        self.take(e)
        while p in self.pins:
            e = self.E("unpin %d 1" % p)
            self.take(e)
        if window:
            # another thread runs between the two halves (SkipList.Remove holds no lock there)
            self.racing = True
            self.stats["race_windows"] += 1
            for _ in range(window):
                self.op_new()
                self.op_unpin()
        e = self.E("dealloc %d 0" % p)
        m = self.M("logdealloc %d" % p)
        self.compare(e, m, "DeallocatePage(id,false)")
        self.take(e)
        self.count("dealloc_skiplist")

    def op_txn(self):
        e = self.E("commit" if self.rng.random() < 0.5 else "abort")
        self.take(e)
        self.sync_state(e, "commit/abort")
        e = self.E("begin")
        self.take(e)
        self.count("txn_end")

    def restart(self, crash):
        name = "h%d" % self.hno
        model_log = self.last_model_state().get("log", "")
        if not crash:
            # nobody holds a page over a shutdown; what was modified was released dirty
            while self.pins:
                p = sorted(self.pins)[0]
                self.take(self.E("unpin %d 1" % p))
        e = self.E("crash" if crash else "close")
        self.feed_events(e, skip_evicted=True)
        model_log = self.last_model_state().get("log", model_log)
        e = self.E("open %s %d" % (name, self.frames))
        order = e.get("reusable") or "-"
        elog = [x for x in (e.get("log") or "").split(",") if x]
        mlog = [x for x in model_log.split(",") if x]
        if crash:
            kept = len(elog)
            if elog != mlog[:kept]:
                raise Diverged("crash: allocation records in the log file %s, model log %s" % (elog, mlog))
            surv = [p for p in sorted(self.owners)
                    if self.owners[p]["written"] or (self.owners[p]["heap"] and ("H%d" % p) in elog)]
            m = self.M("crash %d %s %s" % (kept, ",".join(map(str, surv)) or "-", order))
            for p in list(self.owners):
                if p not in surv:
                    del self.owners[p]       # the owner did not survive: its id is nobody's
            self.stats["crash"] += 1
        else:
            if elog != mlog:
                raise Diverged("clean shutdown: allocation records in the log file %s, model log %s" % (elog, mlog))
            m = self.M("clean %s" % order)
            self.stats["clean"] += 1
            for p in list(self.owners):
                if p >= int(e.get("npages", "0")):
                    raise Diverged("clean shutdown: page %d of an owner that released it dirty is not in the db file" % p)
        if m.get("_") != "ok":
            raise Diverged("restart: the model rejects the inputs taken from the engine (list order %s, model set %s)" % (order, m.get("reusable")))
        self.compare(e, m, "restart")
        for p in self.owners:
            if p < int(e.get("npages", "0")):
                self.owners[p]["written"] = True     # also the pages the redo of NewTablePage records created
        self.zombies = set()
        self.take(e)
        e = self.E("begin")
        self.take(e)
        self.count("crash_restart" if crash else "clean_restart")

    # ---------------------------------------------------------------- histories
    def begin_history(self):
        self.hno += 1
        self.log = []
        self.owners, self.zombies, self.ever_released = {}, set(), set()
        self.racing = self.contract_broken = self.image_bad = False
        self.start_engine()
        if self.running:
            self.E("crash")
        self.frames = self.rng.choice([4, 5, 6, 8, 16])
        e = self.E("init h%d %d" % (self.hno, self.frames))
        self.running = True
        self.M("reset")
        self.take(e)
        self.take(self.E("begin"))

    def random_op(self):
        r = self.rng.random() * 100
        if r < 24:
            self.op_new()
        elif r < 32:
            self.op_new(heap=True)
        elif r < 46:
            self.op_unpin()
        elif r < 52:
            self.op_fetch()
        elif r < 60:
            self.op_flush()
        elif r < 63:
            self.op_flushlog()
        elif r < 74:
            self.op_dealloc_nowait(False)
        elif r < 78:
            self.op_dealloc_nowait(True)
        elif r < 84:
            self.op_dealloc_skiplist()
        elif r < 88:
            self.op_txn()
        elif r < 90:
            self.op_probe()
        elif r < 95:
            self.restart(False)
        else:
            self.restart(True)

    def history(self, races=False):
        self.begin_history()
        kind = self.rng.random()
        if kind < 0.12:
            # temporary pages above everything that was written, given back, restart, allocate again
            for _ in range(self.rng.randint(1, 3)):
                self.op_new(heap=self.rng.random() < 0.3)
                self.op_unpin()
            for p in list(self.owners):
                if self.rng.random() < 0.8 and p in self.resident:
                    e = self.E("flush %d" % p)
                    self.feed_events(e)
                    self.take(e)
            for _ in range(self.rng.randint(1, 3)):
                self.op_new()
                self.op_unpin()
            for _ in range(self.rng.randint(1, 3)):
                self.op_dealloc_nowait(False)
            self.restart(self.rng.random() < 0.3)
            for _ in range(self.rng.randint(2, 6)):
                self.op_new()
                self.op_unpin()
        elif races and kind < 0.30:
            # two threads: one between the two halves of a skip-list page deallocation, the other allocating
            for _ in range(self.rng.randint(2, 4)):
                self.op_new()
                if self.rng.random() < 0.7:
                    self.op_flush()
            self.op_dealloc_skiplist(window=self.frames + 1)
            self.restart(self.rng.random() < 0.5)
            for _ in range(self.rng.randint(1, 4)):
                self.op_new()
                self.op_unpin()
        n = self.rng.randint(15, 60)
        for _ in range(n):
            self.random_op()
        key = " ".join("%s=%d" % kv for kv in sorted(self.kinds.items()))
        self.res.note_case("pagealloc-h%d-%s" % (self.hno, key), self.stats["reused"] > 0)


def run_corr(res, rng, nhist, variant="", avoid=None, races=None):
    """see the module header.  variant: "" = model of the current engine, "prefix" = model of the start-up before
    d99b876 (mismatches expected against the repaired engine).  avoid: {"beyond"} keeps every released id below the db
    file size (not needed for the current engine).  races: also emulate the two-thread interleaving of the skip-list
    deallocation; what the oracle finds there is F-ALLOC-LOG-RACE -> res.known_hits.
    Defaults from env PAGEALLOC_AVOID / PAGEALLOC_RACES."""
    if avoid is None:
        avoid = [x for x in os.environ.get("PAGEALLOC_AVOID", "").split(",") if x]
    if races is None:
        races = os.environ.get("PAGEALLOC_RACES", "") not in ("", "0")
    if not os.path.exists(DRIVER):
        res.broken.append("%s is missing (extracted page allocation model)" % DRIVER)
        return
    if not os.path.exists(HARNESS):
        res.broken.append("%s is missing (Go harness)" % HARNESS)
        return
    c = Corr(res, rng, variant, avoid)
    seen_sig = set()
    try:
        for _ in range(nhist):
            head = ("# page-id allocation, model/engine correspondence and owner oracle (lib/alloccorr.py), history %d of this run\n"
                    "# E> command to `verifharness pagealloc`, E< its answer; M> command to build/pagealloc_driver, M< its answer\n" % (c.nhist + 1))
            try:
                c.history(races)
                c.nhist += 1
            except OracleFailed as o:
                c.nhist += 1
                c.norc += 1
                sig = str(o).split(":")[0]
                if sig == RACE:
                    c.nrace += 1
                    c.norc -= 1
                    if c.nrace == 1:
                        _hit(res, "emulated two-thread interleaving of a skip-list page deallocation "
                                              "(SetIsDeallocated, unpin | other thread: NewPage ... | DeallocatePage(id,false)), restart: " + str(o))
                elif sig not in seen_sig and len(res.oracle_failures) < 6:
                    seen_sig.add(sig)
                    res.oracle_failures.append((head + c.transcript(), "page id handed out while in use: " + str(o)))
                c.stop_engine()
            except Diverged as d:
                c.nhist += 1
                c.nmis += 1
                if len(res.mismatches) < 5:
                    res.mismatches.append((head + c.transcript(), "page allocation model (Model/PageAlloc.v) vs engine: " + str(d)))
                c.stop_engine()
            except Exception as ex:          # a bug of this module must not look like agreement
                res.broken.append("page allocation correspondence crashed: %s: %s" % (type(ex).__name__, str(ex)[:300]))
                break
    finally:
        c.close()
        x = res.extra.setdefault("page_alloc_histories", {})
        x["histories"] = x.get("histories", 0) + c.nhist
        x["ops"] = x.get("ops", 0) + c.nops
        x["mismatches"] = x.get("mismatches", 0) + c.nmis
        x["oracle_failures"] = x.get("oracle_failures", 0) + c.norc
        x["log_race_hits"] = x.get("log_race_hits", 0) + c.nrace
        for a, b in c.stats.items():
            x[a] = x.get(a, 0) + b
        k = x.setdefault("kinds", {})
        for a, b in c.kinds.items():
            k[a] = k.get(a, 0) + b


def _session(cmds, timeout=120.0):
    """one harness session; returns (transcript, answers as dicts) or (transcript, None) if the harness died"""
    os.makedirs(os.path.join(BUILD, "tmp"), exist_ok=True)
    d = tempfile.mkdtemp(prefix="pagealloc_p_", dir=os.path.join(BUILD, "tmp"))
    eng = Proc([HARNESS, "pagealloc", "-", d])
    log, out = [], []
    try:
        for c in cmds:
            log.append("E> " + c)
            r = eng.ask(c, timeout)
            log.append("E< " + str(r)[:2000])
            if r is None:
                return "\n".join(log) + "\n", None
            out.append(kvs(r))
        return "\n".join(log) + "\n", out
    finally:
        eng.kill()
        shutil.rmtree(d, ignore_errors=True)


def run_db_probe(res):
    """Regression probe.  The witness of restart_reuse_beyond_file_refuted (pre-fix code) through the real callers, on a whole database
    (samehada.NewSamehadaDB): two hash joins (one temporary page, allocated above every page that was written,
    given back by DeallocatePage(id,true)), clean Shutdown, reopen.  The start-up rebuilds the skip list indexes
    with NewPage: the oracle is "no two frames of the pool hold the same page id"."""
    cmds = ["dbinit a 400", "sql CREATE TABLE t1 (a INT, b INT);", "sql CREATE TABLE t2 (c INT, d INT);",
            "sql INSERT INTO t1 (a, b) VALUES (1, 10);", "sql INSERT INTO t1 (a, b) VALUES (2, 20);",
            "sql INSERT INTO t2 (c, d) VALUES (1, 100);", "sql INSERT INTO t2 (c, d) VALUES (2, 200);",
            "sql SELECT t1.a, t2.d FROM t1 JOIN t2 ON t1.a = t2.c;",
            "sql SELECT t1.a, t2.d FROM t1 JOIN t2 ON t1.a = t2.c;", "close", "dbopen a 400"]
    t, out = _session(cmds)
    x = res.extra.setdefault("page_alloc_histories", {})
    x["db_probe"] = "harness died" if out is None else "ran"
    res.note_case("pagealloc-db-probe", True)
    if out is None:
        res.broken.append("page allocation: the whole-database probe did not finish")
        return
    rs = ilist(out[-1].get("resident"))
    dup = sorted(p for p in set(rs) if rs.count(p) > 1)
    x["db_probe_duplicate_ids"] = dup
    if dup:
        res.oracle_failures.append((
            "# page-id allocation, whole database (lib/alloccorr.py run_db_probe): commands to `verifharness pagealloc`\n" + t,
            "page id handed out while in use: F-ALLOC-BEYOND-FILE (repaired by d99b876) is back: after a clean shutdown and reopen two frames of the "
            "pool hold page id %s (npages0=%s, allocation records in the log: %s)" % (dup, out[-1].get("npages0"), out[-1].get("log"))))


def run_race_probe(res):
    """F-ALLOC-LOG-RACE, deterministic: the interleaving of two threads as one sequence of pool calls.  Thread A removes
    a skip-list node (SkipListBlockPage.Remove: SetIsDeallocated(true), unpin; SkipList.Remove then calls
    DeallocatePage(id,false) without holding any lock in between); thread B allocates pages in that window: the flagged
    page is cached out, its id goes to the reusable list and B gets it (REUSE_PAGE logged); then A's DEALLOCATE_PAGE
    record is appended.  Clean shutdown, restart, NewPage: B's page id is handed out a second time.
    Fills res.known_hits[RACE] and returns True if the engine shows it."""
    frames = 4
    cmds = ["init r %d" % frames, "new", "unpin 0 1", "flush 0",          # page 0: a skip-list node, in the db file
            "fetch 0", "mark 0", "unpin 0 1"]                              # thread A, first half
    # then thread B allocates until it is handed id 0; then A's second half, restart, one more NewPage
    os.makedirs(os.path.join(BUILD, "tmp"), exist_ok=True)
    d = tempfile.mkdtemp(prefix="pagealloc_r_", dir=os.path.join(BUILD, "tmp"))
    eng = Proc([HARNESS, "pagealloc", "-", d])
    log = []

    def ask(c):
        log.append("E> " + c)
        r = eng.ask(c, 60.0)
        log.append("E< " + str(r)[:1500])
        return None if r is None else kvs(r)
    hit = False
    x = res.extra.setdefault("page_alloc_histories", {})
    res.note_case("pagealloc-race-probe", True)
    try:
        ok = True
        for c in cmds:
            ok = ok and ask(c) is not None
        got = None
        for i in range(3 * frames):
            if not ok:
                break
            e = ask("new")
            if e is None or "id" not in e:
                ok = False
                break
            if e["id"] == "0":
                got = e
                break
            ok = ask("unpin %s 1" % e["id"]) is not None
        if ok and got is not None:
            ok = ask("dealloc 0 0") is not None and ask("unpin 0 1") is not None and ask("close") is not None
            e = ask("open r %d" % frames) if ok else None
            if e is not None:
                records = e.get("log", "")
                e2 = ask("new")
                # thread B still owns page 0 (it was never given back after B got it)
                if e2 is not None and e2.get("id") == "0":
                    hit = True
                    _hit(res, 
                        "single-threaded interleaving of pool calls (thread A: SetIsDeallocated(0), unpin | thread B: NewPage "
                        "until it is handed id 0 | thread A: DeallocatePage(0,false)); clean shutdown, restart: the log holds %s, the "
                        "rebuilt reusable list holds id 0 and NewPage hands it out while thread B's owner holds it" % records)
        x["race_probe"] = "hit" if hit else ("not shown" if ok else "harness died")
        if not ok:
            res.broken.append("page allocation: the race probe did not finish:\n" + "\n".join(log[-6:]))
        return hit
    finally:
        eng.kill()
        shutil.rmtree(d, ignore_errors=True)


def run_thread_probe(res, goroutines=16, iters=150, keep=2):
    """F-ALLOC-LOG-RACE with real threads: goroutines loop NewPage / UnpinPage(dirty) / DeallocatePage(id,true) and keep
    every keep-th page; crash; restart.  Looks for ids of the rebuilt reusable list that a goroutine kept, and for
    DEALLOCATE_PAGE / REUSE_PAGE records of one id that do not alternate in the log file.  Either fills
    res.known_hits[RACE]; returns True if it did.  (~5 s: every reuse and every deallocation syncs the log file.)"""
    t, out = _session(["init r 64", "racestress %d %d %d" % (goroutines, iters, keep), "staleowned", "crash",
                       "open r 64", "staleowned"], timeout=300.0)
    x = res.extra.setdefault("page_alloc_histories", {})
    res.note_case("pagealloc-thread-probe", True)
    if out is None:
        res.broken.append("page allocation: the thread probe did not finish")
        return False
    viol = int(out[1].get("violations", "0"))
    x["thread_probe_log_order_violations"] = viol
    stale = ilist(out[-1].get("stale"))
    x["thread_probe_stale_owned_ids"] = len(stale)
    if ilist(out[2].get("stale")):
        res.oracle_failures.append((t[:6000], "page id handed out while in use: UNEXPLAINED: the in-memory reusable list holds an id a thread owns: %s" % out[2].get("stale")))
    if stale:
        _hit(res, ("%d goroutines looping NewPage / UnpinPage / DeallocatePage(id,true), crash, restart: the rebuilt "
                                "reusable list holds ids that threads still own: %s (REUSE_PAGE / DEALLOCATE_PAGE records out of "
                                "order %d times in the log)" % (goroutines, stale, viol)))
        return True
    if viol:
        _hit(res, "%d goroutines looping NewPage / UnpinPage / DeallocatePage(id,true): the REUSE_PAGE record of "
                                  "an allocation precedes the DEALLOCATE_PAGE record of the deallocation it reuses %d times in the "
                                  "log file (first: %s); no id a thread kept was affected in this run" % (goroutines, viol, out[1].get("first")))
        return True
    return False


if __name__ == "__main__":
    import argparse, json
    ap = argparse.ArgumentParser()
    ap.add_argument("--seed", type=int, default=1)
    ap.add_argument("--n", type=int, default=200)
    ap.add_argument("--avoid", default=None, help="comma separated: beyond")
    ap.add_argument("--races", action="store_true")
    ap.add_argument("--variant", default="", help="'prefix': run the MODEL of the start-up before d99b876 (mismatches expected on the repaired engine)")
    ap.add_argument("--show", type=int, default=1)
    ap.add_argument("--db-probe", action="store_true", help="also the whole-database witness (hash join, clean restart)")
    ap.add_argument("--thread-probe", action="store_true", help="also the real-thread probe (~5 s)")
    ap.add_argument("--race-probe", action="store_true", help="also the deterministic interleaving probe")
    a = ap.parse_args()
    res = Result("ALLOCCORR", "cli", a.seed)
    run_corr(res, random.Random(a.seed), a.n, a.variant, None if a.avoid is None else a.avoid.split(","), a.races or None)
    if a.db_probe:
        run_db_probe(res)
    if a.race_probe:
        print("race probe:", run_race_probe(res))
    if a.thread_probe:
        t0 = time.time()
        print("thread probe:", run_thread_probe(res), "%.1fs" % (time.time() - t0))
    print("known_hits:", json.dumps(res.known_hits, indent=1))
    print(json.dumps(res.extra, indent=1, sort_keys=True))
    print("evaluations=%d nontrivial=%d mismatches=%d oracle_failures=%d broken=%s" % (
        res.evaluations, len(res.nontrivial), len(res.mismatches), len(res.oracle_failures), res.broken))
    for t, why in (res.mismatches + res.oracle_failures)[:a.show]:
        print("----", why)
        print(t[-6000:])
