"""Clock replacer (C13, victim selection): extracted model (coq/Model/Clock.v, build/clock_driver) against the real
buffer.ClockReplacer (`verifharness clock`, lib/storage/buffer/clock_replacer.go + circular_list.go) on random
operation sequences.

A case is one replacer: `# <poolsize>` (1..12 frames; now and then 0), then 20..400 operations
  V        Victim()        -> frame id | none (the panic of an empty replacer)
  P <f>    Pin(f)          -> ok        (present and absent frames)
  U <f>    Unpin(f)        -> ok | full (absent and present frames; `full` = the panic of insert into a full list,
                                         only reachable with more distinct frame ids than the pool size)
  S        Size()
  D        the ring from the head with the reference bits, the frame under the hand, the size counter, the map size
           (read from the Go structs through unsafe; the harness answers `nodump` if the layout changed)
Every answer line is compared between model and engine; `D` is asked after about half of the operations and at the end,
so the comparison is on the whole state (order, bits, hand), not only on the victims.  Case shapes: mixed; fill and
drain (long Victim runs, past empty); pin-heavy (the node under the hand is pinned away again and again); pool-like
(frames alternate between pinned and released the way BufferPoolManager drives the replacer: Unpin only of a pinned
frame, Pin of a released one, Victim makes the frame pinned); ids outside 0..poolsize-1 and up to 2^32-1.

mismatch (model != engine) -> res.mismatches.append((replay_text, message));  res.note_case(key, nontrivial) per case;
summary in res.extra["clock_cases"].  Binaries: vlib.HARNESS_BIN and build/clock_driver; env CLOCK_HARNESS /
CLOCK_DRIVER override (private testing).
"""
import os, random, select, sys, time

sys.path.insert(0, os.path.dirname(os.path.abspath(__file__)))
from vlib import BUILD, HARNESS_BIN, Result
from dbsession import Proc

CHUNK = 64          # lines sent before the answers are read (far below the pipe capacity in both directions)


def harness_bin():
    return os.environ.get("CLOCK_HARNESS") or HARNESS_BIN


def driver_bin():
    return os.environ.get("CLOCK_DRIVER") or os.path.join(BUILD, "clock_driver")


class Diverged(Exception):
    pass


def ask_many(proc, lines, timeout=30.0):
    """send the lines, read as many answer lines; None where the process stopped answering"""
    try:
        proc.p.stdin.write(("\n".join(lines) + "\n").encode())
        proc.p.stdin.flush()
    except (BrokenPipeError, OSError):
        return [None] * len(lines)
    out = []
    end = time.time() + timeout
    while len(out) < len(lines):
        while b"\n" not in proc.buf:
            left = end - time.time()
            r = select.select([proc.p.stdout], [], [], max(left, 0))[0] if left > 0 else None
            if not r:
                proc.kill()
                return out + [None] * (len(lines) - len(out))
            chunk = os.read(proc.p.stdout.fileno(), 1 << 16)
            if not chunk:
                return out + [None] * (len(lines) - len(out))
            proc.buf += chunk
        line, proc.buf = proc.buf.split(b"\n", 1)
        out.append(line.decode(errors="replace"))
    return out


class Corr:
    def __init__(self, res, rng):
        self.res, self.rng = res, rng
        self.engine = self.model = None
        self.log = []
        self.stat = {"cases": 0, "ops": 0, "victims": 0, "victim_on_empty": 0, "pin_present": 0, "pin_absent": 0,
                     "pin_under_hand": 0, "unpin_absent": 0, "unpin_present": 0, "unpin_full": 0, "sizes": 0,
                     "dumps": 0, "max_ring": 0, "longest_victim_run": 0, "mismatch_count": 0, "shapes": {},
                     "pool_sizes": {}}

    def start(self):
        if self.engine is None:
            self.engine = Proc([harness_bin(), "clock", "-"])
        if self.model is None:
            self.model = Proc([driver_bin()])

    def close(self):
        for p in (self.engine, self.model):
            if p is not None:
                p.close()
        self.engine = self.model = None

    def transcript(self):
        return "\n".join(self.log) + "\n"

    def exchange(self, lines):
        """both sides answer the lines; returns the (agreed) answers or raises Diverged at the first difference"""
        answers = []
        for i in range(0, len(lines), CHUNK):
            part = lines[i:i + CHUNK]
            ea = ask_many(self.engine, part)
            ma = ask_many(self.model, part)
            for l, e, m in zip(part, ea, ma):
                self.log.append("> %s\nE< %s\nM< %s" % (l, e, m))
                if e is None:
                    self.engine = None
                    raise Diverged("the engine does not answer %r (hang or process death)" % l)
                if m is None:
                    self.model = None
                    raise Diverged("the model driver does not answer %r" % l)
                if e != m:
                    raise Diverged("answers differ on %r: engine %s, model %s" % (l, e, m))
                answers.append(e)
        return answers

    # ------------------------------------------------------------------ case generation
    def frame(self, n, members, want_member=None):
        rng = self.rng
        if want_member is True and members:
            return rng.choice(sorted(members))
        k = rng.random()
        if k < 0.90 or n == 0:
            return rng.randrange(max(n, 1))
        if k < 0.97:
            return rng.randrange(n + 4)
        return rng.choice((2 ** 32 - 1, 2 ** 32 - 2, 2 ** 31, 65536, 1000 + rng.randrange(5)))

    def gen_case(self):
        """the operation lines of one case, generated against a shadow of the membership (for the shape only:
        nothing is compared with the shadow)"""
        rng = self.rng
        n = rng.choice((0,) + tuple(range(1, 13)) * 6)
        shape = rng.choice(("mixed", "mixed", "drain", "pinheavy", "pool", "pool"))
        nops = rng.choice((20, 40, 80, 150, 400))
        order = []                       # shadow: frames in the replacer, oldest first (FIFO shadow, only to steer)
        pinned = set()                   # pool shape: frames currently pinned
        lines = []

        def emit(op, f=None):
            lines.append(op if f is None else "%s %d" % (op, f))
            if op == "U" and f not in order and len(order) < n:
                order.append(f)
            elif op == "P" and f in order:
                order.remove(f)
            elif op == "V" and order:
                order.pop(0)
            if rng.random() < 0.5:
                lines.append("D")
            if rng.random() < 0.1:
                lines.append("S")

        while len(lines) < nops:
            if shape == "mixed":
                k = rng.random()
                if k < 0.40:
                    emit("U", self.frame(n, order, rng.random() < 0.2))
                elif k < 0.65:
                    emit("P", self.frame(n, order, rng.random() < 0.6))
                else:
                    emit("V")
            elif shape == "drain":
                for _ in range(rng.randrange(1, n + 3)):
                    emit("U", self.frame(n, order))
                for _ in range(rng.randrange(0, 3)):
                    emit("P", self.frame(n, order, rng.random() < 0.5))
                for _ in range(rng.randrange(1, 2 * n + 4)):
                    emit("V")
            elif shape == "pinheavy":
                k = rng.random()
                if k < 0.45:
                    emit("U", self.frame(n, order))
                elif k < 0.85 and order:
                    # the frame under the hand (the oldest), or its successor, or the newest
                    emit("P", rng.choice((order[0], order[min(1, len(order) - 1)], order[-1])))
                elif k < 0.9:
                    emit("P", self.frame(n, order))
                else:
                    emit("V")
            else:   # pool: a frame is pinned (not in the replacer) or released (in it)
                k = rng.random()
                free = [f for f in range(n) if f not in pinned and f not in order]
                if free and k < 0.3:
                    f = rng.choice(free)         # taken from the free list: pinned, the replacer is not told
                    pinned.add(f)
                elif pinned and k < 0.6:
                    f = rng.choice(sorted(pinned))
                    pinned.discard(f)
                    emit("U", f)                 # pin count reached 0
                elif order and k < 0.8:
                    f = rng.choice(order)
                    emit("P", f)                 # fetched again
                    pinned.add(f)
                else:
                    if order:
                        pinned.add(order[0])
                    emit("V")                    # miss with an empty free list (panics when all frames are pinned)
        lines.append("S")
        lines.append("D")
        return n, shape, lines

    def case(self):
        self.log = []
        self.start()
        n, shape, lines = self.gen_case()
        st = self.stat
        st["shapes"][shape] = st["shapes"].get(shape, 0) + 1
        st["pool_sizes"][str(n)] = st["pool_sizes"].get(str(n), 0) + 1
        answers = self.exchange(["# %d" % n] + lines)[1:]
        # statistics from the (agreed) answers
        members, ring, hand = set(), [], None
        vrun = 0
        order_mattered = pinned_present = False
        for l, a in zip(lines, answers):
            st["ops"] += 1
            op = l.split()
            if op[0] == "V":
                st["victims"] += 1
                vrun += 1
                st["longest_victim_run"] = max(st["longest_victim_run"], vrun)
                if a == "none":
                    st["victim_on_empty"] += 1
                else:
                    if len(members) >= 2:
                        order_mattered = True
                    members.discard(int(a))
            elif op[0] == "D":
                st["dumps"] += 1
                if a == "nodump":
                    raise Diverged("the harness cannot read the replacer's fields any more (struct layout changed)")
                ring = [] if a.startswith("-") else a.split(" | ")[0].split()
                hand = a.split(" | ")[1][5:]
                st["max_ring"] = max(st["max_ring"], len(ring))
            elif op[0] == "S":
                st["sizes"] += 1
            else:
                vrun = 0
                f = int(op[1])
                if op[0] == "P":
                    if f in members:
                        st["pin_present"] += 1
                        pinned_present = True
                        if ring and hand == str(f):
                            st["pin_under_hand"] += 1
                    else:
                        st["pin_absent"] += 1
                    members.discard(f)
                else:
                    if a == "full":
                        st["unpin_full"] += 1
                    elif f in members:
                        st["unpin_present"] += 1
                    else:
                        st["unpin_absent"] += 1
                        members.add(f)
        st["cases"] += 1
        self.res.note_case("%d;%s" % (n, ";".join(l for l in lines if l not in ("D", "S"))), order_mattered and pinned_present)


HEAD = ("# clock replacer, model/engine correspondence (lib/clockcorr.py), case %d of this run\n"
        "# > line sent to both `verifharness clock -` (E<) and build/clock_driver (M<)\n")


def run_corr(res, rng, ncases):
    """see the module header; at most 5 replays are kept in res.mismatches"""
    if not os.path.exists(driver_bin()):
        res.broken.append("%s is missing (extracted clock replacer model)" % driver_bin())
        return
    if not os.path.exists(harness_bin()):
        res.broken.append("%s is missing" % harness_bin())
        return
    c = Corr(res, rng)
    try:
        probe = Proc([harness_bin(), "clock", "-"])
        ok = probe.ask("# 1", 20.0)
        probe.close()
        if ok != "new":
            res.broken.append("`verifharness clock` does not answer (sub-command missing from this build?): %r" % (ok,))
            return
        for i in range(ncases):
            try:
                c.case()
            except Diverged as d:
                c.stat["cases"] += 1
                c.stat["mismatch_count"] += 1
                if len(res.mismatches) < 5:
                    res.mismatches.append((HEAD % (i + 1) + c.transcript(),
                                           "clock replacer model (Model/Clock.v) vs engine: " + str(d)))
                c.close()
            except Exception as ex:          # a bug of this module must not look like agreement
                res.broken.append("clock replacer correspondence crashed: %s: %s" % (type(ex).__name__, str(ex)[:300]))
                break
    finally:
        c.close()
        x = res.extra.setdefault("clock_cases", {})
        for k, v in c.stat.items():
            if isinstance(v, dict):
                d = x.setdefault(k, {})
                for a, b in v.items():
                    d[a] = d.get(a, 0) + b
            elif k in ("max_ring", "longest_victim_run"):
                x[k] = max(x.get(k, 0), v)
            else:
                x[k] = x.get(k, 0) + v


if __name__ == "__main__":
    import argparse, json
    ap = argparse.ArgumentParser()
    ap.add_argument("--seed", type=int, default=1)
    ap.add_argument("--n", type=int, default=500)
    ap.add_argument("--show", type=int, default=1)
    a = ap.parse_args()
    res = Result("CLOCKCORR", "cli", a.seed)
    t0 = time.time()
    run_corr(res, random.Random(a.seed), a.n)
    print(json.dumps(res.extra, indent=1, sort_keys=True))
    print("time %.1fs  evaluations %d  nontrivial %d  mismatches %d  broken %d" % (
        time.time() - t0, res.evaluations, len(res.nontrivial),
        res.extra.get("clock_cases", {}).get("mismatch_count", 0), len(res.broken)))
    for b in res.broken:
        print("BROKEN:", b)
    for i, (text, why) in enumerate(res.mismatches):
        print("FINDING %d: %s" % (i + 1, why))
        if i < a.show:
            print("\n".join(text.split("\n")[-40:]))
    sys.exit(1 if res.mismatches or res.broken else 0)
