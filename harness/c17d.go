package main

// c17d: two further concurrent index workloads (C17).
//
//   mode "long": varchar keys of ~1200 bytes (about three entries per skip-list node, so nodes are emptied, unlinked and
//   split all the time); every writer owns its keys and checks its own completed operations: a key is found right after
//   its insert returned, is gone right after its delete returned, and the delete of a present key reports success;
//   at the end a full scan must return exactly the keys the writers left in.
//
//   mode "upd": one writer flips entries with UpdateEntry ((k, ridA) <-> (k, ridB), and (k1, rid) <-> (k2, rid)) while
//   readers look the keys up and scan the range: an update replaces the entry atomically, so a lookup of k returns
//   exactly one row id at any time and the range [k1, k2] contains rid exactly once.
//
// usage: verifharness c17d - <dir> <kind s|b> <mode long|upd> <goroutines> <ops> <seed> <timeout-s>
// prints "VIOLATION ..." lines (none expected) then "DONE ..."

import (
	"bufio"
	"fmt"
	"math/rand"
	"os"
	"sort"
	"strings"
	"sync"
	"sync/atomic"
	"time"

	"github.com/ryogrid/SamehadaDB/lib/common"
	"github.com/ryogrid/SamehadaDB/lib/samehada"
	"github.com/ryogrid/SamehadaDB/lib/storage/index/index_constants"
	"github.com/ryogrid/SamehadaDB/lib/storage/page"
	"github.com/ryogrid/SamehadaDB/lib/storage/table/column"
	"github.com/ryogrid/SamehadaDB/lib/storage/table/schema"
	"github.com/ryogrid/SamehadaDB/lib/storage/tuple"
	"github.com/ryogrid/SamehadaDB/lib/types"
)

func init() { subcommands["c17d"] = runC17d }

func runC17d(args []string, in *bufio.Scanner, out *bufio.Writer) {
	dir, kind, mode := args[0], args[1], args[2]
	ng, nops, seed, tmo := int(atoi64(args[3])), int(atoi64(args[4])), atoi64(args[5]), atoi64(args[6])
	common.TempSuppressOnMemStorage = true
	db := samehada.NewSamehadaDB(dir+"/db", 40000)
	ik := index_constants.IndexKindSkipList
	if kind == "b" {
		ik = index_constants.IndexKindBtree
	}
	keyType := types.Integer
	if mode == "long" {
		keyType = types.Varchar
	}
	cols := []*column.Column{column.NewColumn("a", keyType, true, ik, types.PageID(-1), nil), column.NewColumn("b", types.Integer, false, index_constants.IndexKindInvalid, types.PageID(-1), nil)}
	shi := db.GetSamehadaInstance()
	txn := shi.GetTransactionManager().Begin(nil)
	tm := db.GetCatalogForTesting().CreateTable("cd", schema.NewSchema(cols), txn)
	shi.GetTransactionManager().Commit(db.GetCatalogForTesting(), txn)
	ix := tm.GetIndex(0)
	sc := tm.Schema()
	var vmu sync.Mutex
	var viol []string
	report := func(f string, a ...interface{}) {
		vmu.Lock()
		if len(viol) < 10 {
			viol = append(viol, fmt.Sprintf(f, a...))
		}
		vmu.Unlock()
	}
	var nopsDone int64
	var wg sync.WaitGroup
	fin := make(chan struct{})
	summary := ""
	if mode == "long" {
		keyLen := 1200
		if kind == "b" {
			keyLen = 40 // the B-tree limits key length
		}
		mkS := func(w, i int) *tuple.Tuple {
			s := fmt.Sprintf("%03d-%05d-", i, w) + strings.Repeat("k", keyLen)
			return tuple.NewTupleFromSchema([]types.Value{types.NewVarchar(s), types.NewInteger(0)}, sc)
		}
		ridOf := func(w, i int) page.RID { return page.RID{PageID: types.PageID(w + 1), SlotNum: uint32(i)} }
		left := make([]map[int]bool, ng)
		for w := 0; w < ng; w++ {
			left[w] = map[int]bool{}
			wg.Add(1)
			go func(w int) {
				defer wg.Done()
				rng := rand.New(rand.NewSource(seed*100 + int64(w)))
				present := left[w]
				for o := 0; o < nops; o++ {
					i := rng.Intn(40)
					t, rid := mkS(w, i), ridOf(w, i)
					if present[i] {
						ix.DeleteEntry(t, rid, nil)
						delete(present, i)
						if got := ix.ScanKey(t, nil); len(got) != 0 {
							report("key %d of writer %d is still found right after its delete returned: %v", i, w, got)
						}
					} else {
						ix.InsertEntry(t, rid, nil)
						present[i] = true
						if got := ix.ScanKey(t, nil); len(got) != 1 || got[0] != rid {
							report("key %d of writer %d is not found right after its insert returned (lookup gives %v, inserted %v)", i, w, got, rid)
						}
					}
					atomic.AddInt64(&nopsDone, 1)
				}
			}(w)
		}
		go func() { wg.Wait(); close(fin) }()
		select {
		case <-fin:
			want := 0
			for w := 0; w < ng; w++ {
				want += len(left[w])
			}
			itr := ix.GetRangeScanIterator(nil, nil, nil)
			n := 0
			for done, _, _, _ := itr.Next(); !done; done, _, _, _ = itr.Next() {
				n++
			}
			if n != want {
				report("after all writers finished a full scan returns %d entries, the writers left %d in", n, want)
			}
			summary = fmt.Sprintf("mode=long writers=%d ops=%d entries_left=%d", ng, nopsDone, want)
		case <-time.After(time.Duration(tmo) * time.Second):
			report("an index operation blocks forever (watchdog)")
		}
	} else {
		mk := func(k int32) *tuple.Tuple {
			return tuple.NewTupleFromSchema([]types.Value{types.NewInteger(k), types.NewInteger(0)}, sc)
		}
		// neighbours so that the container has some structure
		for k := int32(0); k < 400; k++ {
			if k%20 != 10 && k%20 != 11 {
				ix.InsertEntry(mk(k), page.RID{PageID: 9, SlotNum: uint32(k)}, nil)
			}
		}
		ridA, ridB := page.RID{PageID: 1, SlotNum: 1}, page.RID{PageID: 2, SlotNum: 2}
		var stop int32
		var nscan int64
		npairs := 4
		for p := 0; p < npairs; p++ {
			k1, k2 := int32(p*20+10), int32(p*20+11)
			ridC := page.RID{PageID: 3, SlotNum: uint32(p)}
			ix.InsertEntry(mk(k1), ridA, nil) // (k1, ridA) <-> (k1, ridB)
			ix.InsertEntry(mk(k2), ridC, nil) // ridC moves between k2 and k1
			wg.Add(1)
			go func(k1, k2 int32, ridC page.RID) {
				defer wg.Done()
				cur, at := ridA, k2
				for o := 0; o < nops; o++ {
					if o%2 == 0 {
						nxt := ridB
						if cur == ridB {
							nxt = ridA
						}
						ix.UpdateEntry(mk(k1), cur, mk(k1), nxt, nil)
						cur = nxt
					} else {
						to := k1
						if at == k1 {
							to = k2
						}
						ix.UpdateEntry(mk(at), ridC, mk(to), ridC, nil)
						at = to
					}
					atomic.AddInt64(&nopsDone, 1)
				}
			}(k1, k2, ridC)
			for r := 0; r < ng; r++ {
				go func(k1, k2 int32, ridC page.RID) {
					for atomic.LoadInt32(&stop) == 0 {
						got := ix.ScanKey(mk(k1), nil)
						nAB := 0
						for _, g := range got {
							if g == ridA || g == ridB {
								nAB++
							}
						}
						if nAB != 1 {
							report("a lookup of key %d concurrent with UpdateEntry((%d, ridA) <-> (%d, ridB)) returns %v: the entry must be there exactly once", k1, k1, k1, got)
						}
						itr := ix.GetRangeScanIterator(mk(k1), mk(k2), nil)
						nC := 0
						var rids []string
						for done, _, _, rid := itr.Next(); !done; done, _, _, rid = itr.Next() {
							if *rid == ridC {
								nC++
							}
							rids = append(rids, fmt.Sprintf("%d.%d", rid.PageID, rid.SlotNum))
						}
						if nC != 1 {
							sort.Strings(rids)
							report("a scan of [%d, %d] concurrent with UpdateEntry moving one row id between the two keys sees it %d times (%v)", k1, k2, nC, rids)
						}
						atomic.AddInt64(&nscan, 1)
					}
				}(k1, k2, ridC)
			}
		}
		go func() { wg.Wait(); close(fin) }()
		select {
		case <-fin:
		case <-time.After(time.Duration(tmo) * time.Second):
			report("an index operation blocks forever (watchdog)")
		}
		atomic.StoreInt32(&stop, 1)
		time.Sleep(20 * time.Millisecond)
		summary = fmt.Sprintf("mode=upd pairs=%d readers/pair=%d updates=%d lookups+scans=%d", npairs, ng, nopsDone, nscan)
	}
	for _, v := range viol {
		fmt.Fprintln(out, "VIOLATION "+v)
	}
	fmt.Fprintln(out, "DONE "+summary)
	out.Flush()
	os.Exit(0)
}
