package main

// Page-id allocation and reuse on a real engine instance (file backed).
//
//   verifharness pagealloc <casefile|-> <scratch dir>
//
// One command per line, one flushed answer line per command.  The session holds one engine
// instance: either a "raw" SamehadaInstance (disk manager + log manager + buffer pool +
// transaction manager, no catalog: every NewPage call is the session's own) or a whole database.
//
//   init <name> <frames>     fresh raw instance on <dir>/<name>.db/.log (old files removed)
//   open <name> <frames>     raw instance on the existing files, started with the engine's start-up
//                            sequence (samehada.NewSamehadaDB without the catalog part): Redo, Undo,
//                            FlushAllPages, GCLogFile, floor record, DEALLOCATE_PAGE records of the
//                            rebuilt reusable list, Flush
//   dbinit / dbopen <name> <memKB>   whole database through samehada.NewSamehadaDB (real start-up)
//   close                    clean stop (GracefulShutdown record, dirty pages and log flushed, files closed)
//   crash                    files closed, nothing flushed
//   new                      BufferPoolManager.NewPage (the page stays pinned by the session)
//   newheap <prev>           NewPage + TablePage.Init(id, prev, ...) in the session's transaction, as
//                            TableHeap.InsertTuple does when the heap grows (writes a NewTablePage record)
//   unpin <id> <0|1>         UnpinPage(id, dirty)
//   fetch <id>               FetchPage
//   flush <id>               FlushPage
//   flushlog                 LogManager.Flush
//   mark <id>                Page.SetIsDeallocated(true) by the pin holder (what a skip list node removal does)
//   dealloc <id> <0|1>       DeallocatePage(id, isNoWait)
//   probe                    DiskManager.AllocatePage (consumes the id it returns)
//   begin / commit / abort   the session's transaction (TransactionManager)
//   sql <text>               whole database only: one auto-commit statement
//   pages                    whole database only: page chain of every table heap  "name=first,next,..;..."
//   racestress <g> <n> [k]   g goroutines, n iterations each of NewPage / UnpinPage(dirty) / DeallocatePage(id,true)
//                            (every k-th page is kept instead); answers how often the DEALLOCATE_PAGE / REUSE_PAGE
//                            records of an id do not alternate in the log file
//   staleowned               ids of the reusable list that a goroutine of the last racestress still owns
//   state                    nothing but the state fields
//
// Answer:  <result> reusable=<ids, list order> flagged=<resident ids with the deallocation flag>
//          pinned=<id:count,..> resident=<page id of every used frame, sorted: an id twice = two frames hold
//          the same page id> npages=<db file size / page size> wrote=<ids written to the db file by
//          this command, in order> evicted=<flagged ids that left the pool by this command>
// and for open/dbopen also  npages0=<file size the disk manager started from>
//          log=<allocation records found in the log file before start-up: D<id> R<id> H<id>, in order>.
// The next page id of the disk manager is not exported: it is observed through `probe` and through
// every `new` answered while the reusable list is empty.

import (
	"bufio"
	"fmt"
	"os"
	"path/filepath"
	"sort"
	"strings"
	"sync"

	"github.com/ryogrid/SamehadaDB/lib/common"
	"github.com/ryogrid/SamehadaDB/lib/recovery"
	"github.com/ryogrid/SamehadaDB/lib/recovery/log_recovery"
	"github.com/ryogrid/SamehadaDB/lib/samehada"
	"github.com/ryogrid/SamehadaDB/lib/storage/access"
	"github.com/ryogrid/SamehadaDB/lib/storage/buffer"
	"github.com/ryogrid/SamehadaDB/lib/storage/disk"
	"github.com/ryogrid/SamehadaDB/lib/storage/page"
	"github.com/ryogrid/SamehadaDB/lib/types"
)

func init() { subcommands["pagealloc"] = runPageAlloc }

type paSession struct {
	dir        string
	base       string // <dir>/<name>
	shi        *samehada.SamehadaInstance
	db         *samehada.SamehadaDB
	handles    map[int64]*page.Page
	txn        *access.Transaction
	raceOwners map[int64]bool
}

func paFilePages(path string) int64 {
	fi, err := os.Stat(path)
	if err != nil {
		return 0
	}
	return fi.Size() / int64(common.PageSize)
}

// allocation records of a log file, in file order
func paLogRecords(path string) string {
	data, err := os.ReadFile(path)
	if err != nil {
		return ""
	}
	lr := new(log_recovery.LogRecovery)
	var out []string
	off := 0
	for off < len(data) {
		var rec recovery.LogRecord
		if !lr.DeserializeLogRecord(data[off:], &rec) {
			break
		}
		switch rec.LogRecordType {
		case recovery.DeallocatePage:
			out = append(out, fmt.Sprintf("D%d", rec.DeallocatePageID))
		case recovery.ReusePage:
			out = append(out, fmt.Sprintf("R%d", rec.ReusePageID))
		case recovery.NewTablePage:
			out = append(out, fmt.Sprintf("H%d", rec.PageID))
		}
		off += int(rec.Size)
	}
	return strings.Join(out, ",")
}

func (s *paSession) bpm() *buffer.BufferPoolManager { return s.shi.GetBufferPoolManager() }

type paSnap struct {
	st      buffer.VerifState
	flagged map[int64]bool
}

func (s *paSession) snap() paSnap {
	sn := paSnap{flagged: map[int64]bool{}}
	if s.shi == nil {
		return sn
	}
	sn.st = s.bpm().VerifSnapshot()
	for _, f := range sn.st.Frames {
		if f.Used && f.Dealloc {
			sn.flagged[int64(f.PageID)] = true
		}
	}
	return sn
}

func paJoin(ids []int64) string {
	var a []string
	for _, i := range ids {
		a = append(a, fmt.Sprint(i))
	}
	return strings.Join(a, ",")
}

func (s *paSession) stateLine(before paSnap) string {
	if s.shi == nil {
		return fmt.Sprintf("reusable= flagged= pinned= resident= npages=%d wrote= evicted=", paFilePages(s.base+".db"))
	}
	after := s.snap()
	var ru []int64
	for _, p := range after.st.Reusable {
		ru = append(ru, int64(p))
	}
	var fl, ev []int64
	for p := range after.flagged {
		fl = append(fl, p)
	}
	sort.Slice(fl, func(i, j int) bool { return fl[i] < fl[j] })
	for p := range before.flagged {
		if !after.flagged[p] {
			ev = append(ev, p)
		}
	}
	sort.Slice(ev, func(i, j int) bool { return ev[i] < ev[j] })
	var pins []string
	for _, f := range after.st.Frames {
		if f.Used && f.PinCount != 0 {
			pins = append(pins, fmt.Sprintf("%d:%d", f.PageID, f.PinCount))
		}
	}
	sort.Strings(pins)
	var wr []int64
	for _, e := range disk.VerifTakeTrace() {
		if e.Kind == 'P' {
			wr = append(wr, int64(e.PageID))
		}
	}
	var rs []int64
	for _, f := range after.st.Frames {
		if f.Used {
			rs = append(rs, int64(f.PageID))
		}
	}
	sort.Slice(rs, func(i, j int) bool { return rs[i] < rs[j] })
	return fmt.Sprintf("reusable=%s flagged=%s pinned=%s resident=%s npages=%d wrote=%s evicted=%s",
		paJoin(ru), paJoin(fl), strings.Join(pins, ","), paJoin(rs), paFilePages(s.base+".db"), paJoin(wr), paJoin(ev))
}

// the engine's start-up sequence (lib/samehada/samehada.go, NewSamehadaDB, isExistingDB branch) without the catalog
func (s *paSession) rawOpen(frames int) {
	shi := samehada.NewSamehadaInstance(s.base, frames)
	s.shi = shi
	shi.GetLogManager().DeactivateLogging()
	txn := shi.GetTransactionManager().Begin(nil)
	txn.SetIsRecoveryPhase(true)
	logRecov := log_recovery.NewLogRecovery(shi.GetDiskManager(), shi.GetBufferPoolManager(), shi.GetLogManager())
	greatestLSN, isUndoNeeded, _ := logRecov.Redo(txn)
	if isUndoNeeded {
		logRecov.Undo(txn)
	}
	shi.GetBufferPoolManager().FlushAllPages()
	shi.GetDiskManager().GCLogFile()
	shi.GetLogManager().SetNextLSN(greatestLSN + 1)
	shi.GetLogManager().AppendLogRecord(recovery.NewLogRecordTxn(txn.GetTransactionID(), common.InvalidLSN, recovery.COMMIT))
	for _, pageID := range shi.GetBufferPoolManager().GetReusablePageIDs() {
		shi.GetLogManager().AppendLogRecord(recovery.NewLogRecordDeallocatePage(pageID))
	}
	shi.GetLogManager().Flush()
	shi.GetBufferPoolManager().FlushAllPages()
	shi.GetTransactionManager().Commit(nil, txn)
	shi.GetLogManager().ActivateLogging()
}

func (s *paSession) tables() string {
	cat := s.db.GetCatalogForTesting()
	var out []string
	for _, tm := range cat.GetAllTables() {
		var ids []int64
		seen := map[types.PageID]bool{}
		pid := tm.Table().GetFirstPageID()
		for pid.IsValid() && !seen[pid] {
			seen[pid] = true
			ids = append(ids, int64(pid))
			pg := s.bpm().FetchPage(pid)
			if pg == nil {
				break
			}
			next := access.CastPageAsTablePage(pg).GetNextPageID()
			s.bpm().UnpinPage(pid, false)
			pid = next
		}
		out = append(out, *tm.GetTableName()+"="+paJoin(ids))
	}
	sort.Strings(out)
	return strings.Join(out, ";")
}

func paRaceStress(s *paSession, ng, iters, keep int) string {
	bpm := s.bpm()
	done := make(chan bool, ng)
	var mu sync.Mutex
	s.raceOwners = map[int64]bool{}
	for g := 0; g < ng; g++ {
		go func(g int) {
			defer func() { recover(); done <- true }()
			for i := 0; i < iters; i++ {
				pg := bpm.NewPage()
				if pg == nil {
					continue
				}
				id := pg.GetPageID()
				bpm.UnpinPage(id, true)
				if keep > 0 && (i+g)%keep == 0 {
					// this page stays owned (a heap page, say): it is never given back
					mu.Lock()
					s.raceOwners[int64(id)] = true
					mu.Unlock()
					continue
				}
				bpm.DeallocatePage(id, true)
			}
		}(g)
	}
	for g := 0; g < ng; g++ {
		<-done
	}
	s.shi.GetLogManager().Flush()
	last := map[string]byte{}
	viol, first := 0, ""
	for _, r := range strings.Split(paLogRecords(s.base+".log"), ",") {
		if r == "" || r[0] == 'H' {
			continue
		}
		id := r[1:]
		prev, seen := last[id]
		if (!seen && r[0] == 'R') || (seen && prev == r[0]) {
			viol++
			if first == "" {
				first = r
			}
		}
		last[id] = r[0]
	}
	return fmt.Sprintf("ok violations=%d first=%s", viol, first)
}

func runPageAlloc(args []string, in *bufio.Scanner, out *bufio.Writer) {
	if len(args) < 1 {
		fmt.Fprintln(os.Stderr, "usage: verifharness pagealloc <casefile|-> <scratch dir>")
		os.Exit(2)
	}
	s := &paSession{dir: args[0]}
	os.MkdirAll(s.dir, 0o777)
	common.TempSuppressOnMemStorage = true // file backed
	disk.VerifRecord = true                // hook H1: page writes of each command
	for in.Scan() {
		line := strings.TrimSpace(in.Text())
		if line == "" || strings.HasPrefix(line, "#") {
			continue
		}
		f := strings.Fields(line)
		before := s.snap()
		extra := ""
		res := guard(func() string {
			switch f[0] {
			case "init", "dbinit", "open", "dbopen":
				if s.shi != nil {
					return "err:running"
				}
				s.base = filepath.Join(s.dir, f[1])
				if f[0] == "init" || f[0] == "dbinit" {
					os.Remove(s.base + ".db")
					os.Remove(s.base + ".log")
				}
				extra = fmt.Sprintf(" npages0=%d log=%s", paFilePages(s.base+".db"), paLogRecords(s.base+".log"))
				disk.VerifTakeTrace()
				s.handles = map[int64]*page.Page{}
				s.txn = nil
				n := int(atoi64(f[2]))
				switch f[0] {
				case "init":
					s.shi = samehada.NewSamehadaInstance(s.base, n)
				case "open":
					s.rawOpen(n)
				default:
					buffer.VerifContractOn = false
					s.db = samehada.NewSamehadaDB(s.base, n)
					s.db.VerifStopBackground()
					s.shi = s.db.GetSamehadaInstance()
				}
				return "ok"
			case "close":
				if s.db != nil {
					s.db.Shutdown()
				} else {
					// SamehadaDB.Shutdown without the parts that need a catalog
					s.shi.GetLogManager().AppendLogRecord(recovery.NewLogRecordGracefulShutdown())
					s.shi.Shutdown(samehada.ShutdownPatternCloseFiles)
				}
				res := "ok " + s.stateLine(before)
				s.shi, s.db = nil, nil
				return res
			case "crash":
				if s.db != nil {
					s.db.ShutdownForTescase()
				} else {
					s.shi.CloseFilesForTesting()
				}
				res := "ok " + s.stateLine(before)
				s.shi, s.db = nil, nil
				return res
			}
			if s.shi == nil {
				return "err:down"
			}
			switch f[0] {
			case "new", "newheap":
				pg := s.bpm().NewPage()
				if pg == nil {
					return "nil"
				}
				id := pg.GetPageID()
				s.handles[int64(id)] = pg
				if f[0] == "newheap" {
					if s.txn == nil {
						return "err:notxn"
					}
					prev := types.PageID(int32(atoi64(f[1])))
					access.CastPageAsTablePage(pg).Init(id, prev, s.shi.GetLogManager(), s.shi.GetLockManager(), s.txn, false)
				}
				return fmt.Sprintf("id=%d", id)
			case "unpin":
				s.bpm().UnpinPage(types.PageID(int32(atoi64(f[1]))), f[2] == "1")
				return "ok"
			case "fetch":
				pg := s.bpm().FetchPage(types.PageID(int32(atoi64(f[1]))))
				if pg == nil {
					return "nil"
				}
				s.handles[atoi64(f[1])] = pg
				return "ok"
			case "flush":
				if s.bpm().FlushPage(types.PageID(int32(atoi64(f[1])))) {
					return "ok"
				}
				return "false"
			case "flushlog":
				s.shi.GetLogManager().Flush()
				return "ok"
			case "mark":
				pg, ok := s.handles[atoi64(f[1])]
				if !ok {
					return "err:nohandle"
				}
				pg.SetIsDeallocated(true)
				return "ok"
			case "dealloc":
				id := types.PageID(int32(atoi64(f[1])))
				nBefore := 0
				for _, p := range before.st.Reusable {
					if p == id {
						nBefore++
					}
				}
				s.bpm().DeallocatePage(id, f[2] == "1")
				after := s.snap()
				nAfter := 0
				for _, p := range after.st.Reusable {
					if p == id {
						nAfter++
					}
				}
				mode := "none"
				if nAfter > nBefore {
					mode = "now"
				} else if after.flagged[int64(id)] && !before.flagged[int64(id)] {
					mode = "flag"
				} else if after.flagged[int64(id)] {
					mode = "flagged"
				}
				return "ok mode=" + mode
			case "probe":
				return fmt.Sprintf("id=%d", s.shi.GetDiskManager().AllocatePage())
			case "begin":
				s.txn = s.shi.GetTransactionManager().Begin(nil)
				return "ok"
			case "commit", "abort":
				if s.txn == nil {
					return "err:notxn"
				}
				if f[0] == "commit" {
					s.shi.GetTransactionManager().Commit(nil, s.txn)
				} else {
					s.shi.GetTransactionManager().Abort(nil, s.txn)
				}
				s.txn = nil
				return "ok"
			case "sql":
				if s.db == nil {
					return "err:nodb"
				}
				err, rows := s.db.ExecuteSQLRetValues(strings.TrimSpace(strings.TrimPrefix(line, "sql")))
				if err != nil {
					if err == samehada.QueryAbortedErr {
						return "aborted"
					}
					return "err:" + strings.ReplaceAll(strings.ReplaceAll(err.Error(), "\n", "_"), " ", "_")
				}
				return "ok rows=" + fmtRows(rows)
			case "pages":
				if s.db == nil {
					return "err:nodb"
				}
				return "ok tables=" + s.tables()
			case "racestress":
				// <goroutines> <iterations>: every goroutine loops NewPage / UnpinPage(dirty) / DeallocatePage(id,true).
				// In a log written by one thread the DEALLOCATE_PAGE and REUSE_PAGE records of an id alternate (D R D R ..);
				// a REUSE_PAGE record that comes before the DEALLOCATE_PAGE record of the deallocation it reuses shows up as
				// "R first" or as two D records in a row.
				keep := 0
				if len(f) > 3 {
					keep = int(atoi64(f[3]))
				}
				return paRaceStress(s, int(atoi64(f[1])), int(atoi64(f[2])), keep)
			case "staleowned":
				// ids of the reusable list that a goroutine of the last racestress still owns
				var st []int64
				for _, p := range s.bpm().GetReusablePageIDs() {
					if s.raceOwners[int64(p)] {
						st = append(st, int64(p))
					}
				}
				return fmt.Sprintf("ok owners=%d stale=%s", len(s.raceOwners), paJoin(st))
			case "state":
				return "ok"
			}
			return "err:unknown"
		})
		if f[0] != "close" && f[0] != "crash" || !strings.HasPrefix(res, "ok ") {
			res = res + " " + s.stateLine(before)
		}
		fmt.Fprintln(out, res+extra)
		out.Flush()
	}
}
