package main

// Concurrent clients over the real SQL entry point (SamehadaDB.ExecuteSQL -> RequestManager).
// usage: verifharness c12 - <dir> <clients> <calls-per-client> <groups> <rows-per-group> <seed> <inserts-per-client> <timeout-s>
// prints one line per call:  <client> <seq> <inv> <resp> <kind> <arg> <result>
//   the rows of acct form a grid: row k = r*rpg + c belongs to row group g = r and to column group h = c, so that
//   statements over a row group and over a column group overlap in one row
//   kind: W <g|h> <idx> uniq   (UPDATE acct SET v = uniq WHERE <g|h> = idx)      result: ok | err:..
//         R <g|h> <idx>        (SELECT k,v FROM acct WHERE <g|h> = idx)           result: k:v,k:v,...
//         S g        (same through a sequential scan: WHERE g = g OR g = g)
//         I key      (INSERT of a unique key into ins)            result: ok | err
//   inv / resp: global sequence numbers taken right before the call and right after it returned
// then "FINAL acct k:g:v ..." and "FINAL ins key ..." and "DONE"; a call that has not returned after the
// timeout is reported as "<client> <seq> <inv> -1 ... HUNG" and the process exits.

import (
	"bufio"
	"fmt"
	"math/rand"
	"os"
	"sort"
	"strings"
	"sync"
	"sync/atomic"
	"time"

	"github.com/ryogrid/SamehadaDB/lib/common"
	"github.com/ryogrid/SamehadaDB/lib/samehada"
	"github.com/ryogrid/SamehadaDB/lib/storage/access"
)

func init() { subcommands["c12"] = runC12 }

type c12call struct {
	client, seq int
	inv, resp   int64
	desc, res   string
}

func runC12(args []string, in *bufio.Scanner, out *bufio.Writer) {
	dir := args[0]
	clients, calls, groups, rpg := int(atoi64(args[1])), int(atoi64(args[2])), int(atoi64(args[3])), int(atoi64(args[4]))
	seed, nins, tmo := atoi64(args[5]), int(atoi64(args[6])), atoi64(args[7])
	common.TempSuppressOnMemStorage = true
	memKB := 4000
	if v := os.Getenv("VERIF_C12_MEMKB"); v != "" {
		memKB = int(atoi64(v))
	}
	db := samehada.NewSamehadaDB(dir+"/db", memKB)
	db.ExecuteSQL("CREATE TABLE acct(k int, g int, h int, v int);")
	db.ExecuteSQL("CREATE TABLE ins(ky int, c int);")
	for g := 0; g < groups; g++ {
		for r := 0; r < rpg; r++ {
			db.ExecuteSQL(fmt.Sprintf("INSERT INTO acct(k,g,h,v) VALUES (%d, %d, %d, 0);", g*rpg+r, g, r))
		}
	}
	mix := os.Getenv("VERIF_C12_MIX") != ""
	if mix {
		// extra statement kinds for the race workloads (C19): churn rows that are deleted / scanned, and a client issuing DDL
		db.ExecuteSQL("CREATE TABLE churn(ky int, c int);")
		for c := 0; c < clients; c++ {
			for j := 0; j < 4; j++ {
				db.ExecuteSQL(fmt.Sprintf("INSERT INTO churn(ky,c) VALUES (%d, %d);", c*1000+j, c))
			}
		}
	}
	var clock int64
	var mu sync.Mutex
	var done []c12call
	pending := map[string]c12call{}
	var wg sync.WaitGroup
	for c := 0; c < clients; c++ {
		wg.Add(1)
		go func(c int) {
			defer wg.Done()
			rng := rand.New(rand.NewSource(seed*1000 + int64(c)))
			for s := 0; s < calls+nins; s++ {
				var sql, desc string
				if s >= calls {
					key := c*100000 + s
					sql, desc = fmt.Sprintf("INSERT INTO ins(ky,c) VALUES (%d, %d);", key, c), fmt.Sprintf("I %d", key)
				} else {
					dim, idx := "g", rng.Intn(groups)
					if rng.Intn(2) == 0 {
						dim, idx = "h", rng.Intn(rpg)
					}
					switch r := rng.Intn(10); {
					case mix && rng.Intn(4) == 0:
						// delete one of this client's own churn rows and put it back (DELETE statements that lose a lock conflict are rolled
						// back: RollbackDelete next to other clients' scans of the same page)
						switch rng.Intn(3) {
						case 0:
							// rows of two clients: neighbours' deletes overlap, the loser has marked some rows already
							sql, desc = fmt.Sprintf("DELETE FROM churn WHERE c = %d OR c = %d;", c, (c+1)%clients), fmt.Sprintf("D %d", c)
						case 1:
							sql, desc = fmt.Sprintf("INSERT INTO churn(ky,c) VALUES (%d, %d);", c*1000+100+s, c), fmt.Sprintf("C %d", c)
						default:
							sql, desc = "SELECT ky FROM churn WHERE c >= 0 OR c >= 0;", "C 0"
						}
					case r < 4:
						uniq := (c+1)*100000 + s
						sql, desc = fmt.Sprintf("UPDATE acct SET v = %d WHERE %s = %d;", uniq, dim, idx), fmt.Sprintf("W %s %d %d", dim, idx, uniq)
						if rng.Intn(3) == 0 {
							// the same update through a sequential scan (it locks rows of other groups on its way: lost lock
							// conflicts in the middle of the statement, after some rows were changed already)
							sql = fmt.Sprintf("UPDATE acct SET v = %d WHERE %s = %d OR %s = %d;", uniq, dim, idx, dim, idx)
						}
					case r < 8:
						sql, desc = fmt.Sprintf("SELECT k,v FROM acct WHERE %s = %d;", dim, idx), fmt.Sprintf("R %s %d", dim, idx)
					default:
						sql, desc = fmt.Sprintf("SELECT k,v FROM acct WHERE %s = %d OR %s = %d;", dim, idx, dim, idx), fmt.Sprintf("S %s %d", dim, idx)
					}
				}
				call := c12call{client: c, seq: s, desc: desc}
				call.inv = atomic.AddInt64(&clock, 1)
				mu.Lock()
				pending[fmt.Sprintf("%d.%d", c, s)] = call
				mu.Unlock()
				err, rows := db.ExecuteSQL(sql)
				call.resp = atomic.AddInt64(&clock, 1)
				if err != nil {
					call.res = "err:" + strings.ReplaceAll(err.Error(), " ", "_")
				} else if rows == nil {
					call.res = "ok"
				} else {
					var rs []string
					for _, r := range rows {
						var vs []string
						for _, v := range r {
							vs = append(vs, fmt.Sprint(v))
						}
						rs = append(rs, strings.Join(vs, ":"))
					}
					sort.Strings(rs)
					call.res = "rows=" + strings.Join(rs, ",")
				}
				mu.Lock()
				delete(pending, fmt.Sprintf("%d.%d", c, s))
				done = append(done, call)
				mu.Unlock()
			}
		}(c)
	}
	stopBg := int32(0)
	if mix {
		// DDL next to the queries: the catalog's maps are written while other sessions resolve table names
		wg.Add(1)
		go func() {
			defer wg.Done()
			for i := 0; i < 12; i++ {
				db.ExecuteSQL(fmt.Sprintf("CREATE TABLE ddl%d(a int, b varchar(32));", i))
				db.ExecuteSQL(fmt.Sprintf("INSERT INTO ddl%d(a,b) VALUES (%d, 'x');", i, i))
				time.Sleep(2 * time.Millisecond)
			}
		}()
	}
	if os.Getenv("VERIF_C12_HOLDER") != "" {
		// an explicit transaction that keeps shared locks on the rows of one group for a while, again and again: client updates
		// of those rows lose the lock conflict and are retried by the request manager although no other request is running
		go func() {
			hs := &dbSession{db: db, txns: map[string]*access.Transaction{}}
			shi := db.GetSamehadaInstance()
			cat := db.GetCatalogForTesting()
			hr := rand.New(rand.NewSource(seed + 4242))
			for atomic.LoadInt32(&stopBg) == 0 {
				txn := shi.GetTransactionManager().Begin(nil)
				hs.runStmt(txn, fmt.Sprintf("SELECT k FROM acct WHERE g = %d OR g = %d;", hr.Intn(groups), hr.Intn(groups)))
				time.Sleep(time.Duration(5+hr.Intn(30)) * time.Millisecond)
				if txn.GetState() == access.ABORTED {
					shi.GetTransactionManager().Abort(cat, txn)
				} else {
					shi.GetTransactionManager().Commit(cat, txn)
				}
				time.Sleep(time.Duration(hr.Intn(5)) * time.Millisecond)
			}
		}()
	}
	if os.Getenv("VERIF_C12_BG") != "" {
		// checkpoints and statistics updates running next to the clients (C19)
		go func() {
			for atomic.LoadInt32(&stopBg) == 0 {
				db.ForceCheckpointingForTestcase()
				time.Sleep(15 * time.Millisecond)
			}
		}()
		go func() {
			shi := db.GetSamehadaInstance()
			cat := db.GetCatalogForTesting()
			for atomic.LoadInt32(&stopBg) == 0 {
				for _, tm := range cat.GetAllTables() {
					txn := shi.GetTransactionManager().Begin(nil)
					tm.GetStatistics().Update(tm, txn)
					if txn.GetState() == access.ABORTED {
						shi.GetTransactionManager().Abort(cat, txn)
					} else {
						shi.GetTransactionManager().Commit(cat, txn)
					}
				}
				time.Sleep(25 * time.Millisecond)
			}
		}()
	}
	fin := make(chan struct{})
	go func() { wg.Wait(); atomic.StoreInt32(&stopBg, 1); close(fin) }()
	hung := false
	select {
	case <-fin:
	case <-time.After(time.Duration(tmo) * time.Second):
		hung = true
	}
	mu.Lock()
	for _, cl := range done {
		fmt.Fprintf(out, "%d %d %d %d %s %s\n", cl.client, cl.seq, cl.inv, cl.resp, cl.desc, cl.res)
	}
	for _, cl := range pending {
		fmt.Fprintf(out, "%d %d %d -1 %s HUNG\n", cl.client, cl.seq, cl.inv, cl.desc)
	}
	mu.Unlock()
	if hung {
		fmt.Fprintln(out, "QTRACE "+strings.Join(samehada.VerifReqTraceTake(), ";"))
		fmt.Fprintln(out, "HUNG")
		out.Flush()
		os.Exit(0)
	}
	_, rows := db.ExecuteSQL("SELECT k,g,v FROM acct WHERE k >= 0 OR k >= 0;") // k:g:v (h = k - g*rpg)
	var fs []string
	for _, r := range rows {
		fs = append(fs, fmt.Sprintf("%v:%v:%v", r[0], r[1], r[2]))
	}
	sort.Strings(fs)
	fmt.Fprintln(out, "FINAL acct "+strings.Join(fs, " "))
	_, rows = db.ExecuteSQL("SELECT ky FROM ins WHERE ky >= 0 OR ky >= 0;")
	fs = fs[:0]
	for _, r := range rows {
		fs = append(fs, fmt.Sprint(r[0]))
	}
	sort.Strings(fs)
	fmt.Fprintln(out, "FINAL ins "+strings.Join(fs, " "))
	fmt.Fprintln(out, "QTRACE "+strings.Join(samehada.VerifReqTraceTake(), ";"))
	fmt.Fprintln(out, "DONE")
	out.Flush()
	os.Exit(0)
}
