package main

// Table heap correspondence (C14 heap model, coq/Model/Heap.v): drives ONE TableHeap of the real engine
// directly, with explicit transactions, on one goroutine, and reports after every call what the model needs
// as inputs and what it predicts.
//
// usage: verifharness c14h - <dir> [memKB]
// commands (one per line, one answer line each):
//   newheap                     a new table (one varchar column, no index) = a new TableHeap; forgets all transactions
//   begin <t> | commit <t> | abort <t>
//   ins <t> <len> <seed>        row = varchar of <len> bytes generated from <seed>
//   mark <t> <p.s>              MarkDelete
//   upd <t> <p.s> <len> <seed>  UpdateTuple (whole row)
//   get <t> <p.s>               GetTuple
//   scan <t>                    Iterator: Current / Next until End
//   quit
// answers: "<result fields> st=<txn state G|S|C|A> pb=<pid:pins,..> pa=<pid:pins,..> chain=<pid,..> xl=<p.s:t,..> sl=<p.s:t+t,..>"
//   pb / pa : the pool's pin counts of the heap's pages before / after the call (pages not in the pool: 0)
//   chain   : the heap's pages in chain order after the call
//   xl / sl : exclusive / shared row locks on the heap's pages after the call (transaction names)
//   result fields: ins: rid=<p.s> size=<tuple.Size()> ; mark: ok=<0|1> ; upd: ok=<0|1> inplace=<0|1> rid=<p.s> size=<n> ;
//                  get: row=<size>|self|nil ; scan: rows=<p.s:size,..>
//   a panic of the engine is reported as "panic=<message>" (the heap is unusable afterwards: send newheap).
// The insertion hint (TableHeap.lastPageID) is not exported: it is observable only through the rids inserts choose.

import (
	"bufio"
	"fmt"
	"sort"
	"strings"

	"github.com/ryogrid/SamehadaDB/lib/catalog"
	"github.com/ryogrid/SamehadaDB/lib/common"
	"github.com/ryogrid/SamehadaDB/lib/samehada"
	"github.com/ryogrid/SamehadaDB/lib/storage/access"
	"github.com/ryogrid/SamehadaDB/lib/storage/index/index_constants"
	"github.com/ryogrid/SamehadaDB/lib/storage/page"
	"github.com/ryogrid/SamehadaDB/lib/storage/table/column"
	"github.com/ryogrid/SamehadaDB/lib/storage/table/schema"
	"github.com/ryogrid/SamehadaDB/lib/storage/tuple"
	"github.com/ryogrid/SamehadaDB/lib/types"
)

func init() { subcommands["c14h"] = runC14h }

func c14hVarchar(n int64, seed int64) string {
	b := make([]byte, n)
	for j := int64(0); j < n; j++ {
		b[j] = byte('a' + (seed+j*7+(j/64)*3)%26)
	}
	return string(b)
}

func c14hRid(s string) page.RID {
	f := strings.SplitN(s, ".", 2)
	return page.RID{PageID: types.PageID(atoi64(f[0])), SlotNum: uint32(atoi64(f[1]))}
}

func runC14h(args []string, in *bufio.Scanner, out *bufio.Writer) {
	dir := args[0]
	memKB := 8000
	if len(args) > 1 {
		memKB = int(atoi64(args[1]))
	}
	common.TempSuppressOnMemStorage = true
	db := samehada.NewSamehadaDB(dir+"/db", memKB)
	db.VerifStopBackground()
	shi := db.GetSamehadaInstance()
	bpm := shi.GetBufferPoolManager()
	tmgr := shi.GetTransactionManager()
	lm := shi.GetLockManager()
	cat := db.GetCatalogForTesting()

	var tm *catalog.TableMetadata
	var th *access.TableHeap
	var sc *schema.Schema
	nheap := 0
	txns := map[string]*access.Transaction{}
	names := map[types.TxnID]string{}

	chain := func() []types.PageID {
		var c []types.PageID
		if th == nil {
			return c
		}
		for pid := th.GetFirstPageID(); pid.IsValid(); {
			c = append(c, pid)
			pg := access.CastPageAsTablePage(bpm.FetchPage(pid))
			if pg == nil {
				break
			}
			next := pg.GetNextPageID()
			bpm.UnpinPage(pid, false)
			pid = next
			if len(c) > 100000 {
				break
			}
		}
		return c
	}
	pinsOf := func() map[types.PageID]int32 {
		m := map[types.PageID]int32{}
		for _, f := range bpm.VerifSnapshot().Frames {
			if f.Used {
				m[f.PageID] = f.PinCount
			}
		}
		return m
	}
	showPins := func(m map[types.PageID]int32, c []types.PageID) string {
		var s []string
		for _, p := range c {
			s = append(s, fmt.Sprintf("%d:%d", p, m[p]))
		}
		return strings.Join(s, ",")
	}
	stName := func(t *access.Transaction) string {
		if t == nil {
			return "-"
		}
		switch t.GetState() {
		case access.GROWING:
			return "G"
		case access.SHRINKING:
			return "S"
		case access.COMMITTED:
			return "C"
		default:
			return "A"
		}
	}
	locks := func(c []types.PageID) (string, string) {
		on := map[types.PageID]bool{}
		for _, p := range c {
			on[p] = true
		}
		sh, ex := lm.VerifLockTables()
		var xs, ss []string
		for r, t := range ex {
			if on[r.PageID] {
				xs = append(xs, fmt.Sprintf("%d.%d:%s", r.PageID, r.SlotNum, names[t]))
			}
		}
		for r, ts := range sh {
			if on[r.PageID] && len(ts) > 0 {
				var ns []string
				for _, t := range ts {
					ns = append(ns, names[t])
				}
				sort.Strings(ns)
				ss = append(ss, fmt.Sprintf("%d.%d:%s", r.PageID, r.SlotNum, strings.Join(ns, "+")))
			}
		}
		sort.Strings(xs)
		sort.Strings(ss)
		return strings.Join(xs, ","), strings.Join(ss, ",")
	}
	mkTuple := func(n, seed int64) *tuple.Tuple {
		return tuple.NewTupleFromSchema([]types.Value{types.NewVarchar(c14hVarchar(n, seed))}, sc)
	}

	for in.Scan() {
		f := strings.Fields(in.Text())
		if len(f) == 0 {
			continue
		}
		if f[0] == "quit" {
			break
		}
		var txn *access.Transaction
		if len(f) > 1 {
			txn = txns[f[1]]
		}
		res := ""
		before := pinsOf()
		func() {
			defer func() {
				if r := recover(); r != nil {
					res = "panic=" + strings.ReplaceAll(fmt.Sprint(r), " ", "_")
				}
			}()
			switch f[0] {
			case "newheap":
				nheap++
				t := tmgr.Begin(nil)
				cols := []*column.Column{column.NewColumn("v", types.Varchar, false, index_constants.IndexKindInvalid, types.PageID(-1), nil)}
				tm = cat.CreateTable(fmt.Sprintf("h%d", nheap), schema.NewSchema(cols), t)
				tmgr.Commit(cat, t)
				th = tm.Table()
				sc = tm.Schema()
				txns = map[string]*access.Transaction{}
				names = map[types.TxnID]string{}
				res = fmt.Sprintf("ok first=%d", th.GetFirstPageID())
			case "begin":
				t := tmgr.Begin(nil)
				txns[f[1]] = t
				names[t.GetTransactionID()] = f[1]
				txn = t
				res = "ok"
			case "commit":
				tmgr.Commit(cat, txn)
				res = "ok"
			case "abort":
				tmgr.Abort(cat, txn)
				res = "ok"
			case "ins":
				tpl := mkTuple(atoi64(f[2]), atoi64(f[3]))
				rid, err := th.InsertTuple(tpl, txn, tm.OID(), false)
				if rid == nil || err != nil {
					res = fmt.Sprintf("rid=nil size=%d", tpl.Size())
				} else {
					res = fmt.Sprintf("rid=%d.%d size=%d", rid.PageID, rid.SlotNum, tpl.Size())
				}
			case "mark":
				rid := c14hRid(f[2])
				ok := th.MarkDelete(&rid, tm.OID(), txn, false)
				res = fmt.Sprintf("ok=%d", b2i(ok))
			case "upd":
				rid := c14hRid(f[2])
				tpl := mkTuple(atoi64(f[3]), atoi64(f[4]))
				ok, nrid, _, _, _ := th.UpdateTuple(tpl, nil, nil, tm.OID(), rid, txn, false)
				if nrid == nil {
					res = fmt.Sprintf("ok=%d inplace=1 rid=%d.%d size=%d", b2i(ok), rid.PageID, rid.SlotNum, tpl.Size())
				} else {
					res = fmt.Sprintf("ok=%d inplace=0 rid=%d.%d size=%d", b2i(ok), nrid.PageID, nrid.SlotNum, tpl.Size())
				}
			case "get":
				rid := c14hRid(f[2])
				tpl, err := th.GetTuple(&rid, txn)
				if tpl == nil {
					res = "row=nil"
				} else if err == access.ErrSelfDeletedCase {
					res = "row=self"
				} else {
					res = fmt.Sprintf("row=%d", tpl.Size())
				}
			case "scan":
				var rows []string
				it := th.Iterator(txn)
				for tpl := it.Current(); !it.End(); tpl = it.Next() {
					rows = append(rows, fmt.Sprintf("%d.%d:%d", tpl.GetRID().PageID, tpl.GetRID().SlotNum, tpl.Size()))
					if len(rows) > 1000000 {
						panic("scan does not end")
					}
				}
				res = "rows=" + strings.Join(rows, ",")
			default:
				res = "bad-command"
			}
		}()
		after := pinsOf()
		c := chain()
		xl, sl := locks(c)
		var cs []string
		for _, p := range c {
			cs = append(cs, fmt.Sprint(p))
		}
		fmt.Fprintf(out, "%s st=%s pb=%s pa=%s chain=%s xl=%s sl=%s\n", res, stName(txn), showPins(before, c), showPins(after, c), strings.Join(cs, ","), xl, sl)
		out.Flush()
	}
}

func b2i(b bool) int {
	if b {
		return 1
	}
	return 0
}
