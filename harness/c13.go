package main

import (
	"bufio"
	"encoding/binary"
	"fmt"
	"sort"
	"strings"

	"github.com/ryogrid/SamehadaDB/lib/recovery"
	"github.com/ryogrid/SamehadaDB/lib/storage/buffer"
	"github.com/ryogrid/SamehadaDB/lib/storage/disk"
	"github.com/ryogrid/SamehadaDB/lib/storage/page"
	"github.com/ryogrid/SamehadaDB/lib/types"
)

func init() { subcommands["c13"] = runC13 }

const valOff = 64

func pageVal(pg *page.Page) uint64 { return binary.LittleEndian.Uint64(pg.Data()[valOff:]) }

func poolState(bpm *buffer.BufferPoolManager) (string, buffer.VerifState) {
	st := bpm.VerifSnapshot()
	pages := bpm.GetPages()
	var fr []string
	for i, f := range st.Frames {
		if !f.Used {
			fr = append(fr, "-")
			continue
		}
		b2i := func(b bool) int {
			if b {
				return 1
			}
			return 0
		}
		fr = append(fr, fmt.Sprintf("%d,%d,%d,%d,%d", f.PageID, f.PinCount, b2i(f.Dirty), b2i(f.Dealloc), pageVal(pages[i])))
	}
	var pt []string
	var keys []int
	for k := range st.PageTable {
		keys = append(keys, int(k))
	}
	sort.Ints(keys)
	for _, k := range keys {
		pt = append(pt, fmt.Sprintf("%d:%d", k, st.PageTable[types.PageID(k)]))
	}
	var fl, rp, ru []string
	for _, f := range st.FreeList {
		fl = append(fl, fmt.Sprint(f))
	}
	for i, f := range st.Frames {
		if f.InReplacer {
			rp = append(rp, fmt.Sprint(i))
		}
	}
	for _, p := range st.Reusable {
		ru = append(ru, fmt.Sprint(p))
	}
	return fmt.Sprintf("%s|%s|%s|%s|%s", strings.Join(fr, "/"), strings.Join(pt, "/"), strings.Join(fl, ","), strings.Join(rp, ","), strings.Join(ru, ",")), st
}

// interactive protocol: a line "# <poolsize>" creates a fresh pool; every other line is one
// operation  N | F p | W p v | U p d | L p | A | D p nw | K p  answered by one flushed result line.
func runC13(args []string, in *bufio.Scanner, out *bufio.Writer) {
	var bpm *buffer.BufferPoolManager
	var handles map[int64]*page.Page
	dead := false
	for in.Scan() {
		line := strings.TrimSpace(in.Text())
		if line == "" {
			continue
		}
		f := strings.Fields(line)
		if f[0] == "#" {
			var dman disk.DiskManager = disk.NewVirtualDiskManagerImpl("c13.db")
			logMgr := recovery.NewLogManager(&dman)
			bpm = buffer.NewBufferPoolManager(uint32(atoi64(f[1])), dman, logMgr)
			handles = map[int64]*page.Page{}
			dead = false
			fmt.Fprintln(out, "init")
			out.Flush()
			continue
		}
		if dead {
			fmt.Fprintln(out, "hang|-|")
			out.Flush()
			continue
		}
		_, s0 := poolState(bpm)
		o := guard(func() string {
			switch f[0] {
			case "N":
				pg := bpm.NewPage()
				if pg == nil {
					return "nil"
				}
				handles[int64(pg.GetPageID())] = pg
				return fmt.Sprintf("new:%d", pg.GetPageID())
			case "F":
				p := atoi64(f[1])
				pg := bpm.FetchPage(types.PageID(p))
				if pg == nil {
					return "nil"
				}
				handles[p] = pg
				return fmt.Sprintf("fetched:%d", pageVal(pg))
			case "W":
				p := atoi64(f[1])
				pg, ok := handles[p]
				if !ok {
					return "bad"
				}
				binary.LittleEndian.PutUint64(pg.Data()[valOff:], uint64(atoi64(f[2])))
				return "ok"
			case "U":
				bpm.UnpinPage(types.PageID(atoi64(f[1])), f[2] == "1")
				return "ok"
			case "L":
				if bpm.FlushPage(types.PageID(atoi64(f[1]))) {
					return "ok"
				}
				return "false"
			case "A":
				bpm.FlushAllPages()
				return "ok"
			case "D":
				bpm.DeallocatePage(types.PageID(atoi64(f[1])), f[2] == "1")
				return "ok"
			case "K":
				p := atoi64(f[1])
				pg, ok := handles[p]
				if !ok {
					return "bad"
				}
				pg.SetIsDeallocated(true)
				return "ok"
			}
			return "?"
		})
		if !bpm.VerifTryLock() {
			dead = true
			fmt.Fprintln(out, o+"|-|locked")
			out.Flush()
			continue
		}
		ss, s1 := poolState(bpm)
		victim := "-"
		if len(s0.FreeList) == 0 && (f[0] == "N" || f[0] == "F") {
			for i := range s0.Frames {
				if s0.Frames[i].InReplacer && !s1.Frames[i].InReplacer {
					// the frame left the replacer: it was chosen (a fetch of a resident page also removes its frame)
					if f[0] == "F" {
						if fr, ok := s0.PageTable[types.PageID(atoi64(f[1]))]; ok && int(fr) == i {
							continue
						}
					}
					victim = fmt.Sprint(i)
				}
			}
		}
		fmt.Fprintln(out, o+"|"+victim+"|"+ss)
		out.Flush()
	}
}
