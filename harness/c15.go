package main

import (
	"bufio"
	"fmt"
	"strings"

	"github.com/ryogrid/SamehadaDB/lib/recovery"
	"github.com/ryogrid/SamehadaDB/lib/storage/access"
	"github.com/ryogrid/SamehadaDB/lib/storage/buffer"
	"github.com/ryogrid/SamehadaDB/lib/storage/disk"
	"github.com/ryogrid/SamehadaDB/lib/storage/index/index_constants"
	"github.com/ryogrid/SamehadaDB/lib/storage/page"
	"github.com/ryogrid/SamehadaDB/lib/storage/table/column"
	"github.com/ryogrid/SamehadaDB/lib/storage/table/schema"
	"github.com/ryogrid/SamehadaDB/lib/storage/tuple"
	"github.com/ryogrid/SamehadaDB/lib/types"
)

func init() { subcommands["c15"] = runC15 }

// deterministic row content shared with the OCaml driver
func rowBytes(n int64, seed int64) []byte {
	b := make([]byte, n)
	for j := int64(0); j < n; j++ {
		b[j] = byte((seed + j*131 + (j/256)*17) & 0xff)
	}
	return b
}

var c15Schema = schema.NewSchema([]*column.Column{
	column.NewColumn("a", types.Integer, false, index_constants.IndexKindInvalid, types.PageID(-1), nil),
	column.NewColumn("b", types.Varchar, false, index_constants.IndexKindInvalid, types.PageID(-1), nil),
	column.NewColumn("c", types.Varchar, false, index_constants.IndexKindInvalid, types.PageID(-1), nil)})

func c15Row(a, l1, l2 string) []types.Value {
	return []types.Value{types.NewInteger(int32(atoi64(a))), types.NewVarchar(strings.Repeat("p", int(atoi64(l1)))), types.NewVarchar(strings.Repeat("q", int(atoi64(l2))))}
}

func fnv(b []byte) uint64 {
	h := uint64(14695981039346656037)
	for _, x := range b {
		h ^= uint64(x)
		h *= 1099511628211
	}
	return h
}

func digest(b []byte) string { return fmt.Sprintf("%d:%016x", len(b), fnv(b)) }

func le32(b []byte) uint32 {
	return uint32(b[0]) | uint32(b[1])<<8 | uint32(b[2])<<16 | uint32(b[3])<<24
}

func pageState(tp *access.TablePage) string {
	d := tp.Data()
	fsp := le32(d[16:])
	cnt := le32(d[20:])
	var sl []string
	for i := uint32(0); i < cnt && 24+8*i+8 <= 4096; i++ {
		sl = append(sl, fmt.Sprintf("%d,%d", le32(d[24+8*i:]), le32(d[28+8*i:])))
	}
	var area []byte
	if fsp <= 4096 {
		area = d[fsp:4096]
	}
	return fmt.Sprintf("%d|%s|%s", fsp, strings.Join(sl, "/"), digest(area))
}

func runC15(args []string, in *bufio.Scanner, out *bufio.Writer) {
	for in.Scan() {
		line := strings.TrimSpace(in.Text())
		if line == "" {
			continue
		}
		var dman disk.DiskManager = disk.NewVirtualDiskManagerImpl("c15.db")
		logMgr := recovery.NewLogManager(&dman)
		logMgr.DeactivateLogging()
		bpm := buffer.NewBufferPoolManager(4, dman, logMgr)
		lm := access.NewLockManager(access.STRICT, access.SS2PLMode)
		txn := access.NewTransaction(types.TxnID(1))
		txn.SetIsRecoveryPhase(true)
		pg := bpm.NewPage()
		tp := access.CastPageAsTablePage(pg)
		tp.Init(pg.GetPageID(), types.InvalidPageID, logMgr, lm, txn, false)
		pid := pg.GetPageID()
		var res []string
		for _, op := range strings.Split(line, ";") {
			f := strings.Fields(op)
			if len(f) == 0 {
				continue
			}
			o := guard(func() string {
				switch f[0] {
				case "I":
					b := rowBytes(atoi64(f[1]), atoi64(f[2]))
					t := tuple.NewTuple(nil, uint32(len(b)), b)
					rid, err := tp.InsertTuple(t, logMgr, lm, txn)
					if err != nil {
						if err == access.ErrNotEnoughSpace {
							return "nospace"
						}
						return "err"
					}
					return fmt.Sprintf("ins:%d", rid.GetSlotNum())
				case "J": // insert as redo/undo do: the tuple carries the RID of the log record
					b := rowBytes(atoi64(f[2]), atoi64(f[3]))
					hint := page.RID{PageID: pid, SlotNum: uint32(atoi64(f[1]))}
					t := tuple.NewTuple(&hint, uint32(len(b)), b)
					rid, err := tp.InsertTuple(t, logMgr, lm, txn)
					if err != nil {
						if err == access.ErrNotEnoughSpace {
							return "nospace"
						}
						return "err"
					}
					return fmt.Sprintf("ins:%d", rid.GetSlotNum())
				case "U":
					b := rowBytes(atoi64(f[2]), atoi64(f[3]))
					t := tuple.NewTuple(nil, uint32(len(b)), b)
					rid := page.RID{PageID: pid, SlotNum: uint32(atoi64(f[1]))}
					old := new(tuple.Tuple)
					ok, err, _ := tp.UpdateTuple(t, nil, nil, old, &rid, txn, lm, logMgr, f[4] == "1")
					if ok {
						return "upd:" + digest(old.Data()[:old.Size()])
					}
					if err == access.ErrNotEnoughSpace {
						return "nospace"
					}
					if err == access.ErrRollbackDifficult {
						return "rbdiff"
					}
					return "fail"
				case "S": // S <a> <l1> <l2>: insert a row of the schema (int, varchar, varchar) built by NewTupleFromSchema
					t := tuple.NewTupleFromSchema(c15Row(f[1], f[2], f[3]), c15Schema)
					rid, err := tp.InsertTuple(t, logMgr, lm, txn)
					if err != nil {
						if err == access.ErrNotEnoughSpace {
							return "nospace"
						}
						return "err"
					}
					return fmt.Sprintf("ins:%d", rid.GetSlotNum())
				case "P": // P <slot> <mask> <a> <l1> <l2>: update only the columns of <mask> (bit i = column i), as UPDATE .. SET does:
					// the caller's tuple holds NULL dummies in the other columns and the page merges it with the stored row
					mask := atoi64(f[2])
					vals := c15Row(f[3], f[4], f[5])
					var idxs []int
					for c := 0; c < 3; c++ {
						if mask&(1<<uint(c)) != 0 {
							idxs = append(idxs, c)
						} else {
							vals[c] = types.NewNull()
						}
					}
					t := tuple.NewTupleFromSchema(vals, c15Schema)
					rid := page.RID{PageID: pid, SlotNum: uint32(atoi64(f[1]))}
					old := new(tuple.Tuple)
					ok, err, _ := tp.UpdateTuple(t, idxs, c15Schema, old, &rid, txn, lm, logMgr, false)
					if ok {
						return "upd:" + digest(old.Data()[:old.Size()])
					}
					if err == access.ErrNotEnoughSpace {
						return "nospace"
					}
					if err == access.ErrRollbackDifficult {
						return "rbdiff"
					}
					return "fail"
				case "M":
					rid := page.RID{PageID: pid, SlotNum: uint32(atoi64(f[1]))}
					ok, t := tp.MarkDelete(&rid, txn, lm, logMgr)
					if !ok {
						return "fail"
					}
					return "mark:" + digest(t.Data()[:t.Size()])
				case "A":
					rid := page.RID{PageID: pid, SlotNum: uint32(atoi64(f[1]))}
					tp.ApplyDelete(&rid, txn, logMgr)
					return "done"
				case "R":
					rid := page.RID{PageID: pid, SlotNum: uint32(atoi64(f[1]))}
					tp.RollbackDelete(&rid, txn, logMgr)
					return "done"
				case "G":
					rid := page.RID{PageID: pid, SlotNum: uint32(atoi64(f[1]))}
					t, err := tp.GetTuple(&rid, logMgr, lm, txn)
					if err == access.ErrSelfDeletedCase {
						return "selfdel"
					}
					if err != nil || t == nil {
						return "err"
					}
					return "tup:" + digest(t.Data()[:t.Size()])
				}
				return "?"
			})
			res = append(res, o+"|"+pageState(tp))
		}
		fmt.Fprintln(out, strings.Join(res, " "))
	}
}
