package main

// c08c: concurrent writing transactions with the I/O trace recorded (hook H1): several goroutines insert rows through the
// executor with explicit transactions and commit; right after TransactionManager.Commit returned, the goroutine puts the
// marker "CR <txn id>" into the trace.  The trace is written to <dir>/conc.trace in the format of the db subcommand.
// usage: verifharness c08c - <dir> <goroutines> <txns-per-goroutine> <pool-kb> <seed>

import (
	"bufio"
	"encoding/hex"
	"fmt"
	"math/rand"
	"os"
	"strings"
	"sync"

	"github.com/ryogrid/SamehadaDB/lib/common"
	"github.com/ryogrid/SamehadaDB/lib/execution/executors"
	"github.com/ryogrid/SamehadaDB/lib/execution/plans"
	"github.com/ryogrid/SamehadaDB/lib/samehada"
	"github.com/ryogrid/SamehadaDB/lib/storage/access"
	"github.com/ryogrid/SamehadaDB/lib/storage/disk"
	"github.com/ryogrid/SamehadaDB/lib/types"
)

func init() { subcommands["c08c"] = runC08c }

func runC08c(args []string, in *bufio.Scanner, out *bufio.Writer) {
	dir := args[0]
	ng, ntx, poolKB, seed := int(atoi64(args[1])), int(atoi64(args[2])), int(atoi64(args[3])), atoi64(args[4])
	common.TempSuppressOnMemStorage = false
	disk.VerifRecord = true
	db := samehada.NewSamehadaDB(dir+"/db", poolKB)
	db.VerifStopBackground()
	db.ExecuteSQL("CREATE TABLE ct(k int, g int, v varchar(255));")
	db.ExecuteSQL("CREATE TABLE cu(k int, g int, v varchar(255));")
	shi := db.GetSamehadaInstance()
	cat := db.GetCatalogForTesting()
	tms := []uint32{cat.GetTableByName("ct").OID(), cat.GetTableByName("cu").OID()}
	disk.VerifMark("SETUP-DONE")
	var wg sync.WaitGroup
	var mu sync.Mutex
	committed, aborted := 0, 0
	for g := 0; g < ng; g++ {
		wg.Add(1)
		go func(g int) {
			defer wg.Done()
			rng := rand.New(rand.NewSource(seed*1000 + int64(g)))
			for i := 0; i < ntx; i++ {
				txn := shi.GetTransactionManager().Begin(nil)
				n := 1 + rng.Intn(3)
				for j := 0; j < n && txn.GetState() != access.ABORTED; j++ {
					vals := []types.Value{types.NewInteger(int32(g*100000 + i*10 + j)), types.NewInteger(int32(g)),
						types.NewVarchar(strings.Repeat("c", 10+rng.Intn(200)))}
					plan := plans.NewInsertPlanNode([][]types.Value{vals}, tms[rng.Intn(2)])
					ctx := executors.NewExecutorContext(cat, shi.GetBufferPoolManager(), txn)
					(&executors.ExecutionEngine{}).Execute(plan, ctx)
				}
				if txn.GetState() == access.ABORTED || rng.Intn(10) == 0 {
					shi.GetTransactionManager().Abort(cat, txn)
					mu.Lock()
					aborted++
					mu.Unlock()
					continue
				}
				id := txn.GetTransactionID()
				shi.GetTransactionManager().Commit(cat, txn)
				disk.VerifMark(fmt.Sprintf("CR %d", id))
				mu.Lock()
				committed++
				mu.Unlock()
			}
		}(g)
	}
	wg.Wait()
	tr := disk.VerifTakeTrace()
	fh, err := os.Create(dir + "/conc.trace")
	if err != nil {
		fmt.Fprintln(out, "err:"+err.Error())
		out.Flush()
		os.Exit(0)
	}
	w := bufio.NewWriter(fh)
	for _, e := range tr {
		switch e.Kind {
		case 'P':
			fmt.Fprintf(w, "P %d %s\n", e.PageID, hex.EncodeToString(e.Data))
		case 'L':
			fmt.Fprintf(w, "L %s\n", hex.EncodeToString(e.Data))
		case 'G':
			fmt.Fprintf(w, "G\n")
		case 'M':
			fmt.Fprintf(w, "M %s\n", e.Note)
		}
	}
	w.Flush()
	fh.Close()
	fmt.Fprintf(out, "ok committed=%d aborted=%d events=%d\n", committed, aborted, len(tr))
	out.Flush()
	os.Exit(0)
}
