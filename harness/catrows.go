package main

// Catalog persistence correspondence (C10, coq/Model/CatalogRows.v): drives the catalog of a real, file-backed
// SamehadaDB instance and prints what the two catalog heaps hold and what the in-memory catalog answers.
//
// usage: verifharness catrows - <dir> [memKB]
// commands (one per line, one answer line each):
//   open                        start (or restart, running recovery) the database <dir>/db
//   close                       clean Shutdown()
//   restart                     close + open
//   sql <text>                  one auto-commit statement (ExecuteSQLRetValues): "ok" | "err:<message>"
//   api <name> <col,col,..|->   catalog.CreateTable(name, schema.NewSchema(columns)) inside its own transaction;
//                               name and column names hex encoded ("-" = empty);
//                               col = <namehex>:<type id>:<hasIndex 0|1>:<index kind 0..4>:<header page id passed to NewColumn>
//                               answer "ok:<oid>" | "panic:<message>"
//   trows                       rows of the table catalog (heap of page 0) in heap order, read from the page bytes:
//                               "<chain index>.<slot>=<oid>,<namehex>,<first page>" joined by ';'
//   crows                       rows of the columns catalog (heap of page 1) in heap order:
//                               "<chain index>.<slot>=<table oid>,<type>,<namehex>,<fixed>,<variable>,<offset>,<has index>,<kind>,<header page>"
//   view                        the in-memory catalog: "next=<nextTableID>" is not exported, so only the two maps:
//                               "O<oid>=<tab>" for every oid (ascending) then "N<namehex>=<oid>" for every name (sorted), joined by ' ';
//                               <tab> = <oid>|<namehex>|<first page>|<col>;<col>;...
//                               <col> = <namehex>:<type>:<fixed>:<variable>:<offset>:<has index>:<kind>:<header page>
//   byname <namehex>            GetTableByName: "ok:<tab>" | "ok:nil"
//   byoid <oid>                 GetTableByOID:  "ok:<tab>" | "ok:nil"
//   quit
//
// Index kinds: 0 none (IndexKindInvalid), 1 unique skip list, 2 skip list, 3 hash, 4 B-tree.
// Type ids: 1 Boolean, 4 Integer, 7 Float, 8 Varchar.

import (
	"bufio"
	"encoding/hex"
	"fmt"
	"sort"
	"strings"

	"github.com/ryogrid/SamehadaDB/lib/catalog"
	"github.com/ryogrid/SamehadaDB/lib/common"
	"github.com/ryogrid/SamehadaDB/lib/samehada"
	"github.com/ryogrid/SamehadaDB/lib/storage/access"
	"github.com/ryogrid/SamehadaDB/lib/storage/buffer"
	"github.com/ryogrid/SamehadaDB/lib/storage/index/index_constants"
	"github.com/ryogrid/SamehadaDB/lib/storage/page"
	"github.com/ryogrid/SamehadaDB/lib/storage/table/column"
	"github.com/ryogrid/SamehadaDB/lib/storage/table/schema"
	"github.com/ryogrid/SamehadaDB/lib/storage/tuple"
	"github.com/ryogrid/SamehadaDB/lib/types"
)

func init() { subcommands["catrows"] = runCatRows }

func catHex(s string) string {
	if s == "" {
		return "-"
	}
	return hex.EncodeToString([]byte(s))
}

// every occupied slot of the heap starting at page <first>, in page-chain order, decoded with <sc>
func catRawRows(bpm *buffer.BufferPoolManager, first types.PageID, sc *schema.Schema) string {
	var rows []string
	idx := 0
	for pid := first; pid.IsValid(); idx++ {
		pg := access.CastPageAsTablePage(bpm.FetchPage(pid))
		if pg == nil {
			return "err:nopage"
		}
		pg.RLatch()
		for sl := uint32(0); sl < pg.GetTupleCount(); sl++ {
			size := pg.GetTupleSize(sl)
			if size == 0 {
				continue
			}
			mark := ""
			if size&(1<<31) != 0 {
				mark = "*"
				size &^= 1 << 31
			}
			off := pg.GetTupleOffsetAtSlot(sl)
			data := append([]byte{}, pg.Data()[off:off+size]...)
			t := tuple.NewTuple(&page.RID{}, size, data)
			var vs []string
			for c := uint32(0); c < sc.GetColumnCount(); c++ {
				v := t.GetValue(sc, c)
				if v.ValueType() == types.Varchar {
					vs = append(vs, catHex(v.ToVarchar()))
				} else {
					vs = append(vs, fmt.Sprint(v.ToInteger()))
				}
			}
			rows = append(rows, fmt.Sprintf("%d.%d=%s%s", idx, sl, strings.Join(vs, ","), mark))
		}
		next := pg.GetNextPageID()
		pg.RUnlatch()
		bpm.UnpinPage(pid, false)
		pid = next
		if idx > 100000 {
			return "err:chain"
		}
	}
	return "ok:" + strings.Join(rows, ";")
}

func catBool(b bool) int {
	if b {
		return 1
	}
	return 0
}

func catTab(tm *catalog.TableMetadata) string {
	if tm == nil {
		return "nil"
	}
	var cs []string
	for _, c := range tm.Schema().GetColumns() {
		cs = append(cs, fmt.Sprintf("%s:%d:%d:%d:%d:%d:%d:%d", catHex(c.GetColumnName()), int(c.GetType()), c.FixedLength(), c.VariableLength(),
			c.GetOffset(), catBool(c.HasIndex()), int32(c.IndexKind()), int32(c.IndexHeaderPageID())))
	}
	return fmt.Sprintf("%d|%s|%d|%s", tm.OID(), catHex(*tm.GetTableName()), int32(tm.Table().GetFirstPageID()), strings.Join(cs, ";"))
}

func runCatRows(args []string, in *bufio.Scanner, out *bufio.Writer) {
	dir := args[0]
	memKB := 16000
	if len(args) > 1 {
		memKB = int(atoi64(args[1]))
	}
	common.TempSuppressOnMemStorage = true
	var db *samehada.SamehadaDB
	open := func() {
		db = samehada.NewSamehadaDB(dir+"/db", memKB)
		// hook H2: no wall-clock driven checkpoints / statistics updates in a scripted session
		db.VerifStopBackground()
	}
	for in.Scan() {
		line := strings.TrimSpace(in.Text())
		f := strings.SplitN(line, " ", 2)
		if len(f) == 0 || f[0] == "" {
			continue
		}
		rest := ""
		if len(f) > 1 {
			rest = f[1]
		}
		if f[0] == "quit" {
			return
		}
		res := func() (r string) {
			defer func() {
				if e := recover(); e != nil {
					msg := fmt.Sprint(e)
					if len(msg) > 160 {
						msg = msg[:160]
					}
					r = "panic:" + strings.ReplaceAll(msg, "\n", " ")
				}
			}()
			switch f[0] {
			case "open":
				open()
				return "ok"
			case "close":
				db.Shutdown()
				db = nil
				return "ok"
			case "restart":
				db.Shutdown()
				db = nil
				open()
				return "ok"
			case "sql":
				err, _ := db.ExecuteSQLRetValues(rest)
				if err != nil {
					return "err:" + strings.ReplaceAll(err.Error(), "\n", " ")
				}
				return "ok"
			case "api":
				a := strings.Fields(rest)
				name := string(mustHex(a[0]))
				var cols []*column.Column
				if len(a) > 1 && a[1] != "-" {
					for _, cs := range strings.Split(a[1], ",") {
						p := strings.Split(cs, ":")
						cols = append(cols, column.NewColumn(string(mustHex(p[0])), types.TypeID(atoi64(p[1])), atoi64(p[2]) == 1,
							index_constants.IndexKind(int32(atoi64(p[3]))), types.PageID(int32(atoi64(p[4]))), nil))
					}
				}
				shi := db.GetSamehadaInstance()
				cat := db.GetCatalogForTesting()
				txn := shi.GetTransactionManager().Begin(nil)
				var tm *catalog.TableMetadata
				func() {
					// a panic inside CreateTable must not leave the transaction open
					defer func() {
						if e := recover(); e != nil {
							shi.GetTransactionManager().Commit(cat, txn)
							panic(e)
						}
					}()
					tm = cat.CreateTable(name, schema.NewSchema(cols), txn)
				}()
				shi.GetTransactionManager().Commit(cat, txn)
				return fmt.Sprintf("ok:%d", tm.OID())
			case "trows":
				return catRawRows(db.GetSamehadaInstance().GetBufferPoolManager(), types.PageID(catalog.TableCatalogPageID), catalog.TableCatalogSchema())
			case "crows":
				return catRawRows(db.GetSamehadaInstance().GetBufferPoolManager(), types.PageID(catalog.ColumnsCatalogPageID), catalog.ColumnsCatalogSchema())
			case "view":
				cat := db.GetCatalogForTesting()
				tabs := cat.GetAllTables()
				sort.Slice(tabs, func(i, j int) bool { return tabs[i].OID() < tabs[j].OID() })
				var es []string
				names := map[string]bool{}
				for _, tm := range tabs {
					// through the oid map, as the executors do
					es = append(es, fmt.Sprintf("O%d=%s", tm.OID(), catTab(cat.GetTableByOID(tm.OID()))))
					names[*tm.GetTableName()] = true
				}
				var ns []string
				for n := range names {
					ns = append(ns, n)
				}
				sort.Strings(ns)
				for _, n := range ns {
					tm := cat.GetTableByName(n)
					if tm == nil {
						es = append(es, fmt.Sprintf("N%s=nil", catHex(n)))
					} else {
						es = append(es, fmt.Sprintf("N%s=%d", catHex(n), tm.OID()))
					}
				}
				return "ok:" + strings.Join(es, " ")
			case "byname":
				return "ok:" + catTab(db.GetCatalogForTesting().GetTableByName(string(mustHex(rest))))
			case "byoid":
				return "ok:" + catTab(db.GetCatalogForTesting().GetTableByOID(uint32(atoi64(rest))))
			}
			return "err:unknown-command"
		}()
		fmt.Fprintln(out, res)
		out.Flush()
	}
}
