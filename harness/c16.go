package main

import (
	"bufio"
	"fmt"
	"sort"
	"strings"

	"github.com/ryogrid/SamehadaDB/lib/recovery"
	"github.com/ryogrid/SamehadaDB/lib/storage/access"
	"github.com/ryogrid/SamehadaDB/lib/storage/disk"
	"github.com/ryogrid/SamehadaDB/lib/storage/page"
	"github.com/ryogrid/SamehadaDB/lib/types"
)

func init() { subcommands["c16"] = runC16 }

func ridOf(r int64) page.RID { return page.RID{PageID: types.PageID(int32(r >> 8)), SlotNum: uint32(r & 0xff)} }
func ridNum(r page.RID) int64 { return int64(r.PageID)<<8 | int64(r.SlotNum) }

func lockState(lm *access.LockManager) string {
	sh, ex := lm.VerifLockTables()
	var shs []string
	var keys []int64
	for k, v := range sh {
		if len(v) > 0 {
			keys = append(keys, ridNum(k))
		}
	}
	sort.Slice(keys, func(i, j int) bool { return keys[i] < keys[j] })
	for _, k := range keys {
		var ts []string
		for _, t := range sh[ridOf(k)] {
			ts = append(ts, fmt.Sprint(int(t)))
		}
		shs = append(shs, fmt.Sprintf("%d:%s", k, strings.Join(ts, ",")))
	}
	keys = keys[:0]
	for k := range ex {
		keys = append(keys, ridNum(k))
	}
	sort.Slice(keys, func(i, j int) bool { return keys[i] < keys[j] })
	var exs []string
	for _, k := range keys {
		exs = append(exs, fmt.Sprintf("%d:%d", k, int(ex[ridOf(k)])))
	}
	return "[" + strings.Join(shs, "/") + "][" + strings.Join(exs, "/") + "]"
}

func runC16(args []string, in *bufio.Scanner, out *bufio.Writer) {
	for in.Scan() {
		line := strings.TrimSpace(in.Text())
		if line == "" {
			continue
		}
		var dman disk.DiskManager = disk.NewVirtualDiskManagerImpl("c16.db")
		logMgr := recovery.NewLogManager(&dman)
		lm := access.NewLockManager(access.STRICT, access.SS2PLMode)
		tm := access.NewTransactionManager(lm, logMgr)
		txns := map[int64]*access.Transaction{}
		nEnd := 0
		get := func(t int64) *access.Transaction {
			if x, ok := txns[t]; ok {
				return x
			}
			x := tm.Begin(access.NewTransaction(types.TxnID(t)))
			txns[t] = x
			return x
		}
		var res []string
		for _, op := range strings.Split(line, ";") {
			f := strings.Fields(op)
			if len(f) == 0 {
				continue
			}
			o := guard(func() string {
				t := atoi64(f[1])
				switch f[0] {
				case "S", "X", "U":
					rid := ridOf(atoi64(f[2]))
					var ok bool
					switch f[0] {
					case "S":
						ok = lm.LockShared(get(t), &rid)
					case "X":
						ok = lm.LockExclusive(get(t), &rid)
					default:
						ok = lm.LockUpgrade(get(t), &rid)
					}
					if ok {
						return "G"
					}
					return "D"
				case "R":
					// the transaction ends: alternate commit and abort (both call releaseLocks)
					txn := get(t)
					if nEnd%2 == 0 {
						tm.Commit(nil, txn)
					} else {
						tm.Abort(nil, txn)
					}
					nEnd++
					delete(txns, t)
					return "-"
				}
				return "?"
			})
			if o == "panic" {
				o = "P"
				// LockUpgrade panics while holding the manager's mutex (deferred unlock runs), state is unchanged
			}
			res = append(res, o+lockState(lm))
		}
		fmt.Fprintln(out, strings.Join(res, " "))
	}
}
