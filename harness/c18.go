package main

import (
	"bufio"
	"bytes"
	"encoding/hex"
	"fmt"
	"math"
	"strconv"
	"strings"

	"github.com/ryogrid/SamehadaDB/lib/samehada/samehada_util"
	"github.com/ryogrid/SamehadaDB/lib/storage/index"
	"github.com/ryogrid/SamehadaDB/lib/storage/page"
	"github.com/ryogrid/SamehadaDB/lib/types"
)

func init() { subcommands["c18"] = runC18 }

func atoi64(s string) int64 {
	v, err := strconv.ParseInt(s, 10, 64)
	if err != nil {
		panic(err)
	}
	return v
}

func mustHex(s string) []byte {
	if s == "-" {
		return []byte{}
	}
	b, err := hex.DecodeString(s)
	if err != nil {
		panic(err)
	}
	return b
}

func hx(b []byte) string {
	if len(b) == 0 {
		return "-"
	}
	return hex.EncodeToString(b)
}

func sgn(c int) int {
	if c < 0 {
		return -1
	} else if c > 0 {
		return 1
	}
	return 0
}

// order of two encoded varchar values as the skip list sees it
func valCmp(a, b *types.Value) int {
	if a.CompareLessThan(*b) {
		return -1
	} else if a.CompareEquals(*b) {
		return 0
	}
	return 1
}

func guard(f func() string) (res string) {
	defer func() {
		if r := recover(); r != nil {
			res = "panic"
		}
	}()
	return f()
}

func encOf(v types.Value, p int64, s int64) *types.Value {
	rid := page.RID{PageID: types.PageID(int32(p)), SlotNum: uint32(s)}
	return samehada_util.EncodeValueAndRIDToDicOrderComparableVarchar(&v, &rid)
}

func ridStr(r page.RID) string { return fmt.Sprintf("%d,%d", r.PageID, r.SlotNum) }

func runC18(args []string, in *bufio.Scanner, out *bufio.Writer) {
	for in.Scan() {
		line := in.Text()
		f := strings.Fields(line)
		if len(f) == 0 {
			continue
		}
		res := guard(func() string {
			switch f[0] {
			case "I": // I z page slot
				z, p, s := atoi64(f[1]), atoi64(f[2]), atoi64(f[3])
				e := encOf(types.NewInteger(int32(z)), p, s)
				d := samehada_util.ExtractOrgKeyFromDicOrderComparableEncodedVarchar(e, types.Integer)
				d2 := samehada_util.ExtractOrgKeyFromDicOrderComparableEncodedBytes(e.Serialize(), types.Integer)
				return fmt.Sprintf("enc=%s dec=%d dec2=%d", hx([]byte(e.ToVarchar())), d.ToInteger(), d2.ToInteger())
			case "F": // F bits page slot
				u, p, s := atoi64(f[1]), atoi64(f[2]), atoi64(f[3])
				e := encOf(types.NewFloat(math.Float32frombits(uint32(u))), p, s)
				d := samehada_util.ExtractOrgKeyFromDicOrderComparableEncodedVarchar(e, types.Float)
				return fmt.Sprintf("enc=%s dec=%d", hx([]byte(e.ToVarchar())), math.Float32bits(d.ToFloat()))
			case "S": // S hex page slot
				b, p, s := mustHex(f[1]), atoi64(f[2]), atoi64(f[3])
				e := encOf(types.NewVarchar(string(b)), p, s)
				d := samehada_util.ExtractOrgKeyFromDicOrderComparableEncodedVarchar(e, types.Varchar)
				fill := guard(func() string {
					k := samehada_util.FillZeroValues([]byte(e.ToVarchar()), index.MaxKeyLen)
					el := samehada_util.EliminateZeroValues(k)
					return hx(k) + " elim=" + hx(el)
				})
				return fmt.Sprintf("enc=%s dec=%s fill=%s", hx([]byte(e.ToVarchar())), hx([]byte(d.ToVarchar())), fill)
			case "R": // R page slot
				p, s := atoi64(f[1]), atoi64(f[2])
				rid := page.RID{PageID: types.PageID(int32(p)), SlotNum: uint32(s)}
				p64 := samehada_util.PackRIDtoUint64(&rid)
				u64 := samehada_util.UnpackUint64toRID(p64)
				p8 := samehada_util.PackRIDto8bytes(&rid)
				u8 := samehada_util.Unpack8BytesToRID(p8)
				p32 := samehada_util.PackRIDtoUint32(&rid)
				u32 := samehada_util.UnpackUint32toRID(p32)
				return fmt.Sprintf("p64=%x u64=%s p8=%s u8=%s p32=%x u32=%s", p64, ridStr(u64), hx(p8), ridStr(u8), p32, ridStr(u32))
			case "PI": // PI z1 p1 s1 z2 p2 s2
				z1, z2 := int32(atoi64(f[1])), int32(atoi64(f[4]))
				e1 := encOf(types.NewInteger(z1), atoi64(f[2]), atoi64(f[3]))
				e2 := encOf(types.NewInteger(z2), atoi64(f[5]), atoi64(f[6]))
				nat := 0
				if z1 < z2 {
					nat = -1
				} else if z1 > z2 {
					nat = 1
				}
				return fmt.Sprintf("bytes=%d val=%d native=%d", sgn(bytes.Compare([]byte(e1.ToVarchar()), []byte(e2.ToVarchar()))), valCmp(e1, e2), nat)
			case "PF":
				u1, u2 := math.Float32frombits(uint32(atoi64(f[1]))), math.Float32frombits(uint32(atoi64(f[4])))
				e1 := encOf(types.NewFloat(u1), atoi64(f[2]), atoi64(f[3]))
				e2 := encOf(types.NewFloat(u2), atoi64(f[5]), atoi64(f[6]))
				nat := 0
				if u1 < u2 {
					nat = -1
				} else if u1 > u2 {
					nat = 1
				}
				return fmt.Sprintf("bytes=%d val=%d native=%d", sgn(bytes.Compare([]byte(e1.ToVarchar()), []byte(e2.ToVarchar()))), valCmp(e1, e2), nat)
			case "PS":
				s1, s2 := string(mustHex(f[1])), string(mustHex(f[4]))
				e1 := encOf(types.NewVarchar(s1), atoi64(f[2]), atoi64(f[3]))
				e2 := encOf(types.NewVarchar(s2), atoi64(f[5]), atoi64(f[6]))
				nat := sgn(strings.Compare(s1, s2))
				fl := guard(func() string {
					k1 := samehada_util.FillZeroValues([]byte(e1.ToVarchar()), index.MaxKeyLen)
					k2 := samehada_util.FillZeroValues([]byte(e2.ToVarchar()), index.MaxKeyLen)
					return strconv.Itoa(sgn(bytes.Compare(k1, k2)))
				})
				return fmt.Sprintf("bytes=%d val=%d native=%d padded=%s", sgn(bytes.Compare([]byte(e1.ToVarchar()), []byte(e2.ToVarchar()))), valCmp(e1, e2), nat, fl)
			}
			return "badcase"
		})
		fmt.Fprintf(out, "%s\n", res)
	}
}
