package main

// Concurrent use of one index (C17): writer goroutines each own a disjoint set of keys and alternately insert
// and delete them; reader goroutines look keys up and scan ranges.  "Stable" keys inserted before the start
// and never touched must always be found; a lookup that lies completely inside a period in which its key was
// present (absent) must find (not find) it; a range scan must always be sorted and contain every stable key
// of its range exactly once.
// usage: verifharness c17c - <dir> <kind s|b> <writers> <readers> <ops> <seed> <timeout-s>
// prints "VIOLATION ..." lines (none expected) then "DONE ops=<n> lookups=<n> scans=<n>"

import (
	"bufio"
	"fmt"
	"math/rand"
	"os"
	"sync"
	"sync/atomic"
	"time"

	"github.com/ryogrid/SamehadaDB/lib/common"
	"github.com/ryogrid/SamehadaDB/lib/samehada"
	"github.com/ryogrid/SamehadaDB/lib/storage/access"
	"github.com/ryogrid/SamehadaDB/lib/storage/index/index_constants"
	"github.com/ryogrid/SamehadaDB/lib/storage/page"
	"github.com/ryogrid/SamehadaDB/lib/storage/table/column"
	"github.com/ryogrid/SamehadaDB/lib/storage/table/schema"
	"github.com/ryogrid/SamehadaDB/lib/storage/tuple"
	"github.com/ryogrid/SamehadaDB/lib/types"
)

func init() { subcommands["c17c"] = runC17c }

func runC17c(args []string, in *bufio.Scanner, out *bufio.Writer) {
	dir, kind := args[0], args[1]
	writers, readers, nops := int(atoi64(args[2])), int(atoi64(args[3])), int(atoi64(args[4]))
	seed, tmo := atoi64(args[5]), atoi64(args[6])
	common.TempSuppressOnMemStorage = true
	db := samehada.NewSamehadaDB(dir+"/db", 8000)
	ik := index_constants.IndexKindSkipList
	if kind == "b" {
		ik = index_constants.IndexKindBtree
	}
	cols := []*column.Column{column.NewColumn("a", types.Integer, true, ik, types.PageID(-1), nil), column.NewColumn("b", types.Integer, false, index_constants.IndexKindInvalid, types.PageID(-1), nil)}
	shi := db.GetSamehadaInstance()
	txn := shi.GetTransactionManager().Begin(nil)
	tm := db.GetCatalogForTesting().CreateTable("cc", schema.NewSchema(cols), txn)
	shi.GetTransactionManager().Commit(db.GetCatalogForTesting(), txn)
	ix := tm.GetIndex(0)
	sc := tm.Schema()
	mk := func(k int32) *tuple.Tuple {
		return tuple.NewTupleFromSchema([]types.Value{types.NewInteger(k), types.NewInteger(0)}, sc)
	}
	ridOf := func(k int32) page.RID { return page.RID{PageID: types.PageID(k/100 + 1), SlotNum: uint32(k % 100)} }
	// stable keys: multiples of 10; writer w owns keys k with k%10 == w+1
	const span = 2000
	for k := int32(0); k < span; k += 10 {
		ix.InsertEntry(mk(k), ridOf(k), nil)
	}
	var clock int64
	type period struct{ from, to int64 } // key present during [from,to)
	var mu sync.Mutex
	var viol []string
	addViol := func(s string) {
		mu.Lock()
		if len(viol) < 20 {
			viol = append(viol, s)
		}
		mu.Unlock()
	}
	// per key: state changes recorded by its single writer: (completion time of insert, start time of delete)...
	type keyLog struct {
		mu                       sync.Mutex
		insDone, delStart        []int64 // present for sure during [insDone[i], delStart[i])
		delDone, insStart        []int64 // absent for sure during [delDone[i], insStart[i+1])
	}
	logs := make([]keyLog, span)
	var wg sync.WaitGroup
	var nlook, nscan, nwr int64
	stop := int32(0)
	for w := 0; w < writers; w++ {
		wg.Add(1)
		go func(w int) {
			defer wg.Done()
			rng := rand.New(rand.NewSource(seed*100 + int64(w)))
			present := map[int32]bool{}
			for i := 0; i < nops && atomic.LoadInt32(&stop) == 0; i++ {
				k := int32(rng.Intn(span/10))*10 + int32(w%9) + 1
				kl := &logs[k]
				if !present[k] {
					t0 := atomic.AddInt64(&clock, 1)
					kl.mu.Lock(); kl.insStart = append(kl.insStart, t0); kl.mu.Unlock()
					ix.InsertEntry(mk(k), ridOf(k), nil)
					t1 := atomic.AddInt64(&clock, 1)
					kl.mu.Lock(); kl.insDone = append(kl.insDone, t1); kl.mu.Unlock()
					present[k] = true
				} else {
					t0 := atomic.AddInt64(&clock, 1)
					kl.mu.Lock(); kl.delStart = append(kl.delStart, t0); kl.mu.Unlock()
					ix.DeleteEntry(mk(k), ridOf(k), nil)
					t1 := atomic.AddInt64(&clock, 1)
					kl.mu.Lock(); kl.delDone = append(kl.delDone, t1); kl.mu.Unlock()
					present[k] = false
				}
				atomic.AddInt64(&nwr, 1)
			}
		}(w)
	}
	for r := 0; r < readers; r++ {
		wg.Add(1)
		go func(r int) {
			defer wg.Done()
			rng := rand.New(rand.NewSource(seed*100 + 50 + int64(r)))
			for i := 0; i < nops && atomic.LoadInt32(&stop) == 0; i++ {
				if rng.Intn(4) != 0 {
					k := int32(rng.Intn(span))
					t0 := atomic.AddInt64(&clock, 1)
					rids := ix.ScanKey(mk(k), nil)
					t1 := atomic.AddInt64(&clock, 1)
					atomic.AddInt64(&nlook, 1)
					found := false
					for _, x := range rids {
						if x == ridOf(k) {
							if found {
								addViol(fmt.Sprintf("lookup of key %d returned its row id twice", k))
							}
							found = true
						} else {
							addViol(fmt.Sprintf("lookup of key %d returned a foreign row id %v", k, x))
						}
					}
					if k%10 == 0 {
						if !found {
							addViol(fmt.Sprintf("stable key %d (never touched) not found", k))
						}
						continue
					}
					kl := &logs[k]
					kl.mu.Lock()
					// surely present: some i with insDone[i] <= t0 and (no delStart[i] or t1 <= delStart[i])
					surePresent, sureAbsent := false, false
					for j, d := range kl.insDone {
						if d <= t0 && (j >= len(kl.delStart) || t1 <= kl.delStart[j]) {
							surePresent = true
						}
					}
					if len(kl.insStart) == 0 || t1 <= kl.insStart[0] {
						sureAbsent = true
					}
					for j, d := range kl.delDone {
						if d <= t0 && (j+1 >= len(kl.insStart) || t1 <= kl.insStart[j+1]) {
							sureAbsent = true
						}
					}
					kl.mu.Unlock()
					if surePresent && !found {
						addViol(fmt.Sprintf("key %d was present during the whole lookup [%d,%d] but not found", k, t0, t1))
					}
					if sureAbsent && found {
						addViol(fmt.Sprintf("key %d was absent during the whole lookup [%d,%d] but found", k, t0, t1))
					}
				} else {
					lo := int32(rng.Intn(span - 200))
					hi := lo + int32(rng.Intn(200))
					itr := ix.GetRangeScanIterator(mk(lo), mk(hi), nil)
					atomic.AddInt64(&nscan, 1)
					seen := map[int32]int{}
					last := int32(-1)
					for done, _, _, rid := itr.Next(); !done; done, _, _, rid = itr.Next() {
						k := int32(rid.PageID-1)*100 + int32(rid.SlotNum)
						if k < last {
							addViol(fmt.Sprintf("range scan [%d,%d] out of order: %d after %d", lo, hi, k, last))
						}
						last = k
						seen[k]++
						if k < lo || k > hi {
							addViol(fmt.Sprintf("range scan [%d,%d] returned key %d", lo, hi, k))
						}
					}
					for k := ((lo + 9) / 10) * 10; k <= hi; k += 10 {
						if seen[k] != 1 {
							addViol(fmt.Sprintf("range scan [%d,%d] saw stable key %d %d times", lo, hi, k, seen[k]))
						}
					}
				}
			}
		}(r)
	}
	fin := make(chan struct{})
	go func() { wg.Wait(); close(fin) }()
	select {
	case <-fin:
	case <-time.After(time.Duration(tmo) * time.Second):
		atomic.StoreInt32(&stop, 1)
		fmt.Fprintln(out, "VIOLATION an index operation blocks forever (watchdog)")
	}
	for _, v := range viol {
		fmt.Fprintln(out, "VIOLATION "+v)
	}
	fmt.Fprintf(out, "DONE ops=%d lookups=%d scans=%d\n", nwr, nlook, nscan)
	out.Flush()
	os.Exit(0)
}

var _ = access.NewTransaction
