package main

// Code side of the C06 range/compare correspondence (model: coq/Model/Query.v).
// One case per line:
//
//   R <ty> <op>,<lit>,<dir> ...     optimizer.NewRange(ty) followed by Range.Update(op, lit, dir) for every
//                                   item; prints "min|max|minInc|maxInc|empty" for the fresh range and after
//                                   every update (space separated)
//   C <ty> <v> <r>                  the six types.Value comparisons v.CompareXxx(r) in the order
//                                   Equals NotEquals GreaterThan GreaterThanOrEqual LessThan LessThanOrEqual,
//                                   then v.IsInfMax v.IsInfMin: eight characters 0/1 (P = panic)
//
//   ty: i f s      op: eq ne gt ge lt le      dir: R (column op literal) | L (literal op column)
//   values: i:<int32>  f:<float32 bits>  s:<hex>|s:-  n (NULL of type ty)

import (
	"bufio"
	"encoding/hex"
	"fmt"
	"math"
	"strings"

	"github.com/ryogrid/SamehadaDB/lib/execution/expression"
	"github.com/ryogrid/SamehadaDB/lib/planner/optimizer"
	"github.com/ryogrid/SamehadaDB/lib/types"
)

func init() { subcommands["c06range"] = runC06Range }

func c06Type(s string) types.TypeID {
	switch s {
	case "i":
		return types.Integer
	case "f":
		return types.Float
	}
	return types.Varchar
}

func c06Val(s string, ty types.TypeID) *types.Value {
	var v types.Value
	if s == "n" {
		switch ty {
		case types.Integer:
			v = types.NewInteger(0)
		case types.Float:
			v = types.NewFloat(0)
		default:
			v = types.NewVarchar("")
		}
		return v.SetNull()
	}
	switch s[0] {
	case 'i':
		v = types.NewInteger(int32(atoi64(s[2:])))
	case 'f':
		v = types.NewFloat(math.Float32frombits(uint32(atoi64(s[2:]))))
	default:
		if s[2:] == "-" {
			v = types.NewVarchar("")
		} else {
			b, err := hex.DecodeString(s[2:])
			if err != nil {
				panic(err)
			}
			v = types.NewVarchar(string(b))
		}
	}
	return &v
}

func c06Fmt(v *types.Value) string {
	if v.IsNull() {
		return "n"
	}
	switch v.ValueType() {
	case types.Integer:
		return fmt.Sprintf("i:%d", v.ToInteger())
	case types.Float:
		return fmt.Sprintf("f:%d", math.Float32bits(v.ToFloat()))
	}
	s := v.ToVarchar()
	if s == "" {
		return "s:-"
	}
	return "s:" + hex.EncodeToString([]byte(s))
}

func c06Bool(b bool) string {
	if b {
		return "1"
	}
	return "0"
}

func c06RangeStr(r *optimizer.Range) string {
	return c06Fmt(r.Min) + "|" + c06Fmt(r.Max) + "|" + c06Bool(r.MinInclusive) + "|" + c06Bool(r.MaxInclusive) + "|" + c06Bool(r.Empty())
}

var c06Ops = map[string]expression.ComparisonType{
	"eq": expression.Equal, "ne": expression.NotEqual, "gt": expression.GreaterThan,
	"ge": expression.GreaterThanOrEqual, "lt": expression.LessThan, "le": expression.LessThanOrEqual}

func runC06Range(args []string, in *bufio.Scanner, out *bufio.Writer) {
	for in.Scan() {
		f := strings.Fields(in.Text())
		if len(f) < 2 {
			continue
		}
		ty := c06Type(f[1])
		switch f[0] {
		case "R":
			res := guard(func() string {
				r := optimizer.NewRange(ty)
				outs := []string{c06RangeStr(r)}
				for _, item := range f[2:] {
					p := strings.Split(item, ",")
					dir := optimizer.DirRight
					if p[2] == "L" {
						dir = optimizer.DirLeft
					}
					r.Update(c06Ops[p[0]], c06Val(p[1], ty), dir)
					outs = append(outs, c06RangeStr(r))
				}
				return strings.Join(outs, " ")
			})
			fmt.Fprintln(out, res)
		case "C":
			v := c06Val(f[2], ty)
			r := c06Val(f[3], ty)
			fs := []func() bool{
				func() bool { return v.CompareEquals(*r) },
				func() bool { return v.CompareNotEquals(*r) },
				func() bool { return v.CompareGreaterThan(*r) },
				func() bool { return v.CompareGreaterThanOrEqual(*r) },
				func() bool { return v.CompareLessThan(*r) },
				func() bool { return v.CompareLessThanOrEqual(*r) },
				func() bool { return v.IsInfMax() },
				func() bool { return v.IsInfMin() },
			}
			var sb strings.Builder
			for _, fn := range fs {
				x := guard(func() string { return c06Bool(fn()) })
				if x == "panic" {
					x = "P"
				}
				sb.WriteString(x)
			}
			fmt.Fprintln(out, sb.String())
		}
	}
}
