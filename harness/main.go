// Command verifharness drives the real SamehadaDB code for the correspondence
// checks of /verif. One sub-command per property family; each reads case lines
// from a file and prints one result line per case on stdout.
package main

import (
	"bufio"
	"fmt"
	"os"
)

var subcommands = map[string]func(args []string, in *bufio.Scanner, out *bufio.Writer){}

func main() {
	if len(os.Args) < 3 {
		fmt.Fprintln(os.Stderr, "usage: verifharness <sub> <casefile|-> [args...]")
		os.Exit(2)
	}
	f, ok := subcommands[os.Args[1]]
	if !ok {
		fmt.Fprintln(os.Stderr, "unknown subcommand", os.Args[1])
		os.Exit(2)
	}
	var in *os.File
	if os.Args[2] == "-" {
		in = os.Stdin
	} else {
		var err error
		in, err = os.Open(os.Args[2])
		if err != nil {
			fmt.Fprintln(os.Stderr, err)
			os.Exit(2)
		}
	}
	sc := bufio.NewScanner(in)
	sc.Buffer(make([]byte, 1<<20), 1<<26)
	// the engine prints diagnostics with fmt.Print*: keep them out of the result stream
	realOut := os.Stdout
	os.Stdout = os.Stderr
	out := bufio.NewWriterSize(realOut, 1<<20)
	defer out.Flush()
	f(os.Args[3:], sc, out)
}
