package main

// Sub-command "diskfile": drives the real disk.DiskManagerImpl (lib/storage/disk/disk_manager_impl.go) on files in a
// scratch directory, for the correspondence check of coq/Model/DiskFile.v (lib/diskcorr.py, ocaml/diskfile_driver.ml).
//
//   verifharness diskfile - <scratch dir>
//
// line protocol, one answer line per input line (flushed):
//   mk <name> <npages> <taillen> <seed>  (closed only) create <name>.db with npages pages rowBytes(4096, seed+i) and a
//                                        partial part rowBytes(taillen, seed+npages); remove <name>.log      -> ok
//   open <name>      NewDiskManagerImpl(<dir>/<name>.db) (creates the files when missing)                    -> ok
//   close            ShutDown()                                                                              -> ok
//   w <pageid> <seed> WritePage(pageid, rowBytes(4096, seed))                                                -> ok | err
//   r <pageid>       ReadPage into a buffer filled with 0xEE    -> bytes <digest> | err past | err read | err <text>
//   size             Size()                                                                                  -> <n>
//   alloc            AllocatePage()                                                                          -> <id>
//   wl <n> <seed>    WriteLog(rowBytes(n, seed))                                                             -> ok | err
//   rl <off> <len>   ReadLog(buf[len], off, &readBytes), readBytes initially 0
//                                            -> ok <digest of buf[:readBytes]> <readBytes> | eof <readBytes>
//   lsize            GetLogFileSize()                                                                        -> <n>
//   gc               GCLogFile()                                                                             -> ok | err
// commands on a closed manager -> bad;  any panic -> panic:<text>

import (
	"bufio"
	"fmt"
	"os"
	"path/filepath"
	"strconv"
	"strings"

	"github.com/ryogrid/SamehadaDB/lib/common"
	"github.com/ryogrid/SamehadaDB/lib/storage/disk"
	"github.com/ryogrid/SamehadaDB/lib/types"
)

func init() { subcommands["diskfile"] = runDiskFile }

func runDiskFile(args []string, in *bufio.Scanner, out *bufio.Writer) {
	dir := os.TempDir()
	if len(args) > 0 {
		dir = args[0]
	}
	os.MkdirAll(dir, 0777)
	var dm disk.DiskManager
	num := func(s string) int64 { v, _ := strconv.ParseInt(s, 10, 64); return v }
	answer := func(f []string) (ans string) {
		defer func() {
			if r := recover(); r != nil {
				ans = "panic:" + strings.ReplaceAll(fmt.Sprint(r), "\n", " ")
			}
		}()
		switch {
		case f[0] == "mk" && len(f) == 5:
			if dm != nil {
				return "bad"
			}
			np, tl, seed := num(f[2]), num(f[3]), num(f[4])
			var b []byte
			for i := int64(0); i < np; i++ {
				b = append(b, rowBytes(common.PageSize, seed+i)...)
			}
			b = append(b, rowBytes(tl, seed+np)...)
			if err := os.WriteFile(filepath.Join(dir, f[1]+".db"), b, 0666); err != nil {
				return "err " + err.Error()
			}
			os.Remove(filepath.Join(dir, f[1]+".log"))
			return "ok"
		case f[0] == "open" && len(f) == 2:
			if dm != nil {
				return "bad"
			}
			dm = disk.NewDiskManagerImpl(filepath.Join(dir, f[1]+".db"))
			return "ok"
		}
		if dm == nil {
			return "bad"
		}
		switch {
		case f[0] == "close":
			dm.ShutDown()
			dm = nil
			return "ok"
		case f[0] == "w" && len(f) == 3:
			if err := dm.WritePage(types.PageID(num(f[1])), rowBytes(common.PageSize, num(f[2]))); err != nil {
				return "err"
			}
			return "ok"
		case f[0] == "r" && len(f) == 2:
			buf := make([]byte, common.PageSize)
			for i := range buf {
				buf[i] = 0xEE
			}
			if err := dm.ReadPage(types.PageID(num(f[1])), buf); err != nil {
				switch err.Error() {
				case "I/O error past end of file":
					return "err past"
				case "I/O error while reading":
					return "err read"
				}
				return "err " + err.Error()
			}
			return "bytes " + digest(buf)
		case f[0] == "size":
			return strconv.FormatInt(dm.Size(), 10)
		case f[0] == "alloc":
			return strconv.FormatInt(int64(dm.AllocatePage()), 10)
		case f[0] == "wl" && len(f) == 3:
			if err := dm.WriteLog(rowBytes(num(f[1]), num(f[2]))); err != nil {
				return "err"
			}
			return "ok"
		case f[0] == "rl" && len(f) == 3:
			buf := make([]byte, num(f[2]))
			var n uint32
			if dm.ReadLog(buf, int32(num(f[1])), &n) {
				return fmt.Sprintf("ok %s %d", digest(buf[:n]), n)
			}
			return fmt.Sprintf("eof %d", n)
		case f[0] == "lsize":
			return strconv.FormatInt(dm.(*disk.DiskManagerImpl).GetLogFileSize(), 10)
		case f[0] == "gc":
			if err := dm.(*disk.DiskManagerImpl).GCLogFile(); err != nil {
				return "err"
			}
			return "ok"
		}
		return "bad"
	}
	for in.Scan() {
		f := strings.Fields(in.Text())
		if len(f) == 0 {
			continue
		}
		fmt.Fprintln(out, answer(f))
		out.Flush()
	}
	if dm != nil {
		dm.ShutDown()
	}
}
