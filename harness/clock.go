package main

// Sub-command "clock": drives the real buffer.ClockReplacer (lib/storage/buffer/clock_replacer.go over
// circular_list.go) for the correspondence check of coq/Model/Clock.v (lib/clockcorr.py, ocaml/clock_driver.ml).
//
// The type ClockReplacer, NewClockReplacer and the methods Victim / Pin / Unpin / Size are exported, so the
// replacer itself is driven (no BufferPoolManager around it).  Its fields (cList, clockHand) and the types
// circularList / node are NOT exported and verif_export.go exports nothing about them: the optional "D" (dump)
// command reads them through unsafe with mirror structs, after checking with reflect that the layout of the real
// structs is the expected one (otherwise it answers "nodump").
//
// line protocol, one answer line per input line (flushed):
//   # <poolsize>   new replacer                    -> new
//   V              Victim()                        -> <frame id> | none   (none: the panic "Victim: page which can be cache out is not exist!")
//   P <f>          Pin(f)                          -> ok
//   U <f>          Unpin(f)                        -> ok | full           (full: the panic "circularList::insert capacity is full")
//   S              Size()                          -> <n>
//   D              ring from head, hand, counters  -> <key>:<bit> ... | hand=<key> | size=<n> map=<n>
// any other panic -> panic:<text>

import (
	"bufio"
	"fmt"
	"reflect"
	"strings"
	"unsafe"

	"github.com/ryogrid/SamehadaDB/lib/storage/buffer"
)

func init() { subcommands["clock"] = runClock }

type clockMirrorNode struct {
	key   uint32
	value bool
	next  *clockMirrorNode
	prev  *clockMirrorNode
}

type clockMirrorList struct {
	head       *clockMirrorNode
	tail       *clockMirrorNode
	size       uint32
	capacity   uint32
	supportMap unsafe.Pointer
}

type clockMirrorReplacer struct {
	cList     *clockMirrorList
	clockHand **clockMirrorNode
	mutex     unsafe.Pointer
}

func clockSameFields(real, mirror reflect.Type, names []string) bool {
	if real.Kind() != reflect.Struct || real.NumField() != len(names) || mirror.NumField() != len(names) || real.Size() != mirror.Size() {
		return false
	}
	for i, n := range names {
		rf, mf := real.Field(i), mirror.Field(i)
		if rf.Name != n || rf.Offset != mf.Offset || rf.Type.Size() != mf.Type.Size() {
			return false
		}
		if rf.Type.Kind() != mf.Type.Kind() && !(mf.Type.Kind() == reflect.UnsafePointer && (rf.Type.Kind() == reflect.Map || rf.Type.Kind() == reflect.Ptr)) {
			return false
		}
	}
	return true
}

// clockLayoutOK: the real structs look like the mirrors (names, offsets, sizes, kinds)
func clockLayoutOK() bool {
	rt := reflect.TypeOf(buffer.ClockReplacer{})
	if !clockSameFields(rt, reflect.TypeOf(clockMirrorReplacer{}), []string{"cList", "clockHand", "mutex"}) {
		return false
	}
	lt := rt.Field(0).Type
	if lt.Kind() != reflect.Ptr {
		return false
	}
	lt = lt.Elem()
	if !clockSameFields(lt, reflect.TypeOf(clockMirrorList{}), []string{"head", "tail", "size", "capacity", "supportMap"}) {
		return false
	}
	nt := lt.Field(0).Type
	if nt.Kind() != reflect.Ptr {
		return false
	}
	nt = nt.Elem()
	if !clockSameFields(nt, reflect.TypeOf(clockMirrorNode{}), []string{"key", "value", "next", "prev"}) {
		return false
	}
	ht := rt.Field(1).Type // **node
	return ht.Kind() == reflect.Ptr && ht.Elem().Kind() == reflect.Ptr && ht.Elem().Elem() == nt
}

func clockDump(r *buffer.ClockReplacer, layoutOK bool) string {
	if !layoutOK {
		return "nodump"
	}
	m := (*clockMirrorReplacer)(unsafe.Pointer(r))
	l := m.cList
	// the real map, for its length
	mapLen := reflect.NewAt(reflect.TypeOf(buffer.ClockReplacer{}).Field(0).Type.Elem().Field(4).Type, unsafe.Pointer(&l.supportMap)).Elem().Len()
	var items []string
	inRing := map[*clockMirrorNode]bool{}
	ptr := l.head
	for i := uint32(0); i < l.size && ptr != nil; i++ {
		b := 0
		if ptr.value {
			b = 1
		}
		items = append(items, fmt.Sprintf("%d:%d", ptr.key, b))
		inRing[ptr] = true
		if i+1 == l.size {
			// ring shape: the last node is the tail and closes onto the head, prev links mirror next links
			if ptr != l.tail || ptr.next != l.head || l.head.prev != ptr {
				items = append(items, "BROKENRING")
			}
		} else if ptr.next == nil || ptr.next.prev != ptr {
			items = append(items, "BROKENLINK")
		}
		ptr = ptr.next
	}
	ring := "-"
	hand := "-"
	if l.size > 0 {
		ring = strings.Join(items, " ")
		if m.clockHand == nil || *m.clockHand == nil {
			hand = "nil"
		} else if !inRing[*m.clockHand] {
			hand = "stale"
		} else {
			hand = fmt.Sprint((*m.clockHand).key)
		}
	}
	return fmt.Sprintf("%s | hand=%s | size=%d map=%d", ring, hand, l.size, mapLen)
}

func runClock(args []string, in *bufio.Scanner, out *bufio.Writer) {
	var r *buffer.ClockReplacer
	layoutOK := clockLayoutOK()
	answer := func(s string) {
		fmt.Fprintln(out, s)
		out.Flush()
	}
	for in.Scan() {
		line := strings.TrimSpace(in.Text())
		if line == "" {
			continue
		}
		f := strings.Fields(line)
		if f[0] == "#" {
			if len(f) < 2 {
				answer("bad")
				continue
			}
			r = buffer.NewClockReplacer(uint32(atoi64(f[1])))
			answer("new")
			continue
		}
		if r == nil {
			answer("bad")
			continue
		}
		res := func() (res string) {
			defer func() {
				if e := recover(); e != nil {
					msg := fmt.Sprint(e)
					switch {
					case strings.HasPrefix(msg, "Victim: page which can be cache out is not exist"):
						res = "none"
					case strings.HasPrefix(msg, "circularList::insert capacity is full"):
						res = "full"
					default:
						res = "panic:" + strings.ReplaceAll(msg, "\n", " ")
					}
				}
			}()
			switch f[0] {
			case "V":
				v := r.Victim()
				if v == nil {
					return "none"
				}
				return fmt.Sprint(uint32(*v))
			case "P":
				r.Pin(buffer.FrameID(uint32(atoi64(f[1]))))
				return "ok"
			case "U":
				r.Unpin(buffer.FrameID(uint32(atoi64(f[1]))))
				return "ok"
			case "S":
				return fmt.Sprint(r.Size())
			case "D":
				return clockDump(r, layoutOK)
			}
			return "bad"
		}()
		answer(res)
	}
}
