package main

// c13c: several users on one small buffer pool (C13, "by any number of users").
//
// Every page carries a counter in its bytes.  A user fetches a page, takes its write latch, reads the counter, compares it
// with the shadow value (an array outside the pool, updated under the same latch), increments both, releases the latch and
// unpins the page dirty.  A fetch that returns bytes older than the last completed write shows as counter < shadow.
// The disk manager is wrapped: some reads take long (0.2 - 3 ms), which is what real disks do and what makes a window
// between "miss decided" and "bytes installed" observable.  At the end every page is fetched once more and compared.
//
// usage: verifharness c13c - <frames> <pages> <users> <ops-per-user> <seed> <timeout-s>
// prints "VIOLATION ..." lines (none expected) then "DONE ..."

import (
	"bufio"
	"encoding/binary"
	"fmt"
	"math/rand"
	"os"
	"sync"
	"sync/atomic"
	"time"

	"github.com/ryogrid/SamehadaDB/lib/recovery"
	"github.com/ryogrid/SamehadaDB/lib/storage/buffer"
	"github.com/ryogrid/SamehadaDB/lib/storage/disk"
	"github.com/ryogrid/SamehadaDB/lib/types"
)

func init() { subcommands["c13c"] = runC13c }

type slowDisk struct {
	disk.DiskManager
	seed  int64
	reads int64
	slow  int64
}

func (d *slowDisk) ReadPage(id types.PageID, data []byte) error {
	n := atomic.AddInt64(&d.reads, 1)
	// the bytes are taken first and delivered late: a read that was issued before a later write-back completes
	err := d.DiskManager.ReadPage(id, data)
	if (n*2654435761+d.seed)%7 == 0 {
		atomic.AddInt64(&d.slow, 1)
		time.Sleep(time.Duration(200+(n*7919+d.seed)%2800) * time.Microsecond)
	}
	return err
}

func runC13c(args []string, in *bufio.Scanner, out *bufio.Writer) {
	frames, npages, users, nops := int(atoi64(args[0])), int(atoi64(args[1])), int(atoi64(args[2])), int(atoi64(args[3]))
	seed, tmo := atoi64(args[4]), atoi64(args[5])
	var inner disk.DiskManager = disk.NewVirtualDiskManagerImpl("c13c.db")
	sd := &slowDisk{DiskManager: inner, seed: seed}
	var dman disk.DiskManager = sd
	logMgr := recovery.NewLogManager(&dman)
	logMgr.DeactivateLogging()
	bpm := buffer.NewBufferPoolManager(uint32(frames), dman, logMgr)
	ids := make([]types.PageID, npages)
	shadow := make([]uint64, npages)
	for i := 0; i < npages; i++ {
		pg := bpm.NewPage()
		if pg == nil {
			fmt.Fprintln(out, "VIOLATION set-up: NewPage returns nil with no page pinned")
			fmt.Fprintln(out, "DONE")
			out.Flush()
			os.Exit(0)
		}
		ids[i] = pg.GetPageID()
		binary.LittleEndian.PutUint64(pg.Data()[64:], 0)
		bpm.UnpinPage(ids[i], true)
	}
	var vmu sync.Mutex
	var viol []string
	report := func(f string, a ...interface{}) {
		vmu.Lock()
		if len(viol) < 8 {
			viol = append(viol, fmt.Sprintf(f, a...))
		}
		vmu.Unlock()
	}
	var done int64
	var nilFetch int64
	var wg sync.WaitGroup
	for u := 0; u < users; u++ {
		wg.Add(1)
		go func(u int) {
			defer wg.Done()
			defer func() {
				if e := recover(); e != nil {
					report("user %d: panic in a pool call: %v", u, e)
				}
			}()
			rng := rand.New(rand.NewSource(seed*1000 + int64(u)))
			for o := 0; o < nops; o++ {
				i := rng.Intn(npages)
				if rng.Intn(3) == 0 {
					i = rng.Intn(3) // a few hot pages: two users miss the same page at the same time
				}
				pg := bpm.FetchPage(ids[i])
				if pg == nil {
					atomic.AddInt64(&nilFetch, 1)
					time.Sleep(50 * time.Microsecond)
					continue
				}
				pg.WLatch()
				if pg.GetPageID() != ids[i] {
					report("FetchPage(%d) returned a frame that holds page %d", ids[i], pg.GetPageID())
				}
				got := binary.LittleEndian.Uint64(pg.Data()[64:])
				want := atomic.LoadUint64(&shadow[i])
				if got != want {
					report("user %d: FetchPage(%d) returned bytes with counter %d; the last completed write to that page stored %d (older bytes than the latest write)", u, ids[i], got, want)
					// resynchronise so that one stale install is reported once
					got = want
				}
				write := rng.Intn(4) != 0
				if write {
					binary.LittleEndian.PutUint64(pg.Data()[64:], got+1)
					atomic.StoreUint64(&shadow[i], got+1)
				}
				pg.WUnlatch()
				bpm.UnpinPage(ids[i], write)
				atomic.AddInt64(&done, 1)
			}
		}(u)
	}
	fin := make(chan struct{})
	go func() { wg.Wait(); close(fin) }()
	select {
	case <-fin:
		for i := 0; i < npages; i++ {
			pg := bpm.FetchPage(ids[i])
			if pg == nil {
				report("after all users finished FetchPage(%d) returns nil", ids[i])
				continue
			}
			if got := binary.LittleEndian.Uint64(pg.Data()[64:]); got != shadow[i] {
				report("after all users finished page %d holds counter %d, the last write stored %d", ids[i], got, shadow[i])
			}
			if pc := pg.PinCount(); pc != 1 {
				report("after all users finished page %d has pin count %d with one user", ids[i], pc)
			}
			bpm.UnpinPage(ids[i], false)
		}
	case <-time.After(time.Duration(tmo) * time.Second):
		report("a pool call blocks forever (watchdog)")
	}
	for _, v := range viol {
		fmt.Fprintln(out, "VIOLATION "+v)
	}
	fmt.Fprintf(out, "DONE frames=%d pages=%d users=%d ops=%d nil_fetches=%d disk_reads=%d slow_reads=%d\n", frames, npages, users, done, nilFetch, sd.reads, sd.slow)
	out.Flush()
	os.Exit(0)
}
