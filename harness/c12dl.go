package main

// c12dl: the schedule of Model/ReqMgr.v's deadlock_schedule on the real request manager.  The only intervention is
// the H4 gate, which holds ONE caller between AppendRequest's unlock and its token send (a legal scheduling delay).
// usage: verifharness c12dl - <dir> <other-callers> <timeout-s>
// prints "SETUP <bool>", "RETURNED <n> <total>", "QTRACE <events>", "DONE"

import (
	"bufio"
	"fmt"
	"os"
	"strings"
	"sync"
	"sync/atomic"
	"time"

	"github.com/ryogrid/SamehadaDB/lib/common"
	"github.com/ryogrid/SamehadaDB/lib/samehada"
)

func init() { subcommands["c12dl"] = runC12dl }

func runC12dl(args []string, in *bufio.Scanner, out *bufio.Writer) {
	dir := args[0]
	others, tmo := int(atoi64(args[1])), atoi64(args[2])
	common.TempSuppressOnMemStorage = true
	db := samehada.NewSamehadaDB(dir+"/db", 4000)
	db.ExecuteSQL("CREATE TABLE acct(k int, g int, v int);")
	db.ExecuteSQL("INSERT INTO acct(k,g,v) VALUES (1, 1, 0);")
	target := uint64(2) // the two set-up calls were requests 0 and 1
	release := make(chan struct{})
	samehada.VerifReqGate = func(kind byte, id uint64) {
		if kind == 'T' && id == target {
			<-release
		}
	}
	var trace []string
	var tmu sync.Mutex
	count := func(prefix string, exact bool) int {
		tmu.Lock()
		defer tmu.Unlock()
		trace = append(trace, samehada.VerifReqTraceTake()...)
		n := 0
		for _, e := range trace {
			if (exact && e == prefix) || (!exact && strings.HasPrefix(e, prefix)) {
				n++
			}
		}
		return n
	}
	var returned int64
	total := 2 + others
	call := func() {
		db.ExecuteSQL("SELECT v FROM acct WHERE k = 1;")
		atomic.AddInt64(&returned, 1)
	}
	waitFor := func(ms int, cond func() bool) bool {
		for i := 0; i < ms; i++ {
			if cond() {
				return true
			}
			time.Sleep(time.Millisecond)
		}
		return false
	}
	go call() // the held caller: request 2
	ok := waitFor(5000, func() bool { return count("E 2", true) > 0 })
	go call() // request 3: its token makes the loop dispatch request 2
	// the loop now stands at the reply channel of the held caller
	ok = ok && waitFor(5000, func() bool { return count("L 2 ok", true) > 0 })
	for i := 0; i < others; i++ {
		go call()
	}
	// wait until the token sends stop making progress
	last, stable := -1, 0
	waitFor(5000, func() bool {
		n := count("T ", false)
		if n == last {
			stable++
		} else {
			last, stable = n, 0
		}
		return stable > 200
	})
	close(release)
	waitFor(int(tmo)*1000, func() bool { return atomic.LoadInt64(&returned) == int64(total) })
	count("", false)
	fmt.Fprintf(out, "SETUP %v\n", ok)
	fmt.Fprintf(out, "RETURNED %d %d\n", atomic.LoadInt64(&returned), total)
	fmt.Fprintln(out, "QTRACE "+strings.Join(trace, ";"))
	fmt.Fprintln(out, "DONE")
	out.Flush()
	os.Exit(0)
}
