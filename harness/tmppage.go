package main

// Sub-command tmppage: drives the hash join's temporary tuple page
// (lib/materialization/tmp_tuple_page.go) on a raw page.Page, without a database.
// Model side: ocaml/tmppage_driver.ml over coq/Model/TmpPage.v; compared by lib/tmppagecorr.py.
//
// One command per input line, one answer line per command:
//   init <pageid>            fresh zeroed frame, TmpTuplePage.Init(pageid, PageSize)         -> ok
//   ins <size> <seed>        Insert of a tuple whose Data() is rowBytes(size, seed)          -> ok <offset> <pageid> | full | panic
//   ins <size> x<hex>        ... whose Data() is the given bytes (x- for none)
//   get <offset>             Get(offset): hex of Data()[:Size()] ("-" if empty)              -> <hex> | panic
//   free                     GetFreeSpacePointer()                                           -> <n>
//   setfree <n>              SetFreeSpacePointer(n)                                          -> ok
//   dump                     hex of the 4096 bytes of the page

import (
	"bufio"
	"encoding/hex"
	"fmt"
	"strings"

	"github.com/ryogrid/SamehadaDB/lib/common"
	"github.com/ryogrid/SamehadaDB/lib/materialization"
	"github.com/ryogrid/SamehadaDB/lib/storage/page"
	"github.com/ryogrid/SamehadaDB/lib/storage/tuple"
	"github.com/ryogrid/SamehadaDB/lib/types"
)

func init() { subcommands["tmppage"] = runTmpPage }

func tmpHex(b []byte) string {
	if len(b) == 0 {
		return "-"
	}
	return hex.EncodeToString(b)
}

func runTmpPage(args []string, in *bufio.Scanner, out *bufio.Writer) {
	newPage := func(id int64) *materialization.TmpTuplePage {
		buf := new([common.PageSize]byte)
		pg := page.NewEmpty(types.PageID(int32(id)), buf)
		tp := materialization.CastPageAsTmpTuplePage(pg)
		tp.Init(types.PageID(int32(id)), common.PageSize)
		return tp
	}
	tp := newPage(0)
	for in.Scan() {
		f := strings.Fields(in.Text())
		if len(f) == 0 {
			continue
		}
		ans := guard(func() string {
			switch f[0] {
			case "init":
				tp = newPage(atoi64(f[1]))
				return "ok"
			case "ins":
				size := atoi64(f[1])
				var b []byte
				if strings.HasPrefix(f[2], "x") {
					if f[2] != "x-" {
						var err error
						b, err = hex.DecodeString(f[2][1:])
						if err != nil {
							return "badhex"
						}
					}
				} else {
					b = rowBytes(size, atoi64(f[2]))
				}
				if int64(len(b)) != size {
					return "badsize"
				}
				t := tuple.NewTuple(nil, uint32(len(b)), b)
				if int64(t.Size()) != size || int64(len(t.Data())) != size {
					return "badtuple"
				}
				var tt materialization.TmpTuple
				if !tp.Insert(t, &tt) {
					return "full"
				}
				return fmt.Sprintf("ok %d %d", tt.GetOffset(), int32(tt.GetPageID()))
			case "get":
				t := new(tuple.Tuple)
				tp.Get(t, uint32(atoi64(f[1])))
				return tmpHex(t.Data()[:t.Size()])
			case "free":
				return fmt.Sprintf("%d", tp.GetFreeSpacePointer())
			case "setfree":
				tp.SetFreeSpacePointer(uint32(atoi64(f[1])))
				return "ok"
			case "dump":
				return hex.EncodeToString(tp.GetData()[:])
			}
			return "badcmd"
		})
		fmt.Fprintln(out, ans)
		out.Flush()
	}
}
