package main

// Row (tuple) codec: the real tuple.NewTupleFromSchema / Tuple.GetValue / Tuple.GetValueInBytes /
// Value.Serialize / NewValueFromBytes / schema.NewSchema on given inputs; no database is needed.
// Model side: coq/Model/TupleCodec.v through ocaml/tuple_driver.ml (same lines in, same lines out).
//
//   E <schema> <v1> <v2> ...     build the tuple from the values, print its bytes and Size(), then read every
//                                column back (GetValue, GetValueInBytes)
//   D <schema> <hex>             read every column of the given tuple bytes (tuple.NewTuple(nil, len, bytes))
//
// <schema>: one letter per column, i Integer, f Float, b Boolean, s Varchar ("-" = no column).
// values:   i:<int32>  f:<float32 bits, decimal>  b:0|1  s:<hex or ->  the NULLs ni nf nb ns (a value of that
//           type, SetNull())  N (types.NewNull(): what the engine itself uses, an Integer-typed NULL)  n (NULL
//           of the type of the column at that position).  The type of a value need NOT be the column's type:
//           the Go code does not check, and the model follows the code.
// answers:  E: "data=<hex> size=<n> cols=<t>,<t>,.. gvb=<hex>,<hex>,.."      D: "cols=.. gvb=.."
//           <t> is the token of the value read back (NULLs as ni/nf/nb/ns by the type of the value object;
//           "!<payload>" is appended if a NULL carries a non-default payload) or "panic"; "panic" alone when
//           NewTupleFromSchema panics.

import (
	"bufio"
	"fmt"
	"math"
	"strings"

	"github.com/ryogrid/SamehadaDB/lib/storage/index/index_constants"
	"github.com/ryogrid/SamehadaDB/lib/storage/table/column"
	"github.com/ryogrid/SamehadaDB/lib/storage/table/schema"
	"github.com/ryogrid/SamehadaDB/lib/storage/tuple"
	"github.com/ryogrid/SamehadaDB/lib/types"
)

func init() { subcommands["tuplecodec"] = runTupleCodec }

func tcType(c byte) types.TypeID {
	switch c {
	case 'i':
		return types.Integer
	case 'f':
		return types.Float
	case 'b':
		return types.Boolean
	case 's':
		return types.Varchar
	}
	panic("bad column type letter")
}

func tcSchema(s string) (*schema.Schema, []types.TypeID) {
	var cols []*column.Column
	var tys []types.TypeID
	if s != "-" {
		for i := 0; i < len(s); i++ {
			ty := tcType(s[i])
			tys = append(tys, ty)
			cols = append(cols, column.NewColumn(fmt.Sprintf("c%d", i), ty, false, index_constants.IndexKindInvalid, types.PageID(-1), nil))
		}
	}
	return schema.NewSchema(cols), tys
}

func tcNull(ty types.TypeID) types.Value {
	var v types.Value
	switch ty {
	case types.Integer:
		v = types.NewInteger(12345)
	case types.Float:
		v = types.NewFloat(1.5)
	case types.Boolean:
		v = types.NewBoolean(true)
	default:
		v = types.NewVarchar("not null yet")
	}
	return *v.SetNull()
}

func tcParseVal(s string, pos int, tys []types.TypeID) types.Value {
	switch s {
	case "N":
		return types.NewNull()
	case "n":
		if pos < len(tys) {
			return tcNull(tys[pos])
		}
		return types.NewNull()
	case "ni":
		return tcNull(types.Integer)
	case "nf":
		return tcNull(types.Float)
	case "nb":
		return tcNull(types.Boolean)
	case "ns":
		return tcNull(types.Varchar)
	}
	switch s[0] {
	case 'i':
		return types.NewInteger(int32(atoi64(s[2:])))
	case 'f':
		return types.NewFloat(math.Float32frombits(uint32(atoi64(s[2:]))))
	case 'b':
		return types.NewBoolean(s[2:] != "0")
	case 's':
		return types.NewVarchar(string(mustHex(s[2:])))
	}
	panic("bad value token")
}

func tcFmtVal(v *types.Value) string {
	if v.IsNull() {
		switch v.ValueType() {
		case types.Integer:
			if v.ToInteger() != 0 {
				return fmt.Sprintf("ni!%d", v.ToInteger())
			}
			return "ni"
		case types.Float:
			if math.Float32bits(v.ToFloat()) != 0 {
				return fmt.Sprintf("nf!%d", math.Float32bits(v.ToFloat()))
			}
			return "nf"
		case types.Boolean:
			if v.ToBoolean() {
				return "nb!1"
			}
			return "nb"
		case types.Varchar:
			if v.ToVarchar() != "" {
				return "ns!" + hx([]byte(v.ToVarchar()))
			}
			return "ns"
		}
		return "n?"
	}
	return fmtVal(v)
}

func tcReadBack(t *tuple.Tuple, sc *schema.Schema) string {
	n := int(sc.GetColumnCount())
	cols := make([]string, 0, n)
	gvb := make([]string, 0, n)
	for i := 0; i < n; i++ {
		idx := uint32(i)
		cols = append(cols, guard(func() string {
			v := t.GetValue(sc, idx)
			return tcFmtVal(&v)
		}))
		gvb = append(gvb, guard(func() string { return hx(t.GetValueInBytes(sc, idx)) }))
	}
	if n == 0 {
		return "cols=- gvb=-"
	}
	return "cols=" + strings.Join(cols, ",") + " gvb=" + strings.Join(gvb, ",")
}

func tcCase(line string) string {
	f := strings.Fields(line)
	if len(f) < 2 {
		return "badcase"
	}
	switch f[0] {
	case "E":
		sc, tys := tcSchema(f[1])
		vals := make([]types.Value, 0, len(f)-2)
		for i, tok := range f[2:] {
			vals = append(vals, tcParseVal(tok, i, tys))
		}
		var t *tuple.Tuple
		if guard(func() string { t = tuple.NewTupleFromSchema(vals, sc); return "" }) == "panic" {
			return "panic"
		}
		return fmt.Sprintf("data=%s size=%d %s", hx(t.Data()), t.Size(), tcReadBack(t, sc))
	case "D":
		if len(f) < 3 {
			return "badcase"
		}
		sc, _ := tcSchema(f[1])
		raw := mustHex(f[2])
		data := make([]byte, len(raw)) // len == cap, as for the tuples the engine builds
		copy(data, raw)
		t := tuple.NewTuple(nil, uint32(len(data)), data[:len(data):len(data)])
		return tcReadBack(t, sc)
	}
	return "badcase"
}

func runTupleCodec(args []string, in *bufio.Scanner, out *bufio.Writer) {
	for in.Scan() {
		line := in.Text()
		if strings.TrimSpace(line) == "" || line[0] == '#' {
			continue
		}
		// panics of the code under test are caught inside tcCase; what arrives here is a malformed line
		res := func() (r string) {
			defer func() {
				if recover() != nil {
					r = "badcase"
				}
			}()
			return tcCase(line)
		}()
		fmt.Fprintln(out, res)
		out.Flush()
	}
}
