package main

// c19x: explicit transactions that change rows and are ABORTED on purpose (rollback of deletes, of in-place and of
// relocating updates, of inserts) while other goroutines scan and update the same pages; for the race detector (C19).
// usage: verifharness c19x - <dir> <writers> <scanners> <rounds> <seed>
// prints "DONE" at the end.

import (
	"bufio"
	"fmt"
	"math/rand"
	"os"
	"strings"
	"sync"

	"github.com/ryogrid/SamehadaDB/lib/common"
	"github.com/ryogrid/SamehadaDB/lib/samehada"
	"github.com/ryogrid/SamehadaDB/lib/storage/access"
)

func init() { subcommands["c19x"] = runC19x }

func runC19x(args []string, in *bufio.Scanner, out *bufio.Writer) {
	dir := args[0]
	nw, ns, rounds, seed := int(atoi64(args[1])), int(atoi64(args[2])), int(atoi64(args[3])), atoi64(args[4])
	common.TempSuppressOnMemStorage = true
	db := samehada.NewSamehadaDB(dir+"/db", 4000)
	s := &dbSession{db: db, txns: map[string]*access.Transaction{}}
	db.ExecuteSQL("CREATE TABLE rb(k int, g int, v varchar(255));")
	for i := 0; i < 60; i++ {
		db.ExecuteSQL(fmt.Sprintf("INSERT INTO rb(k,g,v) VALUES (%d, %d, '%s');", i, i%nw, strings.Repeat("r", 20+i%40)))
	}
	shi := db.GetSamehadaInstance()
	cat := db.GetCatalogForTesting()
	var wg sync.WaitGroup
	for w := 0; w < nw; w++ {
		wg.Add(1)
		go func(w int) {
			defer wg.Done()
			rng := rand.New(rand.NewSource(seed*100 + int64(w)))
			for r := 0; r < rounds; r++ {
				txn := shi.GetTransactionManager().Begin(nil)
				// each writer works on its own rows (g = w): no lock conflicts between writers, the aborts are deliberate
				for j := 0; j < 1+rng.Intn(3) && txn.GetState() != access.ABORTED; j++ {
					switch rng.Intn(4) {
					case 0:
						s.runStmt(txn, fmt.Sprintf("DELETE FROM rb WHERE g = %d AND k >= %d;", w, rng.Intn(60)))
					case 1:
						s.runStmt(txn, fmt.Sprintf("UPDATE rb SET v = '%s' WHERE g = %d AND k <= %d;", strings.Repeat("u", 5+rng.Intn(200)), w, rng.Intn(60)))
					case 2:
						s.runStmt(txn, fmt.Sprintf("UPDATE rb SET k = %d WHERE g = %d AND k = %d;", 1000+rng.Intn(50), w, w+nw*rng.Intn(60/nw)))
					default:
						s.runStmt(txn, fmt.Sprintf("INSERT INTO rb(k,g,v) VALUES (%d, %d, 'new');", 5000+w*1000+r, w))
					}
				}
				if rng.Intn(5) == 0 && txn.GetState() != access.ABORTED {
					shi.GetTransactionManager().Commit(cat, txn)
				} else {
					shi.GetTransactionManager().Abort(cat, txn)
				}
			}
		}(w)
	}
	for sc := 0; sc < ns; sc++ {
		wg.Add(1)
		go func(sc int) {
			defer wg.Done()
			rng := rand.New(rand.NewSource(seed*100 + 50 + int64(sc)))
			for r := 0; r < rounds*2; r++ {
				txn := shi.GetTransactionManager().Begin(nil)
				if rng.Intn(2) == 0 {
					s.runStmt(txn, "SELECT k, v FROM rb WHERE k >= 0 OR k >= 0;") // sequential scan
				} else {
					s.runStmt(txn, fmt.Sprintf("SELECT k, v FROM rb WHERE k >= %d AND k <= %d;", rng.Intn(30), 30+rng.Intn(30))) // index range scan
				}
				if txn.GetState() == access.ABORTED {
					shi.GetTransactionManager().Abort(cat, txn)
				} else {
					shi.GetTransactionManager().Commit(cat, txn)
				}
			}
		}(sc)
	}
	wg.Wait()
	fmt.Fprintln(out, "DONE")
	out.Flush()
	os.Exit(0)
}
