package main

// Interactive session driver over a whole SamehadaDB instance (file backed).
// One command per input line, one flushed answer line per command.
//
//   open <dir/name> <memKB>      start (or restart, running recovery) the database
//   close                        clean Shutdown()
//   crash                        crash-style stop (files closed, nothing flushed)
//   sql <text>                   one auto-commit statement on this goroutine (ExecuteSQLRetValues)
//   begin <t> / tsql <t> <text> / commit <t> / abort <t>     explicit transactions
//   checkpoint                   forced checkpoint
//   pins                         "page:pincount" of every frame with a non-zero pin count
//   scan <table>                 every stored row with its rid (recovery-phase iterator, no locks)
//   idx <table> <col>            entries of the index on that column (full range scan): "key@page.slot"
//   rawinsert <table> <v>...     insert through the plan-level API (values: i:<n> f:<bits> s:<hex> n)
//   trace <file>                 write the I/O trace recorded so far (hook H1) to <file> and clear it
//   mark <note>                  add a marker to the I/O trace
//
// Values are printed as i:<n>  f:<float32 bits>  s:<hex>  n (NULL); rows joined by ';'.

import (
	"bufio"
	"encoding/binary"
	"encoding/hex"
	"fmt"
	"github.com/ryogrid/SamehadaDB/lib/container/hash"
	"github.com/ryogrid/SamehadaDB/lib/storage/buffer"
	"github.com/spaolacci/murmur3"
	"math"
	"os"
	"runtime/debug"
	"sort"
	"strings"

	"github.com/ryogrid/SamehadaDB/lib/catalog"
	"github.com/ryogrid/SamehadaDB/lib/common"
	"github.com/ryogrid/SamehadaDB/lib/execution/executors"
	"github.com/ryogrid/SamehadaDB/lib/execution/plans"
	"github.com/ryogrid/SamehadaDB/lib/parser"
	"github.com/ryogrid/SamehadaDB/lib/planner"
	"github.com/ryogrid/SamehadaDB/lib/planner/optimizer"
	"github.com/ryogrid/SamehadaDB/lib/samehada"
	"github.com/ryogrid/SamehadaDB/lib/samehada/samehada_util"
	"github.com/ryogrid/SamehadaDB/lib/storage/access"
	"github.com/ryogrid/SamehadaDB/lib/storage/disk"
	"github.com/ryogrid/SamehadaDB/lib/storage/index"
	"github.com/ryogrid/SamehadaDB/lib/storage/index/index_constants"
	"github.com/ryogrid/SamehadaDB/lib/storage/page"
	"github.com/ryogrid/SamehadaDB/lib/storage/table/column"
	"github.com/ryogrid/SamehadaDB/lib/storage/table/schema"
	"github.com/ryogrid/SamehadaDB/lib/storage/tuple"
	"github.com/ryogrid/SamehadaDB/lib/types"
)

func init() { subcommands["db"] = runDB }

func fmtVal(v *types.Value) string {
	if v.IsNull() {
		return "n"
	}
	switch v.ValueType() {
	case types.Integer:
		return fmt.Sprintf("i:%d", v.ToInteger())
	case types.Float:
		return fmt.Sprintf("f:%d", math.Float32bits(v.ToFloat()))
	case types.Varchar:
		s := v.ToVarchar()
		if s == "" {
			return "s:-"
		}
		return "s:" + hex.EncodeToString([]byte(s))
	case types.Boolean:
		if v.ToBoolean() {
			return "b:1"
		}
		return "b:0"
	}
	return "?"
}

func fmtRows(rows [][]*types.Value) string {
	var out []string
	for _, r := range rows {
		var vs []string
		for _, v := range r {
			vs = append(vs, fmtVal(v))
		}
		out = append(out, strings.Join(vs, ","))
	}
	return strings.Join(out, ";")
}

func parseVal(s string, colType types.TypeID) types.Value {
	if s == "n" {
		var v types.Value
		switch colType {
		case types.Integer:
			v = types.NewInteger(0)
		case types.Float:
			v = types.NewFloat(0)
		default:
			v = types.NewVarchar("")
		}
		return *v.SetNull()
	}
	switch s[0] {
	case 'i':
		return types.NewInteger(int32(atoi64(s[2:])))
	case 'f':
		return types.NewFloat(math.Float32frombits(uint32(atoi64(s[2:]))))
	default:
		return types.NewVarchar(string(mustHex(s[2:])))
	}
}

type dbSession struct {
	db   *samehada.SamehadaDB
	txns map[string]*access.Transaction
}

func (s *dbSession) runStmt(txn *access.Transaction, sql string) string {
	qi, err := parser.ProcessSQLStr(&sql)
	if err != nil {
		return "err:parse"
	}
	cat := s.db.GetCatalogForTesting()
	qi, err = optimizer.RewriteQueryInfo(cat, qi)
	if err != nil {
		return "err:rewrite"
	}
	shi := s.db.GetSamehadaInstance()
	err, plan := planner.NewSimplePlanner(cat, shi.GetBufferPoolManager()).MakePlan(qi, txn)
	if err != nil {
		return "err:plan"
	}
	if plan == nil {
		return "ok:"
	}
	ctx := executors.NewExecutorContext(cat, shi.GetBufferPoolManager(), txn)
	eng := &executors.ExecutionEngine{}
	result := eng.Execute(plan, ctx)
	if txn.GetState() == access.ABORTED {
		return "aborted"
	}
	out := plan.OutputSchema()
	if out == nil {
		return "ok:"
	}
	return "ok:" + fmtRows(samehada_util.ConvTupleListToValues(out, result))
}

func (s *dbSession) table(name string) *catalog.TableMetadata {
	return s.db.GetCatalogForTesting().GetTableByName(name)
}

func ridsort(a []string) { sort.Strings(a) }

var planNames = map[plans.PlanType]string{plans.SeqScan: "SeqScan", plans.Insert: "Insert", plans.Delete: "Delete", plans.Limit: "Limit",
	plans.IndexPointScan: "IndexPointScan", plans.IndexRangeScan: "IndexRangeScan", plans.NestedLoopJoin: "NestedLoopJoin",
	plans.HashJoin: "HashJoin", plans.IndexJoin: "IndexJoin", plans.Aggregation: "Aggregation", plans.Orderby: "Orderby",
	plans.Projection: "Projection", plans.Selection: "Selection"}

func planShape(p plans.Plan) string {
	if p == nil {
		return "nil"
	}
	n, ok := planNames[p.GetType()]
	if !ok {
		n = fmt.Sprintf("Plan%d", int(p.GetType()))
	}
	var cs []string
	for _, c := range p.GetChildren() {
		cs = append(cs, planShape(c))
	}
	if len(cs) == 0 {
		return n
	}
	return n + "(" + strings.Join(cs, ",") + ")"
}

func runDB(args []string, in *bufio.Scanner, out *bufio.Writer) {
	common.TempSuppressOnMemStorage = true
	disk.VerifRecord = true
	s := &dbSession{txns: map[string]*access.Transaction{}}
	for in.Scan() {
		line := in.Text()
		f := strings.SplitN(strings.TrimSpace(line), " ", 2)
		if len(f) == 0 || f[0] == "" {
			continue
		}
		rest := ""
		if len(f) > 1 {
			rest = f[1]
		}
		res := func() (r string) {
			defer func() {
				if e := recover(); e != nil {
					if os.Getenv("VERIF_STACK") != "" {
						fmt.Fprintf(os.Stderr, "PANIC %v\n%s\n", e, debug.Stack())
					}
					msg := fmt.Sprint(e)
					if len(msg) > 120 {
						msg = msg[:120]
					}
					r = "panic:" + strings.ReplaceAll(msg, "\n", " ")
				}
			}()
			switch f[0] {
			case "open":
				a := strings.Fields(rest)
				// hook H5: monitor the pool users' contract in this (single-goroutine) session
				buffer.VerifContractOn = os.Getenv("VERIF_NO_CONTRACT") == ""
				s.db = samehada.NewSamehadaDB(a[0], int(atoi64(a[1])))
				if os.Getenv("VERIF_KEEP_BG") == "" {
					// hook H2: no wall-clock driven checkpoints / statistics updates in a scripted session
					s.db.VerifStopBackground()
				}
				s.txns = map[string]*access.Transaction{}
				return "ok"
			case "hashcoll":
				// two different integers whose join-hash (container/hash.HashValue, murmur3 truncated to 32 bits) is the same
				seen := map[uint32]int32{}
				for i := int32(0); i < 5000000; i++ {
					v := types.NewInteger(i)
					h := hash.HashValue(&v)
					if j, ok := seen[h]; ok {
						return fmt.Sprintf("ok:%d,%d", j, i)
					}
					seen[h] = i
				}
				return "err:none"
			case "contract":
				// breaches of the pool users' contract recorded since the last call (hook H5)
				return "ok:" + strings.Join(buffer.VerifContractBreachesTake(), "|")
			case "close":
				s.db.Shutdown()
				s.db = nil
				return "ok"
			case "crash":
				s.db.ShutdownForTescase()
				s.db = nil
				return "ok"
			case "sql":
				err, rows := s.db.ExecuteSQLRetValues(rest)
				if err != nil {
					if err == samehada.QueryAbortedErr {
						return "aborted"
					}
					return "err:" + strings.ReplaceAll(err.Error(), "\n", " ")
				}
				return "ok:" + fmtRows(rows)
			case "begin":
				s.txns[rest] = s.db.GetSamehadaInstance().GetTransactionManager().Begin(nil)
				return fmt.Sprintf("ok:%d", s.txns[rest].GetTransactionID())
			case "tsql":
				a := strings.SplitN(rest, " ", 2)
				return s.runStmt(s.txns[a[0]], a[1])
			case "commit":
				// markers for the write-ahead check (C08): "CR <txn id>" right after the commit of a WRITING transaction returned
				id, nw := s.txns[rest].GetTransactionID(), len(s.txns[rest].GetWriteSet())
				s.db.GetSamehadaInstance().GetTransactionManager().Commit(s.db.GetCatalogForTesting(), s.txns[rest])
				if nw > 0 {
					disk.VerifMark(fmt.Sprintf("CR %d", id))
				}
				delete(s.txns, rest)
				return fmt.Sprintf("ok:%d:%d", id, nw)
			case "abort":
				s.db.GetSamehadaInstance().GetTransactionManager().Abort(s.db.GetCatalogForTesting(), s.txns[rest])
				delete(s.txns, rest)
				return "ok"
			case "checkpoint":
				s.db.ForceCheckpointingForTestcase()
				return "ok"
			case "pins":
				var ps []string
				for _, pg := range s.db.GetSamehadaInstance().GetBufferPoolManager().GetPages() {
					if pg != nil && pg.PinCount() != 0 {
						ps = append(ps, fmt.Sprintf("%d:%d", pg.GetPageID(), pg.PinCount()))
					}
				}
				sort.Strings(ps)
				return "ok:" + strings.Join(ps, ",")
			case "scan":
				tm := s.table(rest)
				if tm == nil {
					return "err:notable"
				}
				txn := access.NewTransaction(types.TxnID(1 << 30))
				txn.SetIsRecoveryPhase(true)
				var rows []string
				sc := tm.Schema()
				it := tm.Table().Iterator(txn)
				for t := it.Current(); !it.End(); t = it.Next() {
					var vs []string
					for c := uint32(0); c < sc.GetColumnCount(); c++ {
						v := t.GetValue(sc, c)
						vs = append(vs, fmtVal(&v))
					}
					rows = append(rows, fmt.Sprintf("%d.%d=%s", t.GetRID().GetPageID(), t.GetRID().GetSlotNum(), strings.Join(vs, ",")))
				}
				return "ok:" + strings.Join(rows, ";")
			case "idx":
				a := strings.Fields(rest)
				tm := s.table(a[0])
				if tm == nil {
					return "err:notable"
				}
				col := int(atoi64(a[1]))
				ix := tm.GetIndex(col)
				if ix == nil {
					return "ok:noindex"
				}
				itr := ix.GetRangeScanIterator(nil, nil, nil)
				var es []string
				colType := tm.Schema().GetColumn(uint32(col)).GetType()
				for done, _, key, rid := itr.Next(); !done; done, _, key, rid = itr.Next() {
					if _, isSL := ix.(*index.SkipListIndex); isSL {
						key = samehada_util.ExtractOrgKeyFromDicOrderComparableEncodedVarchar(key, colType)
					}
					es = append(es, fmt.Sprintf("%s@%d.%d", fmtVal(key), rid.GetPageID(), rid.GetSlotNum()))
				}
				return "ok:" + strings.Join(es, ";")
			case "rawinsert":
				a := strings.Fields(rest)
				tm := s.table(a[0])
				if tm == nil {
					return "err:notable"
				}
				sc := tm.Schema()
				var vals []types.Value
				for i, v := range a[1:] {
					vals = append(vals, parseVal(v, sc.GetColumn(uint32(i)).GetType()))
				}
				shi := s.db.GetSamehadaInstance()
				txn := shi.GetTransactionManager().Begin(nil)
				plan := plans.NewInsertPlanNode([][]types.Value{vals}, tm.OID())
				ctx := executors.NewExecutorContext(s.db.GetCatalogForTesting(), shi.GetBufferPoolManager(), txn)
				(&executors.ExecutionEngine{}).Execute(plan, ctx)
				if txn.GetState() == access.ABORTED {
					shi.GetTransactionManager().Abort(s.db.GetCatalogForTesting(), txn)
					return "aborted"
				}
				shi.GetTransactionManager().Commit(s.db.GetCatalogForTesting(), txn)
				return "ok:"
			case "mktable":
				// mktable <name> <col:type:kind,...>   type i|f|s   kind n(one)|s(kiplist)|u(niq skiplist)|b(tree)|h(ash)
				a := strings.Fields(rest)
				var cols []*column.Column
				for _, cs := range strings.Split(a[1], ",") {
					p := strings.Split(cs, ":")
					ty := map[string]types.TypeID{"i": types.Integer, "f": types.Float, "s": types.Varchar}[p[1]]
					kind := map[string]index_constants.IndexKind{"n": index_constants.IndexKindInvalid, "s": index_constants.IndexKindSkipList,
						"u": index_constants.IndexKindUniqSkipList, "b": index_constants.IndexKindBtree, "h": index_constants.IndexKindHash}[p[2]]
					cols = append(cols, column.NewColumn(p[0], ty, kind != index_constants.IndexKindInvalid, kind, types.PageID(-1), nil))
				}
				shi := s.db.GetSamehadaInstance()
				txn := shi.GetTransactionManager().Begin(nil)
				s.db.GetCatalogForTesting().CreateTable(a[0], schema.NewSchema(cols), txn)
				shi.GetTransactionManager().Commit(s.db.GetCatalogForTesting(), txn)
				return "ok:"
			case "ixins", "ixdel", "ixscan", "ixupd", "ixrange", "hthash":
				// direct operations on the index object of <table>.<col> (C17): values as i:/f:/s: tokens
				a := strings.Fields(rest)
				tm := s.table(a[0])
				if tm == nil {
					return "err:notable"
				}
				col := uint32(atoi64(a[1]))
				ix := tm.GetIndex(int(col))
				if ix == nil {
					return "err:noindex"
				}
				sc := tm.Schema()
				mk := func(tok string) *tuple.Tuple {
					vals := make([]types.Value, sc.GetColumnCount())
					for i := uint32(0); i < sc.GetColumnCount(); i++ {
						switch sc.GetColumn(i).GetType() {
						case types.Integer:
							vals[i] = types.NewInteger(0)
						case types.Float:
							vals[i] = types.NewFloat(0)
						default:
							vals[i] = types.NewVarchar("")
						}
					}
					vals[col] = parseVal(tok, sc.GetColumn(col).GetType())
					return tuple.NewTupleFromSchema(vals, sc)
				}
				rid := func(p, sl string) page.RID {
					return page.RID{PageID: types.PageID(int32(atoi64(p))), SlotNum: uint32(atoi64(sl))}
				}
				colType := sc.GetColumn(col).GetType()
				if f[0] == "hthash" {
					// the 64-bit hash under which the linear-probe hash table files this key (murmur3 x64_128 of the
					// key bytes, first eight bytes little endian): an input of the hash-table model
					h := murmur3.New128()
					kb := mk(a[2]).GetValueInBytes(sc, col)
					if colType == types.Float {
						// the index files -0.0 under the bytes of +0.0 (LinearProbeHashTableIndex.keyBytes)
						if v := mk(a[2]).GetValue(sc, col); !v.IsNull() && v.ToFloat() == 0 {
							kb = types.NewFloat(0).Serialize()
						}
					}
					h.Write(kb)
					return fmt.Sprintf("ok:%016x", binary.LittleEndian.Uint64(h.Sum(nil)))
				}
				switch f[0] {
				case "ixins":
					ix.InsertEntry(mk(a[2]), rid(a[3], a[4]), nil)
					return "ok"
				case "ixdel":
					ix.DeleteEntry(mk(a[2]), rid(a[3], a[4]), nil)
					return "ok"
				case "ixupd":
					ix.UpdateEntry(mk(a[2]), rid(a[3], a[4]), mk(a[5]), rid(a[6], a[7]), nil)
					return "ok"
				case "ixscan":
					var rs []string
					for _, r := range ix.ScanKey(mk(a[2]), nil) {
						rs = append(rs, fmt.Sprintf("%d.%d", r.PageID, r.SlotNum))
					}
					return "ok:" + strings.Join(rs, ";")
				default:
					var lo, hi *tuple.Tuple
					if a[2] != "-" {
						lo = mk(a[2])
					}
					if a[3] != "-" {
						hi = mk(a[3])
					}
					itr := ix.GetRangeScanIterator(lo, hi, nil)
					var es []string
					for done, _, key, r := itr.Next(); !done; done, _, key, r = itr.Next() {
						if _, isSL := ix.(*index.SkipListIndex); isSL {
							key = samehada_util.ExtractOrgKeyFromDicOrderComparableEncodedVarchar(key, colType)
						}
						es = append(es, fmt.Sprintf("%s@%d.%d", fmtVal(key), r.PageID, r.SlotNum))
					}
					return "ok:" + strings.Join(es, ";")
				}
			case "wset":
				// write set of an open transaction, oldest first: kind:rid1[:rid2]  (hook H3)
				txn := s.txns[rest]
				if txn == nil {
					return "err:notxn"
				}
				var es []string
				for _, w := range txn.VerifWriteSet() {
					e := fmt.Sprintf("%s:%d.%d", []string{"I", "D", "U"}[w.Kind], w.RID1.PageID, w.RID1.SlotNum)
					if w.HasR2 {
						e += fmt.Sprintf(":%d.%d", w.RID2.PageID, w.RID2.SlotNum)
					}
					es = append(es, e)
				}
				return "ok:" + strings.Join(es, ";")
			case "wsetv":
				// like wset, with the tuples of the records decoded: "I p.s row" | "D p.s row" | "U p.s p.s oldrow newrow"
				txn := s.txns[rest]
				if txn == nil {
					return "err:notxn"
				}
				var es []string
				for _, w := range txn.VerifWriteSet() {
					tm := s.db.GetCatalogForTesting().GetTableByOID(w.OID)
					row := func(b []byte) string {
						if b == nil || tm == nil {
							return "-"
						}
						t := tuple.NewTuple(&page.RID{}, uint32(len(b)), b)
						var vs []string
						for c := uint32(0); c < tm.Schema().GetColumnCount(); c++ {
							v := t.GetValue(tm.Schema(), c)
							vs = append(vs, fmtVal(&v))
						}
						return strings.Join(vs, ",")
					}
					e := fmt.Sprintf("%s %d.%d", []string{"I", "D", "U"}[w.Kind], w.RID1.PageID, w.RID1.SlotNum)
					if w.Kind == 2 {
						if w.HasR2 {
							e += fmt.Sprintf(" %d.%d", w.RID2.PageID, w.RID2.SlotNum)
						} else {
							e += " -"
						}
						e += " " + row(w.Tuple1) + " " + row(w.Tuple2)
					} else {
						e += " " + row(w.Tuple1)
					}
					es = append(es, e)
				}
				return "ok:" + strings.Join(es, ";")
			case "heap":
				// every occupied slot of the table's pages in page-chain order, read straight from the page bytes
				// (no transaction, no locks): "p.s=row" and "p.s=row*" for a delete-marked slot; free slots are not listed
				tm := s.table(rest)
				if tm == nil {
					return "err:notable"
				}
				bpm := s.db.GetSamehadaInstance().GetBufferPoolManager()
				sc := tm.Schema()
				var rows []string
				for pid := tm.Table().GetFirstPageID(); pid.IsValid(); {
					pg := access.CastPageAsTablePage(bpm.FetchPage(pid))
					if pg == nil {
						return "err:nopage"
					}
					pg.RLatch()
					for sl := uint32(0); sl < pg.GetTupleCount(); sl++ {
						size := pg.GetTupleSize(sl)
						if size == 0 {
							continue
						}
						mark := ""
						if size&(1<<31) != 0 {
							mark = "*"
							size &^= 1 << 31
						}
						off := pg.GetTupleOffsetAtSlot(sl)
						data := append([]byte{}, pg.Data()[off:off+size]...)
						t := tuple.NewTuple(&page.RID{}, size, data)
						var vs []string
						for c := uint32(0); c < sc.GetColumnCount(); c++ {
							v := t.GetValue(sc, c)
							vs = append(vs, fmtVal(&v))
						}
						rows = append(rows, fmt.Sprintf("%d.%d=%s%s", pid, sl, strings.Join(vs, ","), mark))
					}
					next := pg.GetNextPageID()
					pg.RUnlatch()
					bpm.UnpinPage(pid, false)
					pid = next
				}
				return "ok:" + strings.Join(rows, ";")
			case "locks":
				// the two lock tables: "S p.s t,t" (holders in table order) and "X p.s t", sorted
				sh, ex := s.db.GetSamehadaInstance().GetLockManager().VerifLockTables()
				var es []string
				for rid, ts := range sh {
					if len(ts) == 0 {
						continue
					}
					var ids []string
					for _, t := range ts {
						ids = append(ids, fmt.Sprint(int(t)))
					}
					es = append(es, fmt.Sprintf("S %d.%d %s", rid.PageID, rid.SlotNum, strings.Join(ids, ",")))
				}
				for rid, t := range ex {
					es = append(es, fmt.Sprintf("X %d.%d %d", rid.PageID, rid.SlotNum, int(t)))
				}
				sort.Strings(es)
				return "ok:" + strings.Join(es, ";")
			case "tables":
				var ts []string
				for _, tm := range s.db.GetCatalogForTesting().GetAllTables() {
					ts = append(ts, fmt.Sprintf("%d:%s:%d", tm.OID(), *tm.GetTableName(), tm.Table().GetFirstPageID()))
				}
				sort.Slice(ts, func(i, j int) bool {
					return atoi64(strings.SplitN(ts[i], ":", 2)[0]) < atoi64(strings.SplitN(ts[j], ":", 2)[0])
				})
				return "ok:" + strings.Join(ts, ",")
			case "plan":
				qi, err := parser.ProcessSQLStr(&rest)
				if err != nil {
					return "err:parse"
				}
				cat := s.db.GetCatalogForTesting()
				qi, err = optimizer.RewriteQueryInfo(cat, qi)
				if err != nil {
					return "err:rewrite"
				}
				shi := s.db.GetSamehadaInstance()
				txn := shi.GetTransactionManager().Begin(nil)
				err, pl := planner.NewSimplePlanner(cat, shi.GetBufferPoolManager()).MakePlan(qi, txn)
				shi.GetTransactionManager().Commit(cat, txn)
				if err != nil || pl == nil {
					return "err:plan"
				}
				return "ok:" + planShape(pl)
			case "stats":
				shi := s.db.GetSamehadaInstance()
				cat := s.db.GetCatalogForTesting()
				for _, tm := range cat.GetAllTables() {
					txn := shi.GetTransactionManager().Begin(nil)
					tm.GetStatistics().Update(tm, txn)
					shi.GetTransactionManager().Commit(cat, txn)
				}
				return "ok"
			case "mark":
				disk.VerifMark(rest)
				return "ok"
			case "trace":
				tr := disk.VerifTakeTrace()
				fh, err := os.Create(rest)
				if err != nil {
					return "err:" + err.Error()
				}
				w := bufio.NewWriter(fh)
				for _, e := range tr {
					switch e.Kind {
					case 'P':
						fmt.Fprintf(w, "P %d %s\n", e.PageID, hex.EncodeToString(e.Data))
					case 'L':
						fmt.Fprintf(w, "L %s\n", hex.EncodeToString(e.Data))
					case 'G':
						fmt.Fprintf(w, "G\n")
					case 'M':
						fmt.Fprintf(w, "M %s\n", e.Note)
					}
				}
				w.Flush()
				fh.Close()
				return fmt.Sprintf("ok:%d", len(tr))
			}
			return "err:unknown-command"
		}()
		fmt.Fprintln(out, res)
		out.Flush()
	}
}

var _ = schema.NewSchema
var _ = tuple.NewTuple
