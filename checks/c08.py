"""C08 — write-ahead discipline at the storage boundary.  Theorems in
coq/Props/C08.v (log codec round trip, buffer swap keeps records contiguous,
soundness and exactness of the trace checker wal_ok); the extracted checker is
run on the real I/O trace (hook H1) of random histories: every WritePage of a
user-table page must carry an LSN the durable log already covers, every commit
return of a writing transaction must find its COMMIT record durable, and after
every WriteLog the log file must parse into complete records with increasing
LSNs and intact per-transaction chains."""
import os, random, subprocess
from vlib import *
from crashcheck import History, TABLES
from dbsession import DB
from crashlib import link_discipline


def driver(trace_text, mode=None):
    p = subprocess.run([os.path.join(BUILD, "c08_driver")] + ([mode] if mode else []), input=trace_text, capture_output=True, text=True, timeout=900, preexec_fn=big_stack)
    return p.returncode, [l for l in p.stdout.strip().split("\n") if l]


def one_history(rng, res, i):
    mem = rng.choice([120, 180, 240, 400])
    h = History(rng, ["big", "aborts", "small"][i % 3], mem)
    try:
        h.run(rng.randrange(8, 20))
        if h.fail:
            return None, h.fail
        db = h.db
        text = open(os.path.join(db.dir, "history.trace")).read()
        # optionally restart (clean or crash) and continue: the relaunch and the new log are part of the trace
        if i % 3 != 0 and not db.dead:
            db.cmd("abort bg"); db.cmd("abort fly")
            how = "close" if rng.random() < 0.5 else "crash"
            db.cmd(how, timeout=60)
            if db.open().startswith("ok"):
                for k in range(rng.randrange(2, 8)):
                    db.cmd("begin y%d" % k)
                    db.cmd("tsql y%d INSERT INTO ta(k,g,v) VALUES (%d, 1, 'after-restart');" % (k, 900000 + k))
                    db.cmd("tsql y%d UPDATE tb SET g = %d WHERE k = %d;" % (k, k, rng.randrange(1, 20)))
                    db.cmd(("commit y%d" if rng.random() < 0.8 else "abort y%d") % k)
                if rng.random() < 0.5:
                    db.cmd("checkpoint")
                tp = os.path.join(db.dir, "second.trace")
                db.cmd("trace " + tp)
                text += open(tp).read()
                h.desc.append("restart(%s)+more" % how)
        return text, " ".join(h.desc) + " | pool %dKB" % mem
    finally:
        h.close()


def pressure_history(rng):
    """one open transaction dirties many more table pages than the pool has frames: its pages are evicted
    while their log records are still in the log buffer (the eviction path must flush the log first)"""
    db = DB(mem_kb=rng.choice([100, 120, 140]))
    try:
        if not db.open().startswith("ok"):
            return None, "database does not start"
        db.sql("CREATE TABLE wide(k int, v varchar(255));")
        db.sql("CREATE TABLE wide2(k int, v varchar(255));")
        db.cmd("begin big")
        for i in range(rng.randrange(90, 160)):
            t = "wide" if i % 3 else "wide2"
            r = db.cmd("tsql big INSERT INTO %s(k,v) VALUES (%d, '%s');" % (t, i, "w" * 240))
            if not r.startswith("ok"):
                break
            if i % 25 == 24:
                db.cmd("tsql big UPDATE %s SET v = '%s' WHERE k = %d;" % (t, "u" * 250, i - 3))
        if db.dead:
            return None, "engine stopped answering: " + db.dead
        db.cmd("commit big" if rng.random() < 0.5 else "abort big")
        tp = os.path.join(db.dir, "p.trace")
        db.cmd("trace " + tp)
        return open(tp).read(), "eviction pressure: one transaction inserting ~120 wide rows into 2 tables | pool %dKB" % db.mem_kb
    finally:
        db.destroy()


def pressure_history2(rng):
    """allocation pressure: in a pool that is already full, a transaction changes a row on a resident page and right
    afterwards allocates a new table page, so that pages it has just dirtied become victims of NewPage (not only of
    FetchPage).  Several small unindexed tables: a statement's scan touches 1-3 pages, not the whole pool."""
    frames = rng.choice([11, 12, 14, 16])
    db = DB(mem_kb=frames * 4)
    try:
        if not db.open().startswith("ok"):
            return None, "database does not start"
        tabs = ["w%d" % i for i in range(rng.choice([4, 6, 8]))]
        nk = {}
        for t in tabs:
            db.cmd("mktable %s k:i:n,v:s:n" % t)
            nk[t] = rng.randrange(8, 30)
            for i in range(nk[t]):
                db.cmd("rawinsert %s i:%d s:%s" % (t, i, (b"p" * rng.choice([120, 200, 240])).hex()))
        db.cmd("checkpoint")
        db.cmd("begin big")
        for step in range(rng.randrange(80, 200)):
            t = rng.choice(tabs)
            k = rng.randrange(nk[t])
            r = rng.random()
            if r < 0.6:
                a = db.cmd("tsql big UPDATE %s SET v = '%s' WHERE k = %d OR k = %d;" % (t, "u" * rng.choice([100, 118, 200]), k, k))
            elif r < 0.7:
                a = db.cmd("tsql big DELETE FROM %s WHERE k = %d OR k = %d;" % (t, k, k))
            else:
                a = "ok"
            if not a.startswith("ok") or db.dead:
                break
            # a burst of wide inserts into another table: a new table page is allocated every ~15 rows
            t2 = rng.choice(tabs)
            for j in range(rng.randrange(1, 18)):
                a = db.cmd("tsql big INSERT INTO %s(k,v) VALUES (%d, '%s');" % (t2, 100000 + step * 100 + j, "n" * 250))
                if not a.startswith("ok"):
                    break
            if not a.startswith("ok") or db.dead:
                break
        if db.dead:
            return None, "engine stopped answering: " + db.dead
        db.cmd(rng.choice(["commit big", "abort big", "abort big"]))
        tp = os.path.join(db.dir, "p.trace")
        db.cmd("trace " + tp)
        return open(tp).read(), "allocation pressure: updates of resident rows followed by bursts of wide inserts in one transaction | %d tables, pool %d frames" % (len(tabs), frames)
    finally:
        db.destroy()


def concurrent_history(seed):
    """several goroutines commit writing transactions at the same time (overlapping log flushes); the marker "CR <id>" is
    put into the trace by the committing goroutine right after TransactionManager.Commit returned"""
    import tempfile, shutil
    rng = random.Random(seed)
    d = tempfile.mkdtemp(prefix="c08c_", dir=os.path.join(BUILD, "tmp"))
    try:
        ng, ntx, kb = rng.choice([2, 4, 8, 16]), rng.choice([20, 40]), rng.choice([200, 400, 2000])
        try:
            p = subprocess.run([HARNESS_BIN, "c08c", "-", d, str(ng), str(ntx), str(kb), str(seed % 100000)], capture_output=True, text=True, timeout=180, cwd=d,
                               env=dict(os.environ, GOMAXPROCS=str(rng.choice([2, 4, 16]))))
        except subprocess.TimeoutExpired:
            return None, "concurrent committing transactions do not finish (goroutines=%d)" % ng
        if not p.stdout.strip().startswith("ok") or not os.path.exists(os.path.join(d, "conc.trace")):
            return None, "concurrent history failed: %s" % (p.stdout.strip()[-200:] or p.stderr.strip()[-300:])
        return open(os.path.join(d, "conc.trace")).read(), "concurrent: %d goroutines x %d writing transactions, pool %dKB (%s)" % (ng, ntx, kb, p.stdout.strip())
    finally:
        shutil.rmtree(d, ignore_errors=True)


def big_txn_trace(rng):
    """one transaction whose log exceeds the log buffer: AppendLogRecord flushes and swaps buffers in the middle of it"""
    db = DB(mem_kb=8000)
    try:
        if not db.open().startswith("ok"):
            return None, "database does not start"
        db.cmd("mktable bt k:i:n,g:i:n,v:s:n")
        db.cmd("begin x")
        n = rng.choice([2300, 2600])
        for i in range(n):
            if not db.cmd("tsql x INSERT INTO bt(k,g,v) VALUES (%d, %d, '%s');" % (i, i % 7, "b" * (230 + i % 20))).startswith("ok"):
                break
        db.cmd("commit x")
        db.sql("INSERT INTO bt(k,g,v) VALUES (999999, 1, 'after');")
        tp = os.path.join(db.dir, "big.trace")
        db.cmd("trace " + tp)
        return open(tp).read(), "one transaction of %d wide inserts (more log than the log buffer holds), then a small one" % n
    finally:
        db.destroy()


def run(res, replay=None):
    res.rule = ("serial histories of 8-19 units as in C01 (auto-commit statements and explicit transactions — the latter with commit-return markers —, growing updates, aborts, checkpoints, a long-running open transaction), "
                "pools of 30-100 frames to force evictions of uncommitted changes, two thirds of the histories continued across a clean or crash restart; plus eviction- and allocation-pressure histories in pools of 11-35 frames, "
                "one transaction larger than the log buffer, and 2-16 goroutines committing writing transactions concurrently (commit-return markers placed by the committing goroutine); the whole I/O trace is given to the extracted wal_ok; "
                "every WriteLog is additionally round-tripped through the extracted codec (ser_rec (parse bytes) = bytes); non-trivial = distinct trace with >= 1 tracked page write preceded by a log write")
    res.trusted = COMMON_TRUSTED + ["hook H1 records every WritePage / WriteLog / GCLogFile call in order; the harness adds a marker right after TransactionManager.Commit of a writing transaction returned",
                                    "OCaml driver reads the page LSN from bytes 4..8 of the page image"]
    res.assumptions = ["index pages reuse the LSN field as an update counter: only pages introduced by NewTablePage records count (the catalog's own two pages are created unlogged at bootstrap)",
                       "traced concurrent histories are insert-only transactions through the executor API (verifharness c08c); SQL-level concurrency is exercised by C12 without tracing"]
    go_ok = standard_build(res)
    if not go_ok:
        return
    rng = random.Random(res.seed)
    n = 20 if res.tier == "quick" else 200
    texts, descs = [], []
    for i in range(n):
        text, desc = one_history(rng, res, i)
        if text is None:
            res.oracle_failures.append(("history %d" % i, desc)); continue
        texts.append(text); descs.append(desc)
    for _ in range(3 if res.tier == "quick" else 20):
        text, desc = pressure_history(rng)
        if text is None:
            res.oracle_failures.append(("pressure history", desc)); continue
        texts.append(text); descs.append(desc)
    text, desc = big_txn_trace(rng)
    if text is None:
        res.oracle_failures.append(("big transaction", desc))
    else:
        texts.append(text); descs.append(desc)
    from crashlib import parallel
    for text, desc in parallel(concurrent_history, [rng.randrange(10**9) for _ in range(6 if res.tier == "quick" else 60)], workers=3):
        if text is None:
            res.oracle_failures.append(("concurrent history", desc)); continue
        texts.append(text); descs.append(desc)
    seeds = [rng.randrange(10**9) for _ in range(14 if res.tier == "quick" else 100)]
    for text, desc in parallel(lambda sd: pressure_history2(random.Random(sd)), seeds, workers=8):
        if text is None:
            res.oracle_failures.append(("allocation pressure history", desc)); continue
        texts.append(text); descs.append(desc)
    rc, outs = driver("END\n".join(texts) + ("END\n" if texts else ""))
    rc2, rts = driver("END\n".join(texts) + ("END\n" if texts else ""), "roundtrip")
    # the page-link rule through the extracted, proved checker (Model/WalLink.v: link_ok_sound / link_ok_exact in Props/C08Link.v)
    pl = subprocess.run([os.path.join(BUILD, "c08link_driver")], input="END\n".join(texts) + ("END\n" if texts else ""), capture_output=True, text=True, timeout=900, preexec_fn=big_stack)
    louts = pl.stdout.strip().split("\n") if pl.stdout.strip() else []
    if pl.returncode != 0 or len(louts) != len(texts):
        res.broken.append("extracted link checker failed to run (rc=%d, %d lines for %d traces): %s" % (pl.returncode, len(louts), len(texts), pl.stderr[-200:]))
        louts = [None] * len(texts)
    res.extra["linked_pagewrites"] = sum(int(dict(x.split("=", 1) for x in o.split() if "=" in x).get("linked_pagewrites", 0)) for o in louts if o)
    if rc != 0 or len(outs) < len(texts):
        res.broken.append("extracted trace checker failed to run (rc=%d, %d lines for %d traces)" % (rc, len(outs), len(texts)))
        return
    tot = {"events": 0, "logwrites": 0, "pagewrites": 0, "tracked_pagewrites": 0, "commit_returns": 0, "records": 0}
    for text, desc, o in zip(texts, descs, outs):
        kv = dict(x.split("=", 1) for x in o.split() if "=" in x)
        for k in tot:
            tot[k] += int(kv.get(k, 0))
        res.note_case(desc + "|" + o, int(kv.get("tracked_pagewrites", 0)) >= 1)
        lv = link_discipline(text)
        res.extra["link_checked_traces"] = res.extra.get("link_checked_traces", 0) + 1
        lo = louts[texts.index(text)] if text in texts else None
        if lo is not None and (lo.startswith("link_ok=1") != (not lv)) and len(res.mismatches) < 5:
            res.mismatches.append(("# I/O trace (hook H1 format) of: %s\n%s" % (desc, text[:400000]), "page-link rule: extracted checker says %s, python oracle says %s" % (lo, lv[:1] or "ok")))
        if lv and len(res.oracle_failures) < 5:
            res.oracle_failures.append(("# I/O trace (hook H1 format) of: %s\n%s" % (desc, text if len(text) < 400000 else text[:400000]), "write-ahead discipline violated (page link): " + lv[0]))
        if kv.get("wal_ok") != "1" and len(res.oracle_failures) < 5:
            res.oracle_failures.append(("# I/O trace (hook H1 format) of: %s\n%s" % (desc, text if len(text) < 400000 else text[:400000]), "write-ahead discipline violated: " + o))
    bad_rt = [l for l in rts if "roundtrip_mismatch=0" not in l]
    if rc2 != 0 or bad_rt:
        res.mismatches.append(("roundtrip", "log bytes written by the engine do not round-trip through the codec model: %s" % (bad_rt[:2] or rc2)))
    res.extra.update(tot)
    res.extra["roundtrip"] = rts[:2]
    res.samples = ["%s => %s" % (d, o) for d, o in list(zip(descs, outs))[:3]]
