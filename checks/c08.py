"""C08 — write-ahead discipline at the storage boundary.  Theorems in
coq/Props/C08.v (log codec round trip, buffer swap keeps records contiguous,
soundness and exactness of the trace checker wal_ok); the extracted checker is
run on the real I/O trace (hook H1) of random histories: every WritePage of a
user-table page must carry an LSN the durable log already covers, every commit
return of a writing transaction must find its COMMIT record durable, and after
every WriteLog the log file must parse into complete records with increasing
LSNs and intact per-transaction chains."""
import os, random, subprocess
from vlib import *
from crashcheck import History, TABLES
from dbsession import DB


def driver(trace_text, mode=None):
    p = subprocess.run([os.path.join(BUILD, "c08_driver")] + ([mode] if mode else []), input=trace_text, capture_output=True, text=True, timeout=900)
    return p.returncode, [l for l in p.stdout.strip().split("\n") if l]


def one_history(rng, res, i):
    mem = rng.choice([120, 180, 240, 400])
    h = History(rng, ["big", "aborts", "small"][i % 3], mem)
    try:
        h.run(rng.randrange(8, 20))
        if h.fail:
            return None, h.fail
        db = h.db
        text = open(os.path.join(db.dir, "history.trace")).read()
        # optionally restart (clean or crash) and continue: the relaunch and the new log are part of the trace
        if i % 3 != 0 and not db.dead:
            db.cmd("abort bg"); db.cmd("abort fly")
            how = "close" if rng.random() < 0.5 else "crash"
            db.cmd(how, timeout=60)
            if db.open().startswith("ok"):
                for k in range(rng.randrange(2, 8)):
                    db.cmd("begin y%d" % k)
                    db.cmd("tsql y%d INSERT INTO ta(k,g,v) VALUES (%d, 1, 'after-restart');" % (k, 900000 + k))
                    db.cmd("tsql y%d UPDATE tb SET g = %d WHERE k = %d;" % (k, k, rng.randrange(1, 20)))
                    db.cmd(("commit y%d" if rng.random() < 0.8 else "abort y%d") % k)
                if rng.random() < 0.5:
                    db.cmd("checkpoint")
                tp = os.path.join(db.dir, "second.trace")
                db.cmd("trace " + tp)
                text += open(tp).read()
                h.desc.append("restart(%s)+more" % how)
        return text, " ".join(h.desc) + " | pool %dKB" % mem
    finally:
        h.close()


def pressure_history(rng):
    """one open transaction dirties many more table pages than the pool has frames: its pages are evicted
    while their log records are still in the log buffer (the eviction path must flush the log first)"""
    db = DB(mem_kb=rng.choice([100, 120, 140]))
    try:
        if not db.open().startswith("ok"):
            return None, "database does not start"
        db.sql("CREATE TABLE wide(k int, v varchar(255));")
        db.sql("CREATE TABLE wide2(k int, v varchar(255));")
        db.cmd("begin big")
        for i in range(rng.randrange(90, 160)):
            t = "wide" if i % 3 else "wide2"
            r = db.cmd("tsql big INSERT INTO %s(k,v) VALUES (%d, '%s');" % (t, i, "w" * 240))
            if not r.startswith("ok"):
                break
            if i % 25 == 24:
                db.cmd("tsql big UPDATE %s SET v = '%s' WHERE k = %d;" % (t, "u" * 250, i - 3))
        if db.dead:
            return None, "engine stopped answering: " + db.dead
        db.cmd("commit big" if rng.random() < 0.5 else "abort big")
        tp = os.path.join(db.dir, "p.trace")
        db.cmd("trace " + tp)
        return open(tp).read(), "eviction pressure: one transaction inserting ~120 wide rows into 2 tables | pool %dKB" % db.mem_kb
    finally:
        db.destroy()


def run(res, replay=None):
    res.rule = ("serial histories of 8-19 units as in C01 (auto-commit statements and explicit transactions — the latter with commit-return markers —, growing updates, aborts, checkpoints, a long-running open transaction), "
                "pools of 30-100 frames to force evictions of uncommitted changes, two thirds of the histories continued across a clean or crash restart; the whole I/O trace is given to the extracted wal_ok; "
                "every WriteLog is additionally round-tripped through the extracted codec (ser_rec (parse bytes) = bytes); non-trivial = distinct trace with >= 1 tracked page write preceded by a log write")
    res.trusted = COMMON_TRUSTED + ["hook H1 records every WritePage / WriteLog / GCLogFile call in order; the harness adds a marker right after TransactionManager.Commit of a writing transaction returned",
                                    "OCaml driver reads the page LSN from bytes 4..8 of the page image"]
    res.assumptions = ["index pages reuse the LSN field as an update counter: only pages introduced by NewTablePage records count (the catalog's own two pages are created unlogged at bootstrap)",
                       "concurrency level 1 for the traced histories; the concurrent workloads of C12 exercise the log manager's buffer swap under goroutines without tracing"]
    go_ok = standard_build(res)
    if not go_ok:
        return
    rng = random.Random(res.seed)
    n = 20 if res.tier == "quick" else 200
    texts, descs = [], []
    for i in range(n):
        text, desc = one_history(rng, res, i)
        if text is None:
            res.oracle_failures.append(("history %d" % i, desc)); continue
        texts.append(text); descs.append(desc)
    for _ in range(3 if res.tier == "quick" else 20):
        text, desc = pressure_history(rng)
        if text is None:
            res.oracle_failures.append(("pressure history", desc)); continue
        texts.append(text); descs.append(desc)
    rc, outs = driver("END\n".join(texts) + ("END\n" if texts else ""))
    rc2, rts = driver("END\n".join(texts) + ("END\n" if texts else ""), "roundtrip")
    if rc != 0 or len(outs) < len(texts):
        res.broken.append("extracted trace checker failed to run (rc=%d, %d lines for %d traces)" % (rc, len(outs), len(texts)))
        return
    tot = {"events": 0, "logwrites": 0, "pagewrites": 0, "tracked_pagewrites": 0, "commit_returns": 0, "records": 0}
    for text, desc, o in zip(texts, descs, outs):
        kv = dict(x.split("=", 1) for x in o.split() if "=" in x)
        for k in tot:
            tot[k] += int(kv.get(k, 0))
        res.note_case(desc + "|" + o, int(kv.get("tracked_pagewrites", 0)) >= 1)
        if kv.get("wal_ok") != "1" and len(res.oracle_failures) < 5:
            res.oracle_failures.append(("# I/O trace (hook H1 format) of: %s\n%s" % (desc, text if len(text) < 400000 else text[:400000]), "write-ahead discipline violated: " + o))
    bad_rt = [l for l in rts if "roundtrip_mismatch=0" not in l]
    if rc2 != 0 or bad_rt:
        res.mismatches.append(("roundtrip", "log bytes written by the engine do not round-trip through the codec model: %s" % (bad_rt[:2] or rc2)))
    res.extra.update(tot)
    res.extra["roundtrip"] = rts[:2]
    res.samples = ["%s => %s" % (d, o) for d, o in list(zip(descs, outs))[:3]]
