"""C17 — each index container behaves as a sorted multimap, also under
concurrency.  Theorems in coq/Props/C17.v; correspondence: long operation
sequences (insert / delete / update entry, point lookups, bounded scans)
through the index.Index interface of every kind (skip list, unique skip list,
B-tree, hash) against a reference multimap; concurrent writers / readers /
scanners on one index with per-key presence intervals."""
import os, random, shutil, struct, subprocess, tempfile
from vlib import *
from dbsession import DB, Proc
from sqlgen import f32_bits
import btreeprobe


def keytok(ty, k):
    if ty == "i":
        return "i:%d" % k
    if ty == "f":
        return "f:%d" % f32_bits(k)
    return "s:" + (k.hex() if k else "-")


def sortkey(ty, k):
    return k


def rnd_key(rng, ty, pool):
    return rng.choice(pool)


def key_pool(rng, ty, n):
    if ty == "i":
        base = [0, 1, -1, 2, 3, 255, 256, -256, 65535, 65536, 2**31 - 2, -2**31 + 1, 7, 8, 9]
        return base + [rng.randrange(-10**6, 10**6) for _ in range(n)]
    if ty == "f":
        base = [0.0, -0.0, 1.0, -1.0, 1.5, 2.0, 0.5, -0.5, 1e-40, -1e-40, 16777216.0, -3.0e38, 3.0e38]   # (-0.0 and +0.0 are one key)
        return base + [struct.unpack("<f", struct.pack("<f", rng.uniform(-1000, 1000)))[0] for _ in range(n)]
    alpha = [b"a", b"b", b"ab", b"abc", b"abd", b"", b"z", b"B", b"aa", b"a" * 20]
    return alpha + [bytes(rng.choice(b"abcxyzABC019") for _ in range(rng.randrange(1, 20))) for _ in range(n)]


def run_seq(rng, res, kind, ty, nops):
    """one index, a long random sequence; returns list of failures"""
    fails = []
    db = DB(mem_kb=rng.choice([1200, 4000]))
    try:
        if not db.open().startswith("ok"):
            return [("open", "database does not start")]
        db.cmd("mktable t a:%s:%s,b:i:n" % (ty, kind))
        # the extracted index-wrapper model (Model/IndexWrap.v) mirrors integer-key skip-list / B-tree indexes
        model = Proc([os.path.join(BUILD, "c17_driver"), ty]) if ((ty in "if" and kind in "sb") or (ty == "s" and kind == "s")) else None
        def mk(k):      # key token of the model driver: ints as numbers, floats as bit patterns, strings as hex
            return str(k) if ty == "i" else (str(f32_bits(k)) if ty == "f" else (k.hex() or "-"))
        mlog = []
        # hash index: the extracted linear-probe table (Model/HashTable.v, engine geometry) mirrors every operation; the hash of a key
        # is an input taken from the engine (harness command hthash)
        hmodel = Proc([os.path.join(BUILD, "ht_driver")]) if kind == "h" else None
        hcache = {}
        def hmirror(op, ktok, rid, engine_answer=None):
            if hmodel is None:
                return
            if ktok not in hcache:
                hcache[ktok] = db.cmd("hthash t 0 " + ktok)[3:]
            line = ("%s %s" % (op, hcache[ktok])) + ("" if rid is None else " %d %d" % rid)
            mlog.append(line + "   # key " + ktok)
            m = hmodel.ask(line, 30)
            res.extra["model_ops"] = res.extra.get("model_ops", 0) + 1
            if m is None or m.startswith("err"):
                res.broken.append("ht_driver failed on %r: %s" % (line, m)); return
            if op == "ins" and m != "inserted" and len(res.mismatches) < 5:
                res.mismatches.append(("# hash index; model session (build/ht_driver):\n" + "\n".join(mlog[-300:]), "the hash-table model does not store an entry this workload expects to be storable (%s): generator outside its own contract?" % m))
            if op == "get" and engine_answer is not None and engine_answer != m and len(res.mismatches) < 5:
                res.mismatches.append(("# hash index; model session (build/ht_driver):\n" + "\n".join(mlog[-300:]), "engine lookup %s | hash-table model %s" % (engine_answer[:200], m[:200])))
        def mirror(line, engine_answer, ordered=True):
            if model is None:
                return
            mlog.append(line)
            m = model.ask(line, 30)
            res.extra["model_ops"] = res.extra.get("model_ops", 0) + 1
            if m is None:
                res.broken.append("c17_driver died on %r" % line); return
            if m.startswith("err:"):
                if len(res.mismatches) < 5:
                    res.mismatches.append(("# model session (build/c17_driver %s):\n%s" % (ty, "\n".join(mlog[-400:])), "the models disagree among themselves or fail: " + m))
                return
            if engine_answer is None:
                return
            e = engine_answer
            if e.startswith("ok:") and m.startswith("ok:"):
                # B-tree int keys: same composite key bytes; both containers answer in composite-key order
                if (e[3:].split(";") if ordered else sorted(e[3:].split(";"))) == (m[3:].split(";") if ordered else sorted(m[3:].split(";"))):
                    return
            if len(res.mismatches) < 5:
                res.mismatches.append(("# index kind %s, key type %s; model session (build/c17_driver):\n%s" % (kind, ty, "\n".join(mlog[-400:])), "engine answered %s | index-wrapper model %s" % (e[:300], (m or "")[:300])))
        pool = key_pool(rng, ty, 60 if kind != "h" else 30)
        if kind == "b" and ty == "i":
            # integer keys >= 2147418112 under a B-tree index: known finding F-BTREE-STOPPER, probed by lib/btreeprobe.py
            pool = [btreeprobe.clamp(k) for k in pool]
        ref = set()          # (key, rid)
        uniq = kind == "u"
        def rids_of(k):
            return sorted(r for (kk, r) in ref if kk == k)
        nextrid = [1, 0]
        def new_rid():
            nextrid[1] += 1
            if nextrid[1] > 50:
                nextrid[0] += 1; nextrid[1] = 0
            r = rng.random()
            if r < 0.05:
                return (rng.choice([0, 65535, 2**31 - 1]), rng.choice([0, 65535] if kind == "b" else [0, 65535, 2**32 - 1]))
            if r < 0.2:
                # every byte of the page id and of the slot number carries information
                return (rng.randrange(0, 2**31), rng.randrange(0, 65536 if kind == "b" else 2**32))
            return (nextrid[0], nextrid[1])
        for step in range(nops):
            r = rng.random()
            k = rnd_key(rng, ty, pool)
            kt = keytok(ty, k)
            if r < 0.03 and ref and kind in "sb":
                # insert an entry that is there already (several times): it stays there exactly once
                (k, rid) = rng.choice(sorted(ref, key=lambda e: (str(e[0]), e[1])))
                for _ in range(rng.choice([1, 3, 40, 250])):
                    a = db.cmd("ixins t 0 %s %d %d" % (keytok(ty, k), rid[0], rid[1]))
                    mirror("ins %s %d %d" % (mk(k), rid[0], rid[1]), None)
                    if db.dead or a.startswith("panic"):
                        break
            elif r < 0.45:
                if uniq and rids_of(k):
                    continue                      # duplicates are outside a unique index's contract
                rid = new_rid()
                if (k, rid) in ref:
                    continue
                a = db.cmd("ixins t 0 %s %d %d" % (kt, rid[0], rid[1]))
                ref.add((k, rid)); mirror("ins %s %d %d" % (mk(k), rid[0], rid[1]), None); hmirror("ins", kt, rid)
            elif r < 0.65 and ref:
                (k, rid) = rng.choice(sorted(ref, key=lambda e: (str(e[0]), e[1])))
                a = db.cmd("ixdel t 0 %s %d %d" % (keytok(ty, k), rid[0], rid[1]))
                ref.discard((k, rid)); mirror("del %s %d %d" % (mk(k), rid[0], rid[1]), None); hmirror("del", keytok(ty, k), rid)
            elif r < 0.75 and ref and kind != "h":
                (k, rid) = rng.choice(sorted(ref, key=lambda e: (str(e[0]), e[1])))
                k2 = rnd_key(rng, ty, pool)
                rid2 = rid if rng.random() < 0.5 else new_rid()
                if rng.random() < 0.2:
                    k2, rid2 = k, rid          # identity update: what UPDATE .. SET a = <same value> issues when the row stays in place
                if ((k2, rid2) in ref and (k2, rid2) != (k, rid)) or (uniq and rids_of(k2) and k2 != k):
                    continue
                a = db.cmd("ixupd t 0 %s %d %d %s %d %d" % (keytok(ty, k), rid[0], rid[1], keytok(ty, k2), rid2[0], rid2[1]))
                ref.discard((k, rid)); ref.add((k2, rid2))
                mirror("upd %s %d %d %s %d %d" % (mk(k), rid[0], rid[1], mk(k2), rid2[0], rid2[1]), None)
            elif r < 0.92:
                a = db.cmd("ixscan t 0 " + kt)
                mirror("scan %s" % mk(k), a)
                hmirror("get", kt, None, a)
                got = sorted(tuple(int(x) for x in e.split(".")) for e in a[3:].split(";")) if a.startswith("ok:") and a[3:] else []
                if not a.startswith("ok") or got != rids_of(k):
                    fails.append(("lookup %s" % kt, "lookup of key %s returned %s, stored under it: %s" % (kt, got[:6], rids_of(k)[:6])))
            elif kind != "h":
                lo, hi = sorted([rnd_key(rng, ty, pool), rnd_key(rng, ty, pool)])
                lo_t = "-" if rng.random() < 0.2 else keytok(ty, lo)
                hi_t = "-" if rng.random() < 0.2 else keytok(ty, hi)
                a = db.cmd("ixrange t 0 %s %s" % (lo_t, hi_t))
                mirror("range %s %s" % ("-" if lo_t == "-" else mk(lo), "-" if hi_t == "-" else mk(hi)), a.replace("i:", "").replace("f:", "").replace("s:", "") if a.startswith("ok:") else a)
                want = sorted((kk, rr) for (kk, rr) in ref if (lo_t == "-" or kk >= lo) and (hi_t == "-" or kk <= hi))
                got = a[3:].split(";") if a.startswith("ok:") and a[3:] else []
                wantk = [keytok(ty, kk) if not (ty == "f" and kk == 0.0) else "f:0" for kk, _ in want]
                gotk = [e.split("@")[0] if e.split("@")[0] != "f:2147483648" else "f:0" for e in got]     # -0.0 and +0.0 are one key (the unique skip list hands back the stored sign)
                if not a.startswith("ok") or gotk != wantk or sorted(e.split("@")[1] for e in got) != sorted("%d.%d" % rr for _, rr in want):
                    fails.append(("scan [%s,%s]" % (lo_t, hi_t), "bounded scan returned %d entries %s..., expected %d in key order %s..." % (len(got), got[:4], len(want), wantk[:4])))
            else:
                continue
            if db.dead:
                fails.append((db.log[-1], "index operation does not return: " + db.dead)); break
            if 'a' in dir() and isinstance(a, str) and a.startswith("panic"):
                fails.append((db.log[-1], "index operation panics: " + a)); break
            if len(fails) >= 3:
                break
        # final full comparison
        if not fails and kind != "h":
            a = db.cmd("ixrange t 0 - -")
            got = a[3:].split(";") if a.startswith("ok:") and a[3:] else []
            if len(got) != len(ref):
                fails.append(("full scan", "full scan returned %d entries, %d are stored" % (len(got), len(ref))))
        res.extra["entries_peak"] = max(res.extra.get("entries_peak", 0), len(ref))
    finally:
        if model is not None:
            model.close()
        if hmodel is not None:
            hmodel.close()
        if fails:
            fails = [("# session:\n" + "\n".join(db.log[-30000:]) + "\n# at: " + d, w) for d, w in fails]
        db.destroy()
    return fails


def run_conc(kind, writers, readers, ops, seed):
    d = tempfile.mkdtemp(prefix="c17_", dir=os.path.join(BUILD, "tmp"))
    try:
        try:
            p = subprocess.run([HARNESS_BIN, "c17c", "-", d, kind, str(writers), str(readers), str(ops), str(seed), "60"], capture_output=True, text=True, timeout=150, cwd=d)
            out = p.stdout
        except subprocess.TimeoutExpired:
            return ["VIOLATION the concurrent index workload did not finish"], ""
        lines = out.strip().split("\n")
        return [l for l in lines if l.startswith("VIOLATION")], (lines[-1] if lines else "")
    finally:
        shutil.rmtree(d, ignore_errors=True)


def hash_probes(res):
    """listed findings of the hash index (catalog API only), each reproduced on the engine AND predicted by the extracted
    hash-table model (theorems ..._refuted in Props/C17Hash.v)"""
    db = DB(mem_kb=4000)
    hm = Proc([os.path.join(BUILD, "ht_driver")])
    try:
        if not db.open().startswith("ok"):
            return
        db.cmd("mktable t a:i:h,b:i:n")
        def hh(k):
            return db.cmd("hthash t 0 i:%d" % k)[3:]
        # two keys with the same home slot
        homes, pair = {}, None
        for k in range(1, 6000):
            hk = int(hm.ask("home " + hh(k), 10))
            if hk in homes:
                pair = (homes[hk], k); break
            homes[hk] = k
        if pair:
            x, k = pair
            # (a) a present pair is accepted again past a tombstone and then returned twice
            for op, kk, rid in (("ixins", x, (1, 1)), ("ixins", k, (1, 2)), ("ixdel", x, (1, 1)), ("ixins", k, (1, 2))):
                db.cmd("%s t 0 i:%d %d %d" % (op, kk, rid[0], rid[1])); hm.ask("%s %s %d %d" % ("ins" if op == "ixins" else "del", hh(kk), rid[0], rid[1]), 10)
            a, m = db.cmd("ixscan t 0 i:%d" % k), hm.ask("get " + hh(k), 10)
            if a == m and a == "ok:1.2;1.2":
                res.known_hits["F-HASH-DUP"] = "hash index: an entry that is present is accepted a second time when a deleted entry's slot lies before it on the probe path, and a lookup then returns its row id twice (keys %d, %d share a home slot): %s" % (x, k, a)
            elif a != m:
                res.mismatches.append(("# hash probe (a) keys %d %d" % (x, k), "engine %s | hash-table model %s" % (a, m)))
            # (b) the refusal test compares the value only: the same row id under a second key on the same probe path is dropped silently
            db.cmd("ixdel t 0 i:%d 1 2" % k); hm.ask("del %s 1 2" % hh(k), 10)
            db.cmd("ixins t 0 i:%d 7 7" % x); hm.ask("ins %s 7 7" % hh(x), 10)
            db.cmd("ixins t 0 i:%d 7 7" % k); mo = hm.ask("ins %s 7 7" % hh(k), 10)
            a, m = db.cmd("ixscan t 0 i:%d" % k), hm.ask("get " + hh(k), 10)
            if a == m and a == "ok:" and mo == "duplicate":
                res.known_hits["F-HASH-VALUE"] = "hash index: InsertEntry of (key %d, row id 7.7) is dropped without an error because (key %d, row id 7.7) lies on its probe path (the duplicate test compares the value only); the lookup of key %d returns nothing" % (k, x, k)
            elif a != m:
                res.mismatches.append(("# hash probe (b) keys %d %d" % (x, k), "engine %s | hash-table model %s" % (a, m)))
        # (c) the table never grows: the entry after the last free slot is dropped and reported as success
        db.cmd("mktable u a:i:h,b:i:n"); hm.ask("reset", 10)
        n, last = 2520, None
        for i in range(n + 1):
            db.cmd("ixins u 0 i:%d 3 %d" % (100000 + i, i % 60000))
            last = hm.ask("ins %s 3 %d" % (db.cmd("hthash u 0 i:%d" % (100000 + i))[3:], i % 60000), 10)
        a, m = db.cmd("ixscan u 0 i:%d" % (100000 + n)), hm.ask("get " + db.cmd("hthash u 0 i:%d" % (100000 + n))[3:], 10)
        first = db.cmd("ixscan u 0 i:100000")
        if a == m and a == "ok:" and last == "full" and first == "ok:3.0":
            res.known_hits["F-HASH-FULL"] = "hash index: the table has 2520 slots and never grows; the 2521st entry is dropped and InsertEntry reports nothing (lookup returns no row id)"
        elif a != m:
            res.mismatches.append(("# hash probe (c) full table", "engine %s | hash-table model %s (last insert: %s)" % (a, m, last)))
        # (d) a probe chain that crosses from the last slot of one block page into the next: entries past the boundary must be
        #     inserted, found and removed like any other (no finding here: a difference from the model or from the expectation is reported)
        db.cmd("mktable v a:i:h,b:i:n"); hm.ask("reset", 10)
        def hv(k):
            return db.cmd("hthash v 0 i:%d" % k)[3:]
        ends, pairs = {}, []
        for k in range(1, 400000):
            hk = int(hm.ask("home " + hv(k), 10))
            if hk % 252 == 251:
                if hk in ends and ends[hk] != k:
                    pairs.append((ends[hk], k, hk))
                    if len(pairs) >= 2:
                        break
                else:
                    ends.setdefault(hk, k)
        for p, q, hk in pairs:
            steps = [("ixins", p, (4, 1)), ("ixins", q, (4, 2)), ("get", q, "ok:4.2"), ("ixdel", q, (4, 2)), ("get", q, "ok:"), ("get", p, "ok:4.1"),
                     ("ixins", q, (4, 3)), ("ixdel", p, (4, 1)), ("get", q, "ok:4.3"), ("get", p, "ok:"), ("ixdel", q, (4, 3)), ("get", q, "ok:")]
            for op, kk, arg in steps:
                if op == "get":
                    a, m = db.cmd("ixscan v 0 i:%d" % kk), hm.ask("get " + hv(kk), 10)
                    res.evaluations += 1
                    if a != arg and len(res.oracle_failures) < 5:
                        res.oracle_failures.append(("# hash index, keys %d and %d share the home slot %d (last slot of block page %d): the second entry lies in the next block page\n%s" % (p, q, hk, hk // 252, "\n".join(db.log[-14:])),
                                                    "hash index: lookup of key %d returns %s, expected %s (probe chain crossing a block-page boundary)" % (kk, a, arg)))
                    if a != m and len(res.mismatches) < 5:
                        res.mismatches.append(("# hash probe (d) keys %d %d home %d" % (p, q, hk), "engine %s | hash-table model %s" % (a, m)))
                else:
                    db.cmd("%s v 0 i:%d %d %d" % (op, kk, arg[0], arg[1])); hm.ask("%s %s %d %d" % ("ins" if op == "ixins" else "del", hv(kk), arg[0], arg[1]), 10)
        res.extra["hash_block_boundary_pairs"] = len(pairs)
        res.evaluations += 3
    finally:
        db.destroy(); hm.close()


def run(res, replay=None):
    res.rule = ("per index kind (skip list, unique skip list, B-tree, hash) and key type (int, float, string): sequences of 1,500 (thorough 12,000) insert / delete / update-entry / lookup / bounded-scan operations "
                "through the index.Index interface with duplicate keys, adjacent values, extremes and long strings (enough to split and empty nodes), every lookup and scan compared with a reference multimap; "
                "concurrent part: 2-8 writers (disjoint keys, insert/delete alternating), 2-8 readers and scanners on one skip-list / B-tree index: stable keys always found, lookups consistent with the key's "
                "presence intervals, scans sorted and complete on stable keys; long-key workload (three entries per skip-list node) in which writers check their own completed inserts and deletes; "
                "UpdateEntry flipping an entry under concurrent lookups and scans (the entry is there exactly once at any time); non-trivial = distinct (kind, type, sequence)")
    res.trusted = COMMON_TRUSTED + ["python reference multimap (checks/c17.py)", "the concurrent driver's presence intervals use a global atomic counter"]
    res.assumptions = ["hash index: no ordered scan, UpdateEntry unimplemented (F-HASH-UPDATE), capacity limited (kept below 30 distinct keys); unique skip list: one entry per key",
                       "the latch-coupling protocol of the skip list and the B-link tree library are not modelled: concurrency is covered by observed histories only"]
    go_ok = standard_build(res)
    if not go_ok:
        return
    rng = random.Random(res.seed)
    nops = 1500 if res.tier == "quick" else 12000
    hash_probes(res)
    res.oracle_failures.extend(btreeprobe.probe(res))
    combos = [(k, t) for k in "subh" for t in "ifs"]
    for (k, t) in combos:
        if k == "b" and t == "s":
            pass
        fails = run_seq(rng, res, k, t, nops if k != "h" else min(nops, 600))
        res.note_case("seq|%s|%s|%d" % (k, t, res.seed), True)
        res.extra.setdefault("sequences", []).append("%s/%s" % (k, t))
        for d, w in fails:
            if len(res.oracle_failures) < 5:
                res.oracle_failures.append((d, "index kind %s, key type %s: %s" % ({"s": "skip list", "u": "unique skip list", "b": "B-tree", "h": "hash"}[k], t, w)))
    nconc = 4 if res.tier == "quick" else 30
    for i in range(nconc):
        kind = "sb"[i % 2]
        w, r = rng.choice([2, 4, 8]), rng.choice([2, 4, 8])
        viol, last = run_conc(kind, w, r, 1500 if res.tier == "quick" else 6000, rng.randrange(10**6))
        res.note_case("conc|%s|%d|%d|%d" % (kind, w, r, i), True)
        res.extra.setdefault("concurrent_runs", []).append("%s w=%d r=%d %s" % (kind, w, r, last))
        for v in viol[:2]:
            if len(res.oracle_failures) < 5:
                res.oracle_failures.append(("verifharness c17c %s %d %d" % (kind, w, r), v))
    # second family of concurrent workloads (harness/c17d.go): long keys (about three entries per skip-list node: nodes are emptied,
    # unlinked and split all the time) with writers checking their own completed operations, and UpdateEntry under readers
    # (a lost insert next to a node removal shows in roughly two of three 8 x 4000 runs: several of them per check)
    plan = [("s", "long", 8, 4000), ("s", "long", 8, 4000), ("s", "long", 8, 5000), ("s", "long", 6, 5000), ("s", "long", 16, 1500), ("s", "upd", 3, 3000), ("b", "upd", 3, 3000)] * (1 if res.tier == "quick" else 8) + ([("s", "long", 16, 300)] if res.tier != "quick" else [])
    for kind, mode, ng, nops in plan:
        d = tempfile.mkdtemp(prefix="c17d_", dir=os.path.join(BUILD, "tmp"))
        try:
            try:
                p = subprocess.run([HARNESS_BIN, "c17d", "-", d, kind, mode, str(ng), str(nops), str(rng.randrange(10**6)), "60"], capture_output=True, text=True, timeout=150, cwd=d,
                                   env=dict(os.environ, GOMAXPROCS=str(rng.choice([4, 8, 16]))))
                lines = p.stdout.strip().split("\n")
            except subprocess.TimeoutExpired:
                lines = ["VIOLATION the concurrent index workload did not finish"]
            res.note_case("c17d|%s|%s|%d|%d" % (kind, mode, ng, len(res.extra.get("concurrent_runs", []))), True)
            res.extra.setdefault("concurrent_runs", []).append("%s %s %s" % (kind, mode, lines[-1] if lines else ""))
            if not any(l.startswith("DONE") for l in lines) and not any(l.startswith("VIOLATION") for l in lines):
                lines.append("VIOLATION the workload died: " + (p.stderr.strip().split("\n")[0][:200] if p.stderr else "no output"))
            for v in [l for l in lines if l.startswith("VIOLATION")][:2]:
                if len(res.oracle_failures) < 5:
                    res.oracle_failures.append(("verifharness c17d - <dir> %s %s %d %d <seed> 60" % (kind, mode, ng, nops), "%s index, %s: %s" % ({"s": "skip-list", "b": "B-tree"}[kind], {"long": "long keys, writers check their own completed operations", "upd": "UpdateEntry under concurrent readers"}[mode], v[10:])))
        finally:
            shutil.rmtree(d, ignore_errors=True)
    res.samples = res.extra.get("concurrent_runs", [])[:3]
