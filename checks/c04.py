"""C04 — statements see committed data plus their own writes, or abort.
(C05 reuses this machinery with read-modify-write programs.)
Every statement-granularity interleaving of small multi-statement transactions
is executed on the real engine with explicit transaction handles; each completed
statement's answer is compared with the reference evaluation over the latest
committed data overlaid with the transaction's own earlier writes, and the
committed transactions are replayed serially in commit order (C05)."""
import itertools, random
from vlib import *
from dbsession import DB, Ref, canon_rows, scan_rows

BASE = [(1, 10, "r1"), (2, 20, "r2"), (3, 20, "r3"), (4, 30, "r4")]
UROWS = [(10, 1), (20, 2)]      # small static second table u(x, y) for join reads
# static filler rows of t (never touched by a statement: other keys, other values): with them and fresh statistics the
# optimizer joins u and t by an index join on t.a (the probe goes through the point scan executor)
FILL = []
FILLER = [(100 + i, 50 + i, "f") for i in range(30)]
JOIN_SQL = "SELECT t.k, u.y FROM u, t WHERE u.x = t.a;"


def join_want(view):
    return "ok:" + ";".join(sorted("i:%d,i:%d" % (k, y) for (k, a, b) in view for (x, y) in UROWS if x == a))
LONG = "L" * 200


def stmt_pool(rng, mode):
    """statements as (kind, sql, ref) where ref is a function(view table name) -> list of ref commands / query"""
    reads = [
        ("point", "SELECT k,a FROM t WHERE a = %d;", lambda v: "S %s 0,1 c1 eq i:%d" % ("{T}", v)),
        ("range", "SELECT k,a FROM t WHERE a >= %d AND a <= 30;", lambda v: "S {T} 0,1 c1 ge i:%d c1 le i:30 and" % v),
        ("seq", "SELECT k,a FROM t WHERE a = %d OR a = %d;", None),
        ("pk", "SELECT a FROM t WHERE k = %d;", lambda v: "S {T} 1 c0 eq i:%d" % v),
    ]
    return reads


class Sim:
    """reference bookkeeping: committed rows + per-transaction own writes, evaluated with the extracted semantics"""
    def __init__(self, ref):
        self.ref = ref
        self.committed = {}          # k -> (k,a,b)
        self.own = {}                # t -> {k: row or None}

    def load(self, rows, name="V"):
        self.ref.cmd("X " + name) if False else None
        self.ref.cmd("T %s 3" % name)
        for (k, a, b) in rows:
            self.ref.cmd("R %s i:%d,i:%d,s:%s" % (name, k, a, b.encode().hex() if b else "-"))

    def view(self, t):
        v = dict(self.committed)
        for k, r in self.own.get(t, {}).items():
            if r is None:
                v.pop(k, None)
            else:
                v[k] = r
        return sorted(v.values())

    def read_back(self, name="V"):
        ans = self.ref.cmd("C " + name)
        rows = []
        if ans[3:]:
            for r in ans[3:].split(";"):
                f = r.split(",")
                rows.append((int(f[0][2:]), int(f[1][2:]), bytes.fromhex(f[2][2:]).decode() if f[2][2:] != "-" else ""))
        return rows

    def apply(self, t, refcmds, query):
        """evaluate a statement of t on its view; returns expected answer (for queries) and records own writes"""
        before = self.view(t)
        self.load(before)
        ans = None
        if query:
            ans = self.ref.cmd(query.replace("{T}", "V"))
        for c in refcmds:
            self.ref.cmd(c.replace("{T}", "V"))
        after = self.read_back()
        if refcmds:
            b, a = {r[0]: r for r in before}, {r[0]: r for r in after}
            o = self.own.setdefault(t, {})
            for k in set(b) | set(a):
                if b.get(k) != a.get(k):
                    o[k] = a.get(k)
        return ans

    def commit(self, t):
        for k, r in self.own.pop(t, {}).items():
            if r is None:
                self.committed.pop(k, None)
            else:
                self.committed[k] = r

    def abort(self, t):
        self.own.pop(t, None)


def gen_program(rng, mode):
    """a program = list of transactions, each a list of statements (sql, refcmds, query, touches_index_key)"""
    ntx = rng.choice([2, 2, 3])
    prog = []
    nextk = 50
    if mode == "mixed" and rng.random() < 0.15:
        # directed shape: one transaction changes a row (delete / key-changing update / insert) and stays open while another reads
        # the whole table through the sequential scan and through an index range
        kk = rng.choice([1, 2, 3, 4])
        w = rng.choice([("DELETE FROM t WHERE k = %d;" % kk, ["D {T} c0 eq i:%d" % kk], None, "delete"),
                        ("UPDATE t SET a = 40 WHERE k = %d;" % kk, ["U {T} 1=i:40 c0 eq i:%d" % kk], None, "update-key"),
                        ("INSERT INTO t(k,a,b) VALUES (77, 20, 'n77');", ["R {T} i:77,i:20,s:%s" % b"n77".hex()], None, "insert")])
        rd = [("SELECT k,a FROM t WHERE k < 100 OR k < 100;", [], "S {T} 0,1 c0 lt i:100 c0 lt i:100 or", "read-seq")]
        if rng.random() < 0.5:
            rd.append(("SELECT k,a FROM t WHERE k < 100 OR k < 100;", [], "S {T} 0,1 c0 lt i:100 c0 lt i:100 or", "read-seq"))
        return [([w], rng.choice(["commit", "abort"])), (rd, "commit")]
    for t in range(ntx):
        n = rng.randrange(1, 4) if ntx == 2 else rng.randrange(1, 3)
        stmts = []
        for _ in range(n):
            r = rng.random()
            v = rng.choice([10, 20, 30])
            k = rng.choice([1, 2, 3, 4])
            if mode == "rmw":
                # read-modify-write on overlapping rows
                if r < 0.38:
                    stmts.append(("SELECT a FROM t WHERE k = %d;" % k, [], "S {T} 1 c0 eq i:%d" % k, "read-pk"))
                elif r < 0.76:
                    nv = rng.choice([10, 20, 30, 40])
                    stmts.append(("UPDATE t SET a = %d WHERE k = %d;" % (nv, k), ["U {T} 1=i:%d c0 eq i:%d" % (nv, k)], None, "update-key"))
                elif r < 0.86:
                    # the whole table through the sequential scan: it meets every row another transaction has changed or delete-marked
                    stmts.append(("SELECT k,a FROM t WHERE k < 100 OR k < 100;", [], "S {T} 0,1 c0 lt i:100 c0 lt i:100 or", "read-seq"))
                elif r < 0.93:
                    stmts.append(("DELETE FROM t WHERE k = %d;" % k, ["D {T} c0 eq i:%d" % k], None, "delete"))
                else:
                    stmts.append(("SELECT k,a FROM t WHERE a >= %d AND a <= 30;" % v, [], "S {T} 0,1 c1 ge i:%d c1 le i:30 and" % v, "read-range"))
                continue
            if r < 0.05:
                # the whole table through the sequential scan: a row hidden (or shown) wrongly always shows up in the answer
                stmts.append(("SELECT k,a FROM t WHERE k < 100 OR k < 100;", [], "S {T} 0,1 c0 lt i:100 c0 lt i:100 or", "read-seq"))
            elif r < 0.16:
                stmts.append(("SELECT k,a FROM t WHERE a = %d;" % v, [], "S {T} 0,1 c1 eq i:%d" % v, "read-point"))
            elif r < 0.30:
                stmts.append(("SELECT k,a FROM t WHERE a >= %d AND a <= 30;" % v, [], "S {T} 0,1 c1 ge i:%d c1 le i:30 and" % v, "read-range"))
            elif r < 0.42:
                stmts.append(("SELECT k,a FROM t WHERE a = %d OR a = %d;" % (v, v), [], "S {T} 0,1 c1 eq i:%d c1 eq i:%d or" % (v, v), "read-seq"))
            elif r < 0.47:
                stmts.append((JOIN_SQL, [], "JOIN", "read-join"))
            elif r < 0.52:
                stmts.append(("SELECT a FROM t WHERE k = %d;" % k, [], "S {T} 1 c0 eq i:%d" % k, "read-pk"))
            elif r < 0.64:
                nextk += 1
                stmts.append(("INSERT INTO t(k,a,b) VALUES (%d, %d, 'n%d');" % (nextk, v, nextk), ["R {T} i:%d,i:%d,s:%s" % (nextk, v, ("n%d" % nextk).encode().hex())], None, "insert"))
            elif r < 0.74:
                stmts.append(("DELETE FROM t WHERE k = %d;" % k, ["D {T} c0 eq i:%d" % k], None, "delete"))
            elif r < 0.88:
                nv = rng.choice([10, 20, 30, 40])
                stmts.append(("UPDATE t SET a = %d WHERE k = %d;" % (nv, k), ["U {T} 1=i:%d c0 eq i:%d" % (nv, k)], None, "update-key"))
            else:
                stmts.append(("UPDATE t SET b = '%s' WHERE k = %d;" % (LONG, k), ["U {T} 2=s:%s c0 eq i:%d" % (LONG.encode().hex(), k)], None, "update-grow"))
        if mode == "mixed" and rng.random() < 0.2:
            # a transaction that deletes one of two rows sharing an index key and then reads that key through a join (own deletes
            # must be skipped by the index probe, the other row must still be found)
            kk = rng.choice([2, 3])
            stmts = [("DELETE FROM t WHERE k = %d;" % kk, ["D {T} c0 eq i:%d" % kk], None, "delete"), (JOIN_SQL, [], "JOIN", "read-join")]
        end = "commit" if rng.random() < 0.75 else "abort"
        prog.append((stmts, end))
    return prog


def interleavings(prog):
    """all merges of the transactions' op sequences (statements then the final commit/abort)"""
    seqs = [[(t, i) for i in range(len(st) + 1)] for t, (st, _) in enumerate(prog)]
    def merge(rem):
        if all(not r for r in rem):
            yield []
            return
        for i, r in enumerate(rem):
            if r:
                rest = rem[:i] + [r[1:]] + rem[i + 1:]
                for tail in merge(rest):
                    yield [r[0]] + tail
    return merge(seqs)


def reset_table(db):
    r = db.sql("DELETE FROM t WHERE k < 100 OR k < 100;")
    for (k, a, b) in BASE:
        db.sql("INSERT INTO t(k,a,b) VALUES (%d, %d, '%s');" % (k, a, b))
    return scan_rows(db.cmd("scan t"))


def run_schedule(db, ref, prog, sched, res, fails, mode, prop):
    want0 = "ok:" + ";".join(sorted("i:%d,i:%d,s:%s" % (k, a, b.encode().hex()) for k, a, b in BASE + FILL))
    got0 = reset_table(db)
    if got0 != want0:
        fails.append(("reset", "table could not be reset to the base rows: %s" % got0[:200]))
        return False
    sim = Sim(ref)
    sim.committed = {r[0]: r for r in BASE + FILL}
    alive = {t: True for t in range(len(prog))}
    for t in range(len(prog)):
        db.cmd("begin x%d" % t)
    commit_order = []
    executed = {t: [] for t in range(len(prog))}
    log = []
    point_only = prop == "C05" and all(s[3] in ("read-pk", "update-key") for st, _ in prog for s in st)
    mops, mevents = ["I %d %d" % (k, a) for k, a, _ in BASE], []
    tainted = set()            # transactions whose read was affected by the listed finding F-IDX-DIRTY
    dirty_key_update = {}      # t -> True if it has an uncommitted key-changing update / delete / insert on the indexed column
    for (t, i) in sched:
        stmts, end = prog[t]
        if not alive[t]:
            continue
        if i == len(stmts):
            if end == "commit":
                db.cmd("commit x%d" % t); sim.commit(t); commit_order.append(t); log.append("commit x%d" % t)
                mops.append("C %d" % (t + 1)); mevents.append("c:%d" % (t + 1))
            else:
                db.cmd("abort x%d" % t); sim.abort(t); log.append("abort x%d" % t)
                mops.append("A %d" % (t + 1)); mevents.append("a:%d" % (t + 1))
            alive[t] = False
            dirty_key_update.pop(t, None)
            continue
        sql, refcmds, query, kind = stmts[i]
        ans = db.cmd("tsql x%d %s" % (t, sql))
        log.append("x%d: %s => %s" % (t, sql[:60], ans[:60]))
        if point_only:
            kk = int(sql.split("k = ")[-1].rstrip(";"))
            if kind == "read-pk":
                mops.append("R %d %d" % (t + 1, kk))
                mevents.append("a:%d" % (t + 1) if ans == "aborted" else "r:%d:%d:%s" % (t + 1, kk, canon_rows(ans)[3:].replace("i:", "") or "0"))
            else:
                nv = int(sql.split("SET a = ")[1].split(" ")[0])
                mops.append("W %d %d %d" % (t + 1, kk, nv))
                mevents.append("a:%d" % (t + 1) if ans == "aborted" else "w:%d:%d:%d" % (t + 1, kk, nv))
        if ans == "aborted":
            db.cmd("abort x%d" % t); sim.abort(t); alive[t] = False; dirty_key_update.pop(t, None)
            res.extra["aborted_statements"] = res.extra.get("aborted_statements", 0) + 1
            continue
        if db.dead or not ans.startswith("ok"):
            fails.append(("\n".join(log), "statement fails inside a schedule: %s" % (ans if not db.dead else db.dead)))
            return False
        want = join_want(sim.view(t)) if kind == "read-join" else sim.apply(t, refcmds, query)
        if kind == "read-join":
            res.extra["join_reads"] = res.extra.get("join_reads", 0) + 1
        res.extra["completed_statements"] = res.extra.get("completed_statements", 0) + 1
        if query and canon_rows(ans) != want:
            others_dirty = [o for o in dirty_key_update if o != t]
            msg = "x%d: %s answered %s but committed data + own writes give %s" % (t, sql, canon_rows(ans)[:200], want[:200])
            if others_dirty and kind in ("read-point", "read-range", "read-join"):
                tainted.add(t)
                res.known_hits["F-IDX-DIRTY"] = ("an uncommitted key-changing update / delete of another transaction removes or moves the index entry at execution time, "
                                                 "so an index scan silently misses (or cannot see the old key of) a committed row: " + msg[:300])
            else:
                fails.append(("\n".join(log), msg))
        if kind in ("update-key", "delete", "insert"):
            dirty_key_update[t] = True
        executed[t].append((sql, refcmds, query, ans))
    # final state: committed transactions in commit order, serially (C05)
    final = scan_rows(db.cmd("scan t"))
    ref.cmd("T F 3")
    for (k, a, b) in BASE + FILL:
        ref.cmd("R F i:%d,i:%d,s:%s" % (k, a, b.encode().hex()))
    serial_ok = True
    for t in commit_order:
        for (sql, refcmds, query, ans) in executed[t]:
            if query == "JOIN":
                continue
            if query:
                w = ref.cmd(query.replace("{T}", "F"))
                real_rows = set(canon_rows(ans)[3:].split(";")) - {""}
                serial_rows = set(w[3:].split(";")) - {""}
                # rows that newly start to match the predicate in the serial order are phantoms (the documented
                # exception); every row the transaction actually read must have the same value serially
                if not real_rows <= serial_rows:
                    serial_ok = False
                    if prop != "C04" and t not in tainted:
                        fails.append(("\n".join(log), "not equivalent to the serial execution in commit order: x%d read %s, serially it reads %s (%s)" % (t, canon_rows(ans)[:150], w[:150], sql)))
            for c in refcmds:
                ref.cmd(c.replace("{T}", "F"))
    wantf = ref.cmd("C F")
    if point_only:
        # correspondence with the extracted scheduling model (Model/Sched.v): same schedule, same events (read values,
        # lock denials as aborts), same final values
        fin = ",".join("%d=%d" % (int(r.split(",")[0][2:]), int(r.split(",")[1][2:])) for r in sorted(final[3:].split(";"), key=lambda r: int(r.split(",")[0][2:])) if r) if final.startswith("ok") else final
        res.extra.setdefault('_mc', []).append((";".join(mops), " ".join(mevents) + " | " + fin, "\n".join(log)))
    if final != wantf and not tainted:
        fails.append(("\n".join(log), "final table differs from the serial execution of the committed transactions in commit order: engine %s | serial %s" % (final[:300], wantf[:300])))
    return True


def idx_dirty_probe(res):
    """deterministic replay of the listed finding F-IDX-DIRTY (Props/C04.v: index_scan_misses_committed_row_refuted, witness
    f_idx_dirty_witness): x0 changes the indexed column of a committed row and stays open; x1's index point scan for the
    committed key neither returns the row nor aborts."""
    db = DB(mem_kb=400)
    try:
        if not db.open().startswith("ok") or not db.sql("CREATE TABLE t(k int, a int, b varchar(255));").startswith("ok"):
            return
        reset_table(db)
        db.cmd("begin x0"); db.cmd("begin x1")
        db.cmd("tsql x0 UPDATE t SET a = 40 WHERE k = 1;")
        ans = db.cmd("tsql x1 SELECT k,a FROM t WHERE a = 10;")
        if ans.startswith("ok") and "i:1,i:10" not in ans:
            res.known_hits["F-IDX-DIRTY"] = ("an uncommitted key-changing update of another transaction moves the index entry at execution time, so an index scan for the committed key "
                                             "silently misses the committed row (no lock request, no abort): x0: UPDATE t SET a = 40 WHERE k = 1 (open); x1: SELECT k,a FROM t WHERE a = 10 answered %s, committed data has k=1,a=10" % ans)
        elif ans != "aborted":
            pass
        db.cmd("abort x0"); db.cmd("abort x1")
    finally:
        db.destroy()


def leading_rows_probe(res):
    """another transaction has an uncommitted delete (or relocating update) on the FIRST rows of the heap; a sequential scan, an index
    range scan and an index point lookup by a second transaction must each either be aborted or still show the committed rows"""
    fails = []
    for shape, writer in (("delete of the first row", ["DELETE FROM lt WHERE a = 0;"]), ("delete of the first two rows", ["DELETE FROM lt WHERE a = 0;", "DELETE FROM lt WHERE a = 1;"]),
                          ("relocating update of the first row", ["UPDATE lt SET c = '%s' WHERE a = 0;" % ("g" * 3000)]), ("delete of a middle row", ["DELETE FROM lt WHERE a = 2;"])):
        db = DB(mem_kb=400)
        try:
            if not db.open().startswith("ok") or not db.sql("CREATE TABLE lt(a int, b int, c varchar(255));").startswith("ok"):
                return [("open", "set-up failed")]
            for a in range(4):
                db.sql("INSERT INTO lt(a,b,c) VALUES (%d, %d, 'r%d');" % (a, 10 * a, a))
            committed = "ok:" + ";".join("i:%d,i:%d" % (a, 10 * a) for a in range(4))
            db.cmd("begin w")
            if not all(db.cmd("tsql w " + s).startswith("ok") for s in writer):
                continue
            for path, sql, exp in (("sequential scan", "SELECT a,b FROM lt WHERE b >= 0 OR b >= 0;", committed), ("index range scan", "SELECT a,b FROM lt WHERE a >= 0 AND a <= 9;", committed),
                                   ("index point lookup", "SELECT a,b FROM lt WHERE a = 0;", "ok:i:0,i:0")):
                db.cmd("begin r")
                got = db.cmd("tsql r " + sql)
                got = canon_rows(got) if got.startswith("ok") else got
                db.cmd("abort r" if got == "aborted" else "commit r")
                res.evaluations += 1
                res.note_case("leading rows %s / %s -> %s" % (shape, path, "aborted" if got == "aborted" else "answered"), True)
                if got != "aborted" and got != exp:
                    fails.append(("# session:\n" + "\n".join(db.log[-30:]), "writer holds an uncommitted %s; a reader's %s completes with %s although the committed rows are %s (it must see them or be aborted)" % (shape, path, got[:200], exp)))
            db.cmd("abort w")
        finally:
            db.destroy()
    return fails


def two_table_txn_probe(res, rng):
    """one transaction changes rows of TWO tables (deletes, key-changing updates, inserts) and commits or aborts; afterwards a second
    transaction reads both tables through the index point path, the index range path and the sequential scan: every path must show
    exactly the committed rows (tables with unique skip-list and with ordinary skip-list indexes)"""
    fails = []
    for kind in "us":
        db = DB(mem_kb=400)
        try:
            if not db.open().startswith("ok"):
                return [("open", "database does not start")]
            rows = {}
            for tn in ("ta", "tb"):
                db.cmd("mktable %s a:i:%s,b:i:n" % (tn, kind))
                rows[tn] = {a: a * (100 if tn == "ta" else 1000) for a in range(1, 7)}
                for a, b in rows[tn].items():
                    db.sql("INSERT INTO %s(a,b) VALUES (%d, %d);" % (tn, a, b))
            def check(what, log):
                for tn in ("ta", "tb"):
                    want = sorted(rows[tn].items())
                    exp = "ok:" + ";".join(sorted("i:%d,i:%d" % r for r in want))
                    for path, sql in (("sequential scan", "SELECT a,b FROM %s WHERE b >= 0 OR b >= 0;" % tn), ("index range scan", "SELECT a,b FROM %s WHERE a >= 1 AND a <= 60;" % tn)):
                        got = canon_rows(db.sql(sql))
                        res.evaluations += 1
                        if got != exp:
                            fails.append(("# %s index; session:\n%s" % ({"u": "unique skip-list", "s": "skip-list"}[kind], "\n".join(db.log[-40:])), "%s: %s of %s returns %s, committed rows %s" % (what, path, tn, got[:200], exp[:200]))); return False
                    for a in list(range(1, 8)) + [50, 51]:
                        got = canon_rows(db.sql("SELECT b FROM %s WHERE a = %d;" % (tn, a)))
                        e1 = "ok:" + ("i:%d" % rows[tn][a] if a in rows[tn] else "")
                        res.evaluations += 1
                        if got != e1:
                            fails.append(("# %s index; session:\n%s" % ({"u": "unique skip-list", "s": "skip-list"}[kind], "\n".join(db.log[-40:])), "%s: index point lookup %s.a = %d returns %s, committed data %s" % (what, tn, a, got[:100], e1))); return False
                return True
            for rnd in range(4):
                commit = rnd != 2
                new = {tn: dict(rows[tn]) for tn in rows}
                db.cmd("begin w")
                stmts = []
                da, dbk = rng.sample(sorted(rows["ta"]), 1)[0], rng.sample(sorted(rows["tb"]), 1)[0]
                if rnd % 2 == 0:
                    stmts = [("ta", "DELETE FROM ta WHERE a = %d;" % da), ("tb", "DELETE FROM tb WHERE a = %d;" % dbk)]
                    new["ta"].pop(da); new["tb"].pop(dbk)
                else:
                    stmts = [("ta", "UPDATE ta SET a = %d WHERE a = %d;" % (50 + rnd, da)), ("tb", "DELETE FROM tb WHERE a = %d;" % dbk), ("ta", "DELETE FROM ta WHERE a = %d;" % (50 + rnd))]
                    new["ta"].pop(da); new["tb"].pop(dbk)
                ok = all(db.cmd("tsql w " + s).startswith("ok") for _, s in stmts)
                db.cmd("commit w" if commit and ok else "abort w")
                if commit and ok:
                    rows = new
                res.note_case("two-table txn %s %s %s" % (kind, [s for _, s in stmts], commit), True)
                if not check("after a transaction on two tables (%s) that %s" % ("; ".join(s for _, s in stmts), "committed" if commit and ok else "was aborted"), db.log):
                    break
        finally:
            db.destroy()
    return fails


def run(res, replay=None, mode="mixed", prop="C04"):
    res.rule = ("random programs of 2-3 transactions x 1-3 statements over a 4-row table with a skip-list index on every column (point / range / sequential / primary-key reads, inserts, deletes, "
                "key-changing updates, growing updates, commit or abort); EVERY statement-granularity interleaving of each program is executed with explicit transaction handles on one goroutine; "
                "each completed statement's answer vs the reference over committed data + own writes; committed transactions replayed serially in commit order; "
                "non-trivial = distinct (program, interleaving) in which two transactions touch a common row")
    res.trusted = COMMON_TRUSTED + ["python bookkeeping of committed rows and own writes (checks/c04.py:Sim), evaluated with the extracted reference semantics"]
    res.assumptions = ["interleavings are at statement granularity on one goroutine; goroutine-level schedules are sampled by C12's workload",
                       "a statement answering 'aborted' aborts its transaction (no-wait locking); that is an allowed outcome"]
    go_ok = standard_build(res)
    if not go_ok:
        return
    rng = random.Random(res.seed)
    idx_dirty_probe(res)
    if prop == "C04":
        for d, w in leading_rows_probe(res) + two_table_txn_probe(res, random.Random(res.seed + 44)):
            if len(res.oracle_failures) < 5:
                res.oracle_failures.append((d, w))
    if prop == "C04":
        # correspondence of the row-level engine model (Model/Engine.v, theorems of Props/C04.v) with the engine
        import enginecorr
        enginecorr.run_corr(res, random.Random(res.seed * 7919 + 4), 100 if res.tier == "quick" else 1500, focus="visibility")
    nprog = 14 if res.tier == "quick" else 150
    cap = 120 if res.tier == "quick" else 2000
    db, ref = DB(mem_kb=400), Ref()
    fails = []
    try:
        if not db.open().startswith("ok") or not db.sql("CREATE TABLE t(k int, a int, b varchar(255));").startswith("ok") or not db.sql("CREATE TABLE u(x int, y int);").startswith("ok"):
            res.oracle_failures.append(("open", "set-up failed")); return
        for (x, y) in UROWS:
            db.sql("INSERT INTO u(x,y) VALUES (%d, %d);" % (x, y))
        FILL[:] = FILLER if mode == "mixed" else []
        for (k, a, b) in FILL:
            db.sql("INSERT INTO t(k,a,b) VALUES (%d, %d, '%s');" % (k, a, b))
        reset_table(db)
        db.cmd("stats")
        res.extra["join_plan"] = db.cmd("plan " + JOIN_SQL)
        for p in range(nprog):
            prog = gen_program(rng, mode)
            scheds = list(interleavings(prog))
            if len(scheds) > cap:
                rng.shuffle(scheds); scheds = scheds[:cap]
            res.extra["schedules"] = res.extra.get("schedules", 0) + len(scheds)
            rows_touched = [set(s[0].split("k = ")[-1].rstrip(";") for s in st if "k = " in s[0]) for st, _ in prog]
            overlap = any(rows_touched[i] & rows_touched[j] for i in range(len(prog)) for j in range(i + 1, len(prog))) or any(s[3].startswith("read-") for st, _ in prog for s in st)
            for sc in scheds:
                res.note_case("%s|%s" % (prog, sc), overlap)
                ok = run_schedule(db, ref, prog, sc, res, fails, mode, prop)
                if db.dead:
                    fails.append(("program %s schedule %s" % (prog, sc), "engine stopped answering: " + db.dead))
                    db.destroy(); db = DB(mem_kb=400); db.open(); db.sql("CREATE TABLE t(k int, a int, b varchar(255));"); db.sql("CREATE TABLE u(x int, y int);")
                    for (x, y) in UROWS:
                        db.sql("INSERT INTO u(x,y) VALUES (%d, %d);" % (x, y))
                    for (k, a, b) in FILL:
                        db.sql("INSERT INTO t(k,a,b) VALUES (%d, %d, '%s');" % (k, a, b))
                    db.cmd("stats")
                if len(fails) >= 5:
                    break
            if len(res.samples) < 3:
                res.samples.append("program: " + " || ".join("[%s ; %s]" % (" ; ".join(s[0] for s in st), e) for st, e in prog) + " (%d interleavings)" % len(scheds))
            if len(fails) >= 5:
                break
    finally:
        db.destroy(); ref.close()
    for d, w in fails[:5]:
        res.oracle_failures.append(("# schedule:\n" + d, w))
    mc = res.extra.pop("_mc", [])
    if mc:
        out = run_model("c05_driver", "\n".join(m[0] for m in mc) + "\n")[1].strip().split("\n")
        res.extra["model_schedules_compared"] = len(mc)
        if len(out) != len(mc):
            res.broken.append("c05_driver answered %d lines for %d schedules" % (len(out), len(mc)))
        else:
            for (ops, got, log), want in zip(mc, out):
                if got != want:
                    res.mismatches.append(("# schedule: %s\n%s" % (ops, log), "engine events/final %s | scheduling model %s" % (got, want)))
                    if len(res.mismatches) >= 5:
                        break
