"""C03 — abort restores the exact pre-transaction state.  Theorems in
coq/Props/C03.v; correspondence: explicit transactions of 1-12 statements
(inserts, in-place / growing-relocating / shrinking updates, deletes, repeated
changes of one row, multi-page tables, indexed and non-indexed columns) are
aborted explicitly or by a lock conflict; rows WITH their row ids and the raw
entries of every index are compared before Begin and after Abort, and later
transactions reuse the space."""
import random
from vlib import *
from workload import Mirror
from sqlgen import *


def snapshot(m):
    snap = {}
    for n, (types, names, kinds) in m.tables.items():
        snap[n] = {"scan": m.db.cmd("scan " + n)}
        for c, k in enumerate(kinds):
            if k != "n":
                snap[n]["idx%d" % c] = m.db.cmd("idx %s %d" % (n, c))
    return snap


def aborted_txn(m, rng, res, conflict):
    """run one transaction and abort it; returns description"""
    name = rng.choice(list(m.tables))
    types, names, kinds = m.tables[name]
    before = snapshot(m)
    holder = False
    if conflict:
        # another transaction holds a lock on some row: our transaction will be aborted by the conflict
        m.db.cmd("begin h")
        m.db.cmd("tsql h UPDATE %s SET %s = %s WHERE %s;" % (name, names[0], rnd_val(rng, types[0]).sql() if rnd_val(rng, types[0]).literal_ok() else "1", m.rnd_where(name).sql(names)))
        holder = True
    m.db.cmd("begin a")
    n = rng.randrange(1, 13)
    kinds_done = []
    hit_abort = False
    multi = len(m.tables) > 1 and rng.random() < 0.4      # the transaction changes several tables: one rollback over all of them
    first_name = name
    for _ in range(n):
        if multi:
            name = rng.choice(list(m.tables))
            types, names, kinds = m.tables[name]
        r = rng.random()
        if r < 0.35:
            vals = m.rnd_vals(name, small=False)
            if not all(v.literal_ok() for v in vals):
                continue
            if rng.random() < 0.3:
                vals = [Val("s", (v.v + b"q" * 150)[:(20 if kinds[i] == "b" else 200)]) if v.kind == "s" else v for i, v in enumerate(vals)]
            sql = "INSERT INTO %s(%s) VALUES (%s);" % (name, ",".join(names), ", ".join(v.sql() for v in vals)); kinds_done.append("insert")
        elif r < 0.75:
            p = m.rnd_where(name)
            cs = rng.sample(range(len(types)), rng.randrange(1, len(types) + 1))
            asg = []
            grow = rng.random() < 0.4
            for c in cs:
                v = rnd_val(rng, types[c], small=False)
                if types[c] == "s":
                    v = Val("s", ((v.v + b"g" * 180) if grow else v.v)[:(20 if kinds[c] == "b" else 230)])
                asg.append((c, for_index(v, types[c], kinds[c])))     # (B-tree keys: short strings, integers below the stopper limit)
            if not all(v.literal_ok() for _, v in asg):
                continue
            sql = "UPDATE %s SET %s WHERE %s;" % (name, ", ".join("%s = %s" % (names[c], v.sql()) for c, v in asg), p.sql(names))
            kinds_done.append("update-grow" if grow else "update")
        else:
            sql = "DELETE FROM %s WHERE %s;" % (name, m.rnd_where(name).sql(names)); kinds_done.append("delete")
        a = m.db.cmd("tsql a " + sql)
        if a == "aborted":
            hit_abort = True
            break
        if not a.startswith("ok"):
            m.fail(sql, "statement inside the transaction failed: " + a)
            break
    m.db.cmd("abort a")
    if holder:
        m.db.cmd("abort h")
    after = snapshot(m)
    what = "%s txn(%s)%s%s" % ("conflict-abort" if hit_abort else "abort", ",".join(kinds_done), " [holder]" if holder else "", " [several tables]" if multi else "")
    name = first_name
    types, names, kinds = m.tables[name]
    for n2 in before:
        for k in before[n2]:
            if before[n2][k] != after[n2][k]:
                b, a2 = before[n2][k], after[n2][k]
                bs, as_ = set(b[3:].split(";")), set(a2[3:].split(";"))
                m.fail("abort of " + what, "%s of table %s differs after the abort: only before %s | only after %s" % (
                    "rows (with row ids)" if k == "scan" else "entries of the index on column " + k[3:], n2, sorted(bs - as_)[:4], sorted(as_ - bs)[:4]))
    nontriv = "update-grow" in kinds_done or len(kinds_done) >= 2
    res.note_case(what + "|" + name + "|" + ",".join(kinds), nontriv)
    return what


def history(rng, res, kinds_pool):
    m = Mirror(rng, mem_kb=rng.choice([240, 400, 1200]))
    desc = []
    try:
        if not m.open():
            return m.fails
        for i in range(rng.randrange(1, 3)):
            name = "tb%d" % i
            if not m.create(name, via_sql=rng.random() < 0.5, kinds_pool=kinds_pool, ncols=rng.randrange(1, 5)):
                return m.fails
            nrows = rng.choice([3, 10, 30]) if rng.random() < 0.8 else 120     # 120 rows with long strings: several pages
            for _ in range(nrows):
                vals = m.rnd_vals(name, small=False)
                if nrows == 120:
                    vals = [Val("s", (v.v + b"p" * 100)[:(20 if m.tables[name][2][j] == "b" else 120)]) if v.kind == "s" else v for j, v in enumerate(vals)]
                m.insert(name, vals)
        for step in range(rng.randrange(4, 10)):
            a = rng.random()
            if a < 0.6:
                desc.append(aborted_txn(m, rng, res, conflict=rng.random() < 0.25))
            elif a < 0.8:
                c = m.txn_block(list(m.tables) if rng.random() < 0.4 else rng.choice(list(m.tables)), rng.randrange(1, 5), True); desc.append("committed-txn")
            else:
                n = rng.choice(list(m.tables))
                for _ in range(rng.randrange(1, 5)):
                    m.insert(n)           # later transactions reuse the space
                desc.append("insert")
            if m.fails or m.db.dead:
                break
        if not m.fails and not m.db.dead:
            for n in m.tables:
                m.verify(n, nq=3, what="at end")
                m.verify_index(n, what="at end")
        if m.db.dead and not m.fails:
            m.fail(m.db.log[-1], "engine stopped answering: " + m.db.dead)
        if len(res.samples) < 4:
            res.samples.append(" ; ".join(desc))
        return m.fails
    finally:
        m.close()


def pressure_abort(rng, res):
    """a transaction that changes more pages than the pool has frames (its pages are written out and read back while it
    runs) and is then aborted: rows with row ids and index entries must be as before"""
    from dbsession import DB
    indexed = rng.random() < 0.5
    frames = rng.choice([24, 32]) if indexed else rng.choice([12, 16, 20])
    db = DB(mem_kb=frames * 4)
    fails = []
    try:
        if not db.open().startswith("ok"):
            return [("open", "database does not start in a %d-frame pool" % frames)]
        db.cmd("mktable pt k:i:%s,g:i:n,v:s:n" % ("s" if indexed else "n"))
        n = rng.choice([300, 450])
        for i in range(n):
            db.cmd("rawinsert pt i:%d i:%d s:%s" % (i, i % 5, (b"q" * rng.choice([150, 200, 230])).hex()))
        before = (db.cmd("scan pt"), db.cmd("idx pt 0"))
        db.cmd("begin a")
        kinds = []
        for _ in range(rng.randrange(1, 4)):
            r = rng.random()
            if r < 0.5:
                sql = "UPDATE pt SET g = %d WHERE g = %d OR g = %d;" % (rng.randrange(10, 99), rng.randrange(5), rng.randrange(5)); kinds.append("update-inplace")
            elif r < 0.7:
                sql = "UPDATE pt SET v = '%s' WHERE g = %d OR g = %d;" % ("s" * rng.choice([10, 100]), rng.randrange(5), rng.randrange(5)); kinds.append("update-shrink")
            elif r < 0.85:
                sql = "DELETE FROM pt WHERE g = %d OR g = %d;" % (rng.randrange(5), rng.randrange(5)); kinds.append("delete")
            else:
                sql = "UPDATE pt SET k = %d WHERE g = %d OR g = %d;" % (1000 + rng.randrange(100), rng.randrange(5), rng.randrange(5)); kinds.append("update-key")
            a = db.cmd("tsql a " + sql, timeout=60)
            if not a.startswith("ok"):
                break
        db.cmd("abort a", timeout=60)
        if db.dead:
            return [("# session:\n" + "\n".join(l[:120] for l in db.log[-12:]), "engine stopped answering: " + db.dead)]
        after = (db.cmd("scan pt"), db.cmd("idx pt 0"))
        what = "abort of a transaction (%s) over %d rows / ~%d pages in a %d-frame pool%s" % (",".join(kinds), n, n // 17, frames, ", skip-list index on k" if indexed else "")
        res.note_case("pressure-abort|" + what, True)
        for nm, b, a2 in (("rows (with row ids)", before[0], after[0]), ("entries of the index on k", before[1], after[1])):
            if b != a2:
                bs, as_ = set(b[3:].split(";")), set(a2[3:].split(";"))
                fails.append(("# session:\n" + "\n".join(l[:160] for l in db.log[-10:]) + "\n# (%d rows inserted with rawinsert pt i:<i> i:<i%%5> s:<150-230 x 'q'> before)" % n,
                              "%s: %s differ after the abort: only before %s | only after %s" % (what, nm, [x[:60] for x in sorted(bs - as_)[:3]], [x[:60] for x in sorted(as_ - bs)[:3]])))
                break
    finally:
        db.destroy()
    return fails


def lookahead_conflict(rng, res):
    """a statement whose sequential scan loses a lock conflict on the row AFTER one it is about to change (the scan reads one row
    ahead): whatever it changed before being aborted must be undone by the abort"""
    from dbsession import DB
    db = DB(mem_kb=400)
    fails = []
    try:
        if not db.open().startswith("ok"):
            return [("open", "database does not start")]
        db.sql("CREATE TABLE la(k int, g int, v varchar(255));")
        n = rng.randrange(4, 9)
        for i in range(n):
            db.sql("INSERT INTO la(k,g,v) VALUES (%d, %d, 'v%d');" % (i, i * 10, i))
        for _ in range(6):
            before = (db.cmd("scan la"), db.cmd("idx la 0"), db.cmd("idx la 1"), db.cmd("idx la 2"))
            locked = rng.randrange(1, n)
            target = rng.randrange(0, locked)               # a row before the locked one in heap order
            db.cmd("begin h"); db.cmd("begin a")
            db.cmd("tsql h UPDATE la SET g = %d WHERE k = %d;" % (500 + locked, locked))
            stmt = rng.choice(["UPDATE la SET g = 999 WHERE k = %d OR k = %d;" % (target, target),
                               "UPDATE la SET v = '%s' WHERE k >= %d OR k >= %d;" % ("w" * rng.choice([3, 120]), target, target),
                               "DELETE FROM la WHERE k = %d OR k = %d;" % (target, target),
                               "UPDATE la SET k = %d WHERE g = %d OR g = %d;" % (700 + target, target * 10, target * 10)])
            a = db.cmd("tsql a " + stmt)
            db.cmd("abort a"); db.cmd("abort h")
            after = (db.cmd("scan la"), db.cmd("idx la 0"), db.cmd("idx la 1"), db.cmd("idx la 2"))
            res.note_case("lookahead|%s|%d|%d|%s" % (stmt.split()[0], target, locked, a[:7]), True)
            if db.dead:
                fails.append(("# session:\n" + "\n".join(db.log[-20:]), "engine stopped answering: " + db.dead)); break
            if before != after:
                which = [nm for nm, b, c in zip(("rows (with row ids)", "index on k", "index on g", "index on v"), before, after) if b != c]
                fails.append(("# session:\n" + "\n".join(db.log[-(n + 16):]), "row %d is X-locked by another open transaction; `%s` (answer %s) and both aborts leave %s changed: before %s | after %s" % (
                    locked, stmt, a[:20], ", ".join(which), before[0][:200], after[0][:200])))
                break
    finally:
        db.destroy()
    return fails


def hash_probe(res):
    rng = random.Random(3)
    m = Mirror(rng)
    try:
        if not m.open():
            return
        m.db.cmd("mktable th a:i:h,b:i:n")
        m.db.cmd("rawinsert th i:1 i:1")
        m.db.cmd("begin a")
        r = m.db.cmd("tsql a UPDATE th SET a = 2 WHERE b = 1 OR b = 1;")
        m.db.cmd("abort a") if not m.db.dead else None
        if r.startswith("panic") or m.db.dead:
            res.known_hits["F-HASH-UPDATE"] = "an UPDATE on a table with a hash index panics (LinearProbeHashTableIndex.UpdateEntry is not implemented): " + r[:80]
    finally:
        m.close()


def run(res, replay=None):
    res.rule = ("1-2 tables (SQL DDL or catalog API: none / skip list / B-tree per column; 3-120 rows, some spanning several pages), 4-9 steps of which ~60% are aborted transactions of 1-12 statements "
                "(inserts, updates incl. growing ones that relocate rows and key-changing ones, deletes, repeated changes of the same rows), a quarter of them aborted by a lock conflict with another open "
                "transaction; rows with row ids and raw entries of every index are compared before Begin and after Abort; committed transactions and inserts in between reuse the space; "
                "non-trivial = distinct aborted transaction with a growing update or >= 2 statements")
    res.trusted = COMMON_TRUSTED + ["python workload mirror (lib/workload.py)"]
    res.assumptions = ["hash indexes: UpdateEntry is unimplemented (listed finding F-HASH-UPDATE); unique skip-list indexes are exercised by C17"]
    go_ok = standard_build(res)
    if not go_ok:
        return
    rng = random.Random(res.seed)
    for _ in range(4 if res.tier == "quick" else 40):
        for d, w in lookahead_conflict(rng, res):
            if len(res.oracle_failures) < 5:
                res.oracle_failures.append((d, w))
    for _ in range(6 if res.tier == "quick" else 60):
        for d, w in pressure_abort(rng, res):
            if len(res.oracle_failures) < 5:
                res.oracle_failures.append((d, w))
    # correspondence of the row-level engine model (Model/Engine.v, theorems of Props/C03.v) with the engine
    import enginecorr
    enginecorr.run_corr(res, random.Random(res.seed * 7919 + 3), 100 if res.tier == "quick" else 1500, focus="abort")
    hash_probe(res)
    n = 30 if res.tier == "quick" else 300
    for i in range(n):
        for d, w in history(rng, res, "nsb" if i % 3 == 0 else "ns"):
            if len(res.oracle_failures) < 5:
                res.oracle_failures.append((d, w))
