"""C02 — unfinished or aborted transactions leave no trace after recovery.
Same machinery as C01 (crash-point enumeration over the H1 I/O trace) on
histories that emphasise aborted, in-flight and committed transactions touching
the same pages and slots, at EVERY I/O boundary (inside commit, abort,
eviction and checkpoint)."""
import c01
from vlib import *


def run(res, replay=None):
    c01.run(res, replay=replay, mode="c02")
    res.rule = res.rule.replace("after commits returned", "").replace("non-trivial = distinct (history, crash point) with >= 1 returned commit and >= 1 page write before the crash",
                                "histories biased to aborted and in-flight transactions that reuse slots freed by others; non-trivial = distinct (history, crash point) with >= 1 returned commit and >= 1 page write before the crash")
