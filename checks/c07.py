"""C07 — indexes agree with their table whenever no transaction is active.
Theorems in coq/Props/C07.v; correspondence: histories of committed and aborted
inserts / deletes / key-changing and relocating updates / duplicate keys /
restarts; at every quiescent point the raw entries of every index are compared
with the heap and index-path answers with scan-path answers and the reference."""
import random
from vlib import *
from workload import Mirror
import c09


def history(rng, res, kinds_pool, crash_ok):
    m = Mirror(rng, mem_kb=rng.choice([240, 400, 1200]))
    desc = []
    try:
        if not m.open():
            return m.fails
        ntab = 0
        for step in range(rng.randrange(8, 20)):
            a = rng.random()
            if a < 0.15 or ntab == 0:
                name = "tb%d" % ntab
                if not m.create(name, via_sql=rng.random() < 0.5, kinds_pool=kinds_pool, ncols=rng.randrange(1, 5)):
                    break
                ntab += 1
                desc.append("create(%s/%s)" % (",".join(m.tables[name][0]), ",".join(m.tables[name][2])))
                for _ in range(rng.randrange(2, 12)):
                    m.insert(name)            # small value pools: many duplicate keys
            elif a < 0.35:
                name = rng.choice(list(m.tables))
                for _ in range(rng.randrange(1, 6)):
                    m.insert(name)
                desc.append("insert")
            elif a < 0.55:
                m.update(rng.choice(list(m.tables))); desc.append("update")
            elif a < 0.65:
                m.delete(rng.choice(list(m.tables))); desc.append("delete")
            elif a < 0.85:
                multi = len(m.tables) > 1 and rng.random() < 0.5
                c = m.txn_block(list(m.tables) if multi else rng.choice(list(m.tables)), rng.randrange(2 if multi else 1, 7), rng.random() < (0.7 if multi else 0.4))
                desc.append("txn(%s)" % ("commit" if c else "abort"))
            else:
                clean = rng.random() < 0.5 or not crash_ok
                desc.append("restart(%s)" % ("clean" if clean else "crash"))
                if not m.restart(clean=clean):
                    break
            if m.fails or m.db.dead:
                break
            # quiescent point: no transaction is open
            if step % 3 == 2:
                for n in m.tables:
                    m.verify_index(n, what="at quiescent point")
                    m.verify(n, nq=2, what="at quiescent point")
                res.extra["quiescent_points"] = res.extra.get("quiescent_points", 0) + 1
        if not m.fails and not m.db.dead:
            for n in m.tables:
                m.verify_index(n, what="at end")
                m.verify(n, nq=3, what="at end")
            res.extra["quiescent_points"] = res.extra.get("quiescent_points", 0) + 1
        if m.db.dead and not m.fails:
            m.fail(m.db.log[-1], "engine stopped answering: " + m.db.dead)
        res.note_case(" ".join(desc), any(d.startswith("txn(abort") for d in desc) or any(d.startswith("restart") for d in desc))
        if len(res.samples) < 4:
            res.samples.append(" ".join(desc))
        return m.fails
    finally:
        m.close()


def special_index_history(rng, res, kind):
    """unique skip-list ('u') and hash ('h') indexes (catalog API only): distinct keys, inserts and deletes (no UPDATE on a hash
    index: listed finding F-HASH-UPDATE), forced checkpoints, clean and crash restarts; at every quiescent point a point
    lookup of every key ever used must return exactly the row ids of the rows holding it"""
    from dbsession import DB
    db = DB(mem_kb=rng.choice([400, 1200]))
    fails = []
    try:
        if not db.open().startswith("ok"):
            return [("open", "database does not start")]
        db.cmd("mktable sp a:i:%s,b:i:n,c:s:n" % kind)
        live, used = set(), []
        nkeys = 45 if kind == "h" else 200
        def check(what):
            sc = db.cmd("scan sp")
            heap = {}
            if sc.startswith("ok:") and sc[3:]:
                for e in sc[3:].split(";"):
                    rid, row = e.split("=", 1)
                    heap.setdefault(int(row.split(",")[0][2:]), []).append(rid)
            if set(heap) != live:
                fails.append(("# session:\n" + "\n".join(db.log[-80:]), "%s: table rows %s differ from the committed keys %s" % (what, sorted(heap)[:10], sorted(live)[:10])))
                return
            for k in used:
                a = db.cmd("ixscan sp 0 i:%d" % k)
                got = sorted(a[3:].split(";")) if a.startswith("ok:") and a[3:] else []
                if not a.startswith("ok") or got != sorted(heap.get(k, [])):
                    fails.append(("# session:\n" + "\n".join(db.log[-80:]), "%s: %s index lookup of key %d returns %s, the table holds it at %s" % (what, {"u": "unique skip-list", "h": "hash"}[kind], k, a[:80], heap.get(k, []))))
                    return
            res.extra["quiescent_points"] = res.extra.get("quiescent_points", 0) + 1
        desc = []
        # a recurring shape: changes, checkpoint (index pages reach the file), more changes, crash (the index is rebuilt at launch)
        script = []
        for _ in range(rng.randrange(2, 4)):
            script += [0.1, 0.7, 0.5, 0.9] if rng.random() < 0.6 else [rng.random() for _ in range(rng.randrange(2, 6))]
        for step, r in enumerate(script):
            if r < 0.4:
                for _ in range(rng.randrange(3, 15)):
                    k = rng.randrange(nkeys)
                    if k in live:
                        continue
                    db.sql("INSERT INTO sp(a,b,c) VALUES (%d, %d, '%s');" % (k, step, "v" * rng.randrange(1, 40)))
                    live.add(k); used.append(k) if k not in used else None
                desc.append("inserts")
            elif r < 0.52 and live and kind == "u":
                # updates through the unique skip list: relocating ones that keep the key (the string shrinks or grows), and
                # key-changing ones to a key no row holds (the hash index has no UpdateEntry: F-HASH-UPDATE)
                for k in rng.sample(sorted(live), min(len(live), rng.randrange(2, 10))):
                    if rng.random() < 0.6:
                        r2 = db.sql("UPDATE sp SET c = '%s' WHERE b >= 0 AND a = %d;" % ("w" * rng.randrange(1, 60), k))
                    else:
                        nk = rng.randrange(nkeys)
                        if nk in live:
                            continue
                        r2 = db.sql("UPDATE sp SET a = %d WHERE b >= 0 AND a = %d;" % (nk, k))
                        live.discard(k); live.add(nk); used.append(nk) if nk not in used else None
                    if not r2.startswith("ok"):
                        fails.append(("# session:\n" + "\n".join(db.log[-80:]), "UPDATE failed: " + r2)); break
                desc.append("updates")
            elif r < 0.65 and live:
                everything = rng.random() < 0.25          # now and then every row goes: an empty table at the next restart
                for k in (sorted(live) if everything else rng.sample(sorted(live), min(len(live), rng.randrange(4, 20)))):
                    # (a point predicate on a hash-indexed column is planned as an index RANGE scan, which the hash index
                    #  does not implement: the OR form goes through the sequential scan)
                    r2 = db.sql(("DELETE FROM sp WHERE a = %d OR a = %d;" % (k, k)) if kind == "h" else ("DELETE FROM sp WHERE b >= 0 AND a = %d;" % k))
                    if not r2.startswith("ok"):
                        fails.append(("# session:\n" + "\n".join(db.log[-80:]), "DELETE failed: " + r2)); break
                    live.discard(k)
                desc.append("deletes")
            elif r < 0.75:
                db.cmd("checkpoint"); desc.append("checkpoint")
            else:
                clean = rng.random() < (0.6 if kind == "u" else 0.3)
                db.cmd("close" if clean else "crash", timeout=60)
                if not clean and rng.random() < 0.5:
                    db.restart_process()
                if not db.open().startswith("ok"):
                    fails.append(("# session:\n" + "\n".join(db.log[-80:]), "restart (%s) fails: %s" % ("clean" if clean else "crash", db.dead)))
                    break
                desc.append("restart(%s)" % ("clean" if clean else "crash"))
            if db.dead:
                fails.append(("# session:\n" + "\n".join(db.log[-80:]), "engine stopped answering: " + db.dead)); break
            check("after " + desc[-1])
            if fails:
                break
        res.note_case("special|%s|%s" % (kind, " ".join(desc)), any(d.startswith("restart") for d in desc))
    finally:
        db.destroy()
    return fails


def run(res, replay=None):
    res.rule = ("histories of 8-20 steps over 1-4 tables (SQL DDL: skip-list index on every column; catalog API: none / skip list / B-tree per column): inserts with many duplicate keys, "
                "key-changing and growing (relocating) updates, deletes, explicit transactions that commit or abort, clean and crash restarts; at every third step and at the end "
                "(no transaction open) the raw entries of every index are compared with the heap and index-path answers with scan-path answers and the reference; "
                "non-trivial = distinct history containing an aborted transaction or a restart")
    res.trusted = COMMON_TRUSTED + ["python workload mirror (lib/workload.py)", "raw index entries are read through Index.GetRangeScanIterator(nil, nil)"]
    res.assumptions = ["unique skip-list and hash indexes (catalog API only) are exercised with distinct keys, inserts, deletes, checkpoints and restarts (special_index_history); their containers are C17's subject",
                       "B-tree tables see clean restarts only (crash followed by clean restart is the listed finding F-BTREE-RESTART)"]
    go_ok = standard_build(res)
    if not go_ok:
        return
    rng = random.Random(res.seed)
    # correspondence of the row-level engine model (Model/Engine.v, theorems of Props/C07.v) with the engine
    import enginecorr
    enginecorr.run_corr(res, random.Random(res.seed * 7919 + 7), 100 if res.tier == "quick" else 1500, focus="index")
    c09.btree_probe(res)
    import btreeprobe
    res.oracle_failures.extend(btreeprobe.probe(res, sql=True))
    for i in range(8 if res.tier == "quick" else 80):
        for d, w in special_index_history(rng, res, "uh"[i % 2]):
            if len(res.oracle_failures) < 5:
                res.oracle_failures.append((d, w))
    n = 24 if res.tier == "quick" else 250
    for i in range(n):
        btree = (i % 3 == 0)
        for d, w in history(rng, res, "nsb" if btree else "ns", crash_ok=not btree):
            if len(res.oracle_failures) < 5:
                res.oracle_failures.append((d, w))
