"""C14 — statements release every buffer pin they take.  The lifting theorems
(coq/Props/C14.v) turn "each statement is balanced" into "a workload of any
length never exhausts the pool"; that each statement kind / plan shape is
balanced is observed here on the real engine: the pin vector (page id, pin
count) is read before and after every statement."""
import random
from vlib import *
from dbsession import DB


def setup(db, rng):
    r = []
    r.append(db.sql("CREATE TABLE t1(a int, b varchar(255), c int);"))
    r.append(db.sql("CREATE TABLE t2(x int, y varchar(255));"))
    r.append(db.cmd("mktable t3 p:i:n,q:s:n"))
    r.append(db.cmd("mktable t4 k:i:b,v:i:n"))
    # two tables whose rows fill several temporary pages of a hash join, whichever side the planner builds from
    r.append(db.cmd("mktable t6 a:i:n,b:i:n")); r.append(db.cmd("mktable t7 c:i:n,d:i:n"))
    for i in range(900):
        r.append(db.cmd("rawinsert t6 i:%d i:%d" % (i, i * 3)))
        r.append(db.cmd("rawinsert t7 i:%d i:%d" % (i + 450, i * 5)))
    # join keys that are NULL in every row (n1) and in some rows (n2): a hash join's build side may hash nothing at all
    r.append(db.cmd("mktable n1 a:i:n,b:i:n")); r.append(db.cmd("mktable n2 a:i:n,b:i:n"))
    for i in range(12):
        r.append(db.cmd("rawinsert n1 n i:%d" % i))
        r.append(db.cmd("rawinsert n2 %s i:%d" % ("n" if i % 3 else "i:%d" % (i % 7), i)))
    for i in range(40):
        r.append(db.sql("INSERT INTO t1(a,b,c) VALUES (%d, '%s', %d);" % (i % 13, "r%d" % i, i)))
        r.append(db.sql("INSERT INTO t2(x,y) VALUES (%d, '%s');" % (i % 7, "s%d" % i)))
        r.append(db.sql("INSERT INTO t3(p,q) VALUES (%d, '%s');" % (i % 5, "u%d" % i)))
        r.append(db.sql("INSERT INTO t4(k,v) VALUES (%d, %d);" % (i % 11, i)))
    return all(x.startswith("ok") for x in r)


def statements(rng, big):
    pad = "z" * 180
    st = [
        "SELECT a,b FROM t1 WHERE a = %d;" % rng.randrange(14),
        "SELECT c FROM t1 WHERE a >= %d AND a <= %d;" % (rng.randrange(5), 5 + rng.randrange(9)),
        "SELECT b FROM t1 WHERE a = %d OR c = %d;" % (rng.randrange(14), rng.randrange(40)),
        "SELECT a FROM t1 WHERE b = 'r%d';" % rng.randrange(45),
        "SELECT p FROM t3 WHERE q = 'u%d';" % rng.randrange(45),
        "SELECT v FROM t4 WHERE k = %d;" % rng.randrange(12),
        "SELECT v FROM t4 WHERE k >= %d AND k <= %d;" % (rng.randrange(5), 5 + rng.randrange(7)),
        "SELECT t1.b, t2.y FROM t1 JOIN t2 ON t1.a = t2.x WHERE t1.c >= %d;" % rng.randrange(40),
        "SELECT t1.b, t2.y FROM t1 JOIN t2 ON t1.a = t2.x;",
        "SELECT t3.q, t1.b FROM t3 JOIN t1 ON t3.p = t1.a WHERE t1.a <= %d;" % rng.randrange(14),
        "SELECT t1.c, t3.q FROM t1 JOIN t3 ON t1.a = t3.p;",
        "SELECT t3.q, t4.v FROM t3 JOIN t4 ON t3.p = t4.k WHERE t4.v >= %d;" % rng.randrange(40),
        "SELECT t1.a, t2.x FROM t1, t2 WHERE t1.c = %d;" % rng.randrange(40),
        "SELECT t6.b, t7.d FROM t6 JOIN t7 ON t6.a = t7.c;",
        "SELECT t7.d, t6.b FROM t7 JOIN t6 ON t7.c = t6.a WHERE t6.b >= %d;" % rng.randrange(2000),
        "SELECT n1.b, t2.y FROM n1 JOIN t2 ON n1.a = t2.x;",
        "SELECT t2.y, n1.b FROM t2 JOIN n1 ON t2.x = n1.a;",
        "SELECT n2.b, t2.y FROM n2 JOIN t2 ON n2.a = t2.x;",
        "SELECT n1.b, n2.b FROM n1 JOIN n2 ON n1.a = n2.a;",
        "SELECT n2.b, t3.q FROM n2 JOIN t3 ON n2.a = t3.p WHERE n2.b >= %d;" % rng.randrange(12),
        "INSERT INTO t1(a,b,c) VALUES (%d, '%s', %d);" % (rng.randrange(14), "n" + (pad if big else ""), 100 + rng.randrange(100)),
        "INSERT INTO t3(p,q) VALUES (%d, '%s');" % (rng.randrange(6), "m" + (pad if big else "")),
        "UPDATE t1 SET b = '%s' WHERE c = %d;" % ("g" + pad, rng.randrange(40)),          # grows the row: may relocate it
        "UPDATE t1 SET a = %d WHERE c = %d;" % (rng.randrange(14), rng.randrange(40)),     # key-changing
        "UPDATE t3 SET q = '%s' WHERE p = %d;" % ("w" + pad, rng.randrange(6)),
        "UPDATE t4 SET k = %d WHERE v = %d;" % (rng.randrange(12), rng.randrange(40)),
        "DELETE FROM t1 WHERE c = %d;" % rng.randrange(140),
        "DELETE FROM t2 WHERE x = %d AND y = 's%d';" % (rng.randrange(7), rng.randrange(40)),
        "DELETE FROM t3 WHERE p = %d AND q = 'u%d';" % (rng.randrange(5), rng.randrange(40)),
        "SELECT zzz FROM t1 WHERE a = 1;",                       # fails at planning
        "SELECT a FROM nosuch WHERE a = 1;",
    ]
    return st


def run(res, replay=None):
    res.rule = ("workloads over 4 tables (skip-list indexed via SQL DDL, un-indexed and B-tree indexed via the catalog API), pool of 100..300 frames: point/range/sequential scans, "
                "hash / index / nested-loop joins, inserts (incl. rows that allocate pages), growing updates that relocate rows, key-changing updates, deletes, statements that fail at planning, "
                "and statements aborted by a lock conflict with an open transaction; pin vector compared before/after every statement; one join repeated 150 times in a 40-frame pool; "
                "non-trivial = distinct (statement kind, plan shape, outcome) class")
    res.trusted = COMMON_TRUSTED + ["pin vector read through BufferPoolManager.GetPages()", "that EVERY call site pairs its pins is sampled per plan shape, not proved (DESIGN.md §5 C14)"]
    res.assumptions = ["balance of each statement is an observation on the implementation; the theorems lift it to workloads of any length"]
    go_ok = standard_build(res)
    if not go_ok:
        return
    rng = random.Random(res.seed)
    # the table-heap model (Model/Heap.v, theorems of Props/C14Heap.v) against the real TableHeap: rid chosen by every insert, in-place /
    # moved updates, ordered scans, page chain and the pool's pin vector before/after every call (lib/heapcorr.py, verifharness c14h)
    import heapcorr
    heapcorr.run_corr(res, random.Random(res.seed * 7919 + 14), 60 if res.tier == "quick" else 800)
    classes = {}
    nrounds = 2 if res.tier == "quick" else 12
    for rnd in range(nrounds):
        db = DB(mem_kb=rng.choice([400, 800, 1200]))
        try:
            if not db.open().startswith("ok") or not setup(db, rng):
                res.oracle_failures.append(("\n".join(db.log[-50:]), "set-up statements failed: %s" % db.dead))
                continue
            db.cmd("stats") if rnd % 2 else None
            # an open transaction holding locks, to provoke conflict aborts
            db.cmd("begin holder")
            db.cmd("tsql holder UPDATE t1 SET c = 999 WHERE c = 20;")
            for k in range(3 if res.tier == "quick" else 6):
                for sql in statements(rng, big=(k % 2 == 1)):
                    shape = db.cmd("plan " + sql)
                    before = db.cmd("pins")
                    out = db.sql(sql)
                    after = db.cmd("pins")
                    outcome = out.split(":")[0]
                    cls = "%s|%s|%s" % (sql.split()[0], shape[3:] if shape.startswith("ok:") else shape, outcome)
                    classes[cls] = classes.get(cls, 0) + 1
                    res.note_case(cls, True)
                    if db.dead:
                        res.oracle_failures.append(("\n".join(db.log[-30:]), "engine stopped answering: " + db.dead))
                        break
                    if before != after and len(res.oracle_failures) < 5:
                        res.oracle_failures.append(("# session:\n" + "\n".join(db.log[-4000:]),
                                                    "statement leaves frames pinned: %s (plan %s, outcome %s): pins before %s | after %s" % (sql[:120], shape, outcome, before, after)))
                if db.dead:
                    break
            if not db.dead:
                db.cmd("abort holder")
            # explicit transactions that END BY AN ABORT (or a commit): the rollback of every kind of change must give back its pins too.
            # rows of t5 are wide so that a shrinking update relocates the row within its page and a growing one moves it to another page
            if not db.dead:
                db.cmd("mktable t5 k:i:n,w:s:n")
                for i in range(9):
                    db.cmd("rawinsert t5 i:%d s:%s" % (i, (b"L" * (1000 - i)).hex()))
                shapes = [("shrinking update", ["UPDATE t5 SET w = 'short' WHERE k = %d;" % rng.randrange(8)]),
                          ("shrinking update of a row of the last page (the new copy stays in the page)", ["UPDATE t5 SET w = 'short' WHERE k = 8;"]),
                          ("growing update", ["UPDATE t5 SET w = '%s' WHERE k = %d;" % ("G" * 1800, rng.randrange(9))]),
                          ("shrink then grow", ["UPDATE t5 SET w = 's' WHERE k = 2;", "UPDATE t5 SET w = '%s' WHERE k = 2;" % ("H" * 1500)]),
                          ("delete", ["DELETE FROM t5 WHERE k = %d;" % rng.randrange(9)]),
                          ("insert", ["INSERT INTO t5(k,w) VALUES (77, '%s');" % ("I" * 900)]),
                          ("indexed table: key change + grow", ["UPDATE t1 SET a = 3, b = '%s' WHERE c = %d;" % ("g" * 200, 5 + rng.randrange(10))]),
                          ("delete all then insert", ["DELETE FROM t5 WHERE k >= 0 OR k >= 0;", "INSERT INTO t5(k,w) VALUES (78, 'x');"])]
                for what, stmts in shapes:
                    for end in ("abort", "commit") if what != "delete all then insert" else ("abort",):
                        before = db.cmd("pins")
                        db.cmd("begin e")
                        outs = [db.cmd("tsql e " + s) for s in stmts]
                        db.cmd(end + " e")
                        after = db.cmd("pins")
                        cls = "txn|%s|%s|%s" % (what, end, ",".join(o.split(":")[0] for o in outs))
                        classes[cls] = classes.get(cls, 0) + 1
                        res.note_case(cls, True)
                        if db.dead:
                            res.oracle_failures.append(("\n".join(db.log[-30:]), "engine stopped answering: " + db.dead)); break
                        if before != after and len(res.oracle_failures) < 5:
                            res.oracle_failures.append(("# session:\n" + "\n".join(db.log[-4000:]),
                                                        "a transaction (%s: %s) ended by %s leaves frames pinned: pins before %s | after %s" % (what, " ".join(s[:60] for s in stmts), end, before, after)))
                    if db.dead:
                        break
        finally:
            db.destroy()
    # a workload "of any length" sample: the same hash join 150 times in a 40-frame pool (fixed defect F-JOIN-PIN)
    db = DB(mem_kb=160)
    try:
        ok = db.open().startswith("ok")
        ok = ok and db.sql("CREATE TABLE j1(a int, b int);").startswith("ok") and db.sql("CREATE TABLE j2(x int, y int);").startswith("ok")
        for i in range(6):
            db.sql("INSERT INTO j1(a,b) VALUES (%d, %d);" % (i, i)); db.sql("INSERT INTO j2(x,y) VALUES (%d, %d);" % (i, i))
        shape = db.cmd("plan SELECT j1.b, j2.y FROM j1 JOIN j2 ON j1.a = j2.x;")
        base = db.cmd("pins")
        for i in range(150):
            out = db.sql("SELECT j1.b, j2.y FROM j1 JOIN j2 ON j1.a = j2.x;")
            res.evaluations += 1
            if not out.startswith("ok:") or db.dead:
                res.oracle_failures.append(("# session:\n" + "\n".join(db.log[-20:]), "join number %d in a 40-frame pool fails (%s, plan %s): the pool is exhausted by leaked pins (F-JOIN-PIN)" % (i + 1, out[:80], shape)))
                break
        else:
            if db.cmd("pins") != base:
                res.oracle_failures.append(("# session:\n" + "\n".join(db.log[-20:]), "pin vector drifted over 150 joins"))
        # build side larger than one temporary page (fixed defect F-HJ-TMPPAGE: the statement panicked and kept a pin)
        db.cmd("mktable j3 a:i:n,b:s:n")
        for i in range(260):
            db.cmd("rawinsert j3 i:%d s:%s" % (i % 6, (b"w" * (20 + i % 150)).hex()))
        base = db.cmd("pins")
        for sql in ("SELECT j3.b, j2.y FROM j3 JOIN j2 ON j3.a = j2.x;", "SELECT j2.y, j3.b FROM j2 JOIN j3 ON j2.x = j3.a WHERE j3.a >= 2;"):
            shape = db.cmd("plan " + sql)
            out = db.sql(sql)
            res.evaluations += 1
            after = db.cmd("pins")
            if not out.startswith("ok:") or after != base:
                res.oracle_failures.append(("# session:\n" + "\n".join(l[:200] for l in db.log[-12:]), "join with a build side of several temporary pages: outcome %s, plan %s, pins before %s | after %s" % (out[:60], shape, base, after)))
                break
    finally:
        db.destroy()
    # tables whose first heap pages have become empty (every row deleted) and completely empty tables: the scans walk over empty pages
    db = DB(mem_kb=400)
    try:
        if db.open().startswith("ok"):
            db.cmd("mktable e1 k:i:n,v:s:n"); db.sql("CREATE TABLE e2(k int, v varchar(255));")
            for i in range(70):
                db.cmd("rawinsert e1 i:%d s:%s" % (i, (b"e" * 230).hex()))
                db.cmd("rawinsert e2 i:%d s:%s" % (i, (b"f" * 230).hex()))
            stmts = ["DELETE FROM e1 WHERE k < 40;", "SELECT k FROM e1 WHERE k = 50 OR k = 51;", "SELECT k FROM e1 WHERE k >= 0 OR k >= 0;", "UPDATE e1 SET v = 'short' WHERE k = 60 OR k = 60;",
                     "DELETE FROM e2 WHERE k < 35 OR k < 35;", "SELECT k FROM e2 WHERE k = 50;", "SELECT k FROM e2 WHERE k >= 0 OR k >= 0;", "SELECT e1.k, e2.k FROM e1 JOIN e2 ON e1.k = e2.k;",
                     "INSERT INTO e1(k,v) VALUES (500, 'x');", "DELETE FROM e1 WHERE k >= 0 OR k >= 0;", "SELECT k FROM e1 WHERE k >= 0 OR k >= 0;", "SELECT e1.k, e2.k FROM e1 JOIN e2 ON e1.k = e2.k;",
                     "INSERT INTO e1(k,v) VALUES (501, 'y');", "SELECT k FROM e1 WHERE k = 501 OR k = 501;", "DELETE FROM e2 WHERE k >= 0;", "SELECT k FROM e2 WHERE k >= 0 OR k >= 0;", "UPDATE e2 SET v = 'z' WHERE k = 3;"]
            for sql in stmts:
                shape = db.cmd("plan " + sql)
                before = db.cmd("pins")
                out = db.sql(sql)
                after = db.cmd("pins")
                res.evaluations += 1
                cls = "%s|%s|%s|empty-pages" % (sql.split()[0], shape[3:] if shape.startswith("ok:") else shape, out.split(":")[0])
                classes[cls] = classes.get(cls, 0) + 1
                res.note_case(cls, True)
                if db.dead or before != after:
                    res.oracle_failures.append(("# session:\n" + "\n".join(l[:100] for l in db.log[-45:]), "statement on a table with emptied pages leaves frames pinned: %s (plan %s, outcome %s): pins before %s | after %s" % (sql, shape, out[:40] if not db.dead else db.dead, before, after)))
                    break
    finally:
        db.destroy()
    res.distribution = {"classes": classes}
    res.samples = sorted(classes.keys())[:8]
