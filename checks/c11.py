"""C11 — join answers equal the naive evaluation whatever plan is chosen.
Theorems in coq/Props/C11.v; correspondence: two- and three-table queries over
random tables through SQL text, with the table statistics refreshed at different
moments so that every join algorithm and both orientations get chosen (the plan
shape of every query is recorded), answers compared as multisets with the
extracted reference (cross product + filter + projection)."""
import random
from vlib import *
from dbsession import DB, Ref, Proc, canon_rows
import re
from sqlgen import *


def erase_shape(plan):
    """the engine's plan string with every maximal join-free subtree replaced by Scan (the model's jshape_of notation)"""
    def parse(s, i):
        j = i
        while j < len(s) and (s[j].isalnum() or s[j] == "_"):
            j += 1
        name, kids = s[i:j], []
        if j < len(s) and s[j] == "(":
            j += 1
            while True:
                k, j = parse(s, j)
                kids.append(k)
                if s[j] == ",":
                    j += 1
                else:
                    break
            j += 1
        return (name, kids), j
    def has_join(t):
        return t[0] in ("HashJoin", "IndexJoin", "NestedLoopJoin") or any(has_join(k) for k in t[1])
    def show(t):
        if not has_join(t):
            return "Scan"
        return t[0] + ("(" + ",".join(show(k) for k in t[1]) + ")" if t[1] else "")
    try:
        t, _ = parse(plan, 0)
        return show(t)
    except Exception:
        return plan


def mk(db, ref, rng, name, ncols, nrows, api, jm=None):
    types = ["i"] + [rng.choice("iis") for _ in range(ncols - 1)]
    if nrows >= 100:
        types[-1] = "s"       # wide rows on the build side of a hash join
    names = ["%s%d" % (name[-1], i) for i in range(ncols)]      # distinct column names across tables: a0,a1 / b0,b1 / c0..
    if api:
        kinds = [rng.choice("ns") for _ in types]
        r = db.cmd("mktable %s %s" % (name, ",".join("%s:%s:%s" % (n, t, k) for n, t, k in zip(names, types, kinds))))
    else:
        tn = {"i": "int", "f": "float", "s": "varchar(255)"}
        kinds = ["s"] * ncols
        r = db.sql("CREATE TABLE %s(%s);" % (name, ", ".join("%s %s" % (n, tn[t]) for n, t in zip(names, types))))
    if not r.startswith("ok"):
        return None
    ref.cmd("T %s %d" % (name, ncols))
    if jm is not None:
        jm.ask("T %s %s %s" % (name, ",".join(types), ",".join(kinds)), 30)
    # besides the shared values every table has a few values of its own: join keys without a partner on the other side are common
    ipool = [0, 1, 2, 3, 4, 5, 7] + rng.sample(range(8, 20), 3)
    for _ in range(nrows):
        vals = [Val("i", rng.choice(ipool)) if t == "i" else Val("s", rng.choice([b"a", b"b", b"ab", b""]) if nrows < 100 else rng.choice([b"a", b"ab"]) + b"x" * rng.randrange(0, 70)) for t in types]
        if rng.random() < 0.1 and len(types) > 1 and types[-1] == "s" and kinds[-1] == "n":
            vals[-1] = Val("n")         # NULLs in non-key, non-indexed columns (NULL join keys: see the probe for F-NULL-JOIN)
        if all(v.kind != "n" for v in vals) and nrows < 100:
            db.sql("INSERT INTO %s(%s) VALUES (%s);" % (name, ",".join(names), ", ".join(v.sql() for v in vals)))
        else:
            db.cmd("rawinsert %s %s" % (name, " ".join(v.tok() for v in vals)))
        ref.cmd("R %s %s" % (name, ",".join(v.tok() for v in vals)))
        if jm is not None:
            jm.ask("R %s %s" % (name, ",".join(v.tok() for v in vals)), 30)
    return types, names, kinds


def run(res, replay=None):
    res.rule = ("2-3 tables (SQL DDL with skip-list indexes, or catalog API with and without indexes) of 0-25 rows (every sixth schema: two tables of 250-400 rows, so that the hash join's build side spans several temporary pages) with duplicate and missing join keys, NULL keys in non-indexed columns and empty tables; "
                "queries 'SELECT cols FROM t1 JOIN t2 ON t1.x = t2.y [WHERE filters]' and 'FROM t1, t2[, t3] WHERE equalities AND filters', select lists in random order; statistics refreshed "
                "at random moments (stale, empty, exact) so that hash / index / nested-loop joins in both orientations are chosen; answers compared as multisets with the reference; "
                "non-trivial = distinct (query, plan shape)")
    res.trusted = COMMON_TRUSTED + ["python rendering of the query as SQL and as the reference's join predicate"]
    res.assumptions = ["the chained form 't1 JOIN t2 ON .. JOIN t3 ON ..' is the listed finding F-JOIN-CHAIN; three-table queries use the comma form",
                       "filters are conjunctions (a join query with OR goes through a different planner and is outside the property's 'conjunctive filter')"]
    go_ok = standard_build(res)
    if not go_ok:
        return
    rng = random.Random(res.seed)
    shapes = {}
    nschema = 12 if res.tier == "quick" else 120
    for si in range(nschema):
        db, ref = DB(mem_kb=rng.choice([400, 1200])), Ref()
        jm = Proc([os.path.join(BUILD, "c11_driver")])      # extracted join-planning model (Model/Join.v)
        try:
            if not db.open().startswith("ok"):
                res.oracle_failures.append(("open", "database does not start")); continue
            ntab = rng.choice([2, 2, 3])
            tabs = {}
            # every sixth schema has two tables of 250-400 rows: the hash join's build side then spans several temporary pages
            big = si % 6 == 1
            if big:
                ntab = 2
            for i in range(ntab):
                name = "t" + "abc"[i]
                if rng.random() < 0.3:
                    db.cmd("stats")
                nrows = rng.choice([250, 400]) if big else rng.choice([0, 1, 5, 12, 25])
                m = mk(db, ref, rng, name, rng.randrange(2, 4), nrows, api=rng.random() < 0.5, jm=jm)
                if m is None:
                    break
                tabs[name] = m
            if len(tabs) < ntab:
                res.oracle_failures.append(("\n".join(db.log[-20:]), "table creation failed")); continue
            if rng.random() < 0.6:
                db.cmd("stats")
            names = list(tabs)
            offs, o = {}, 0
            for n in names:
                offs[n] = o; o += len(tabs[n][0])
            for q in range((25 if res.tier == "quick" else 40) if not big else 8):
                use = names if (ntab == 2 or rng.random() < 0.5) else rng.sample(names, 2)
                use = sorted(use, key=lambda x: rng.random())
                # equality join conditions chaining the tables on integer columns
                conds, jr = [], []
                for i in range(len(use) - 1):
                    l, r = use[i], use[i + 1]
                    lc = rng.choice([c for c, t in enumerate(tabs[l][0]) if t == "i"])
                    rc = rng.choice([c for c, t in enumerate(tabs[r][0]) if t == "i"])
                    conds.append("%s.%s = %s.%s" % (l, tabs[l][1][lc], r, tabs[r][1][rc]))
                    jr.append((l, lc, r, rc))
                if rng.random() < 0.3:
                    # a second (third) equality between tables that are linked already: the join keeps one as its key, the others must
                    # still be applied
                    for _ in range(rng.choice([1, 1, 2])):
                        l, _, r, _ = rng.choice(jr)
                        if l == r:
                            continue
                        lc = rng.choice([c for c, t in enumerate(tabs[l][0]) if t == "i"])
                        rc = rng.choice([c for c, t in enumerate(tabs[r][0]) if t == "i"])
                        conds.append("%s.%s = %s.%s" % (l, tabs[l][1][lc], r, tabs[r][1][rc]))
                        jr.append((l, lc, r, rc))
                if rng.random() < 0.25:
                    # a comparison of two columns of one table (applied as a filter of that table's scan)
                    tn = rng.choice(use)
                    ic = [c for c, t in enumerate(tabs[tn][0]) if t == "i"]
                    if len(ic) >= 2:
                        c1, c2 = rng.sample(ic, 2)
                        conds.append("%s.%s = %s.%s" % (tn, tabs[tn][1][c1], tn, tabs[tn][1][c2]))
                        jr.append((tn, c1, tn, c2))
                filt = []
                for _ in range(rng.choice([0, 0, 1, 2])):
                    tn = rng.choice(use)
                    c = rng.randrange(len(tabs[tn][0]))
                    v = Val("i", rng.choice([0, 1, 2, 3, 5])) if tabs[tn][0][c] == "i" else Val("s", rng.choice([b"a", b"ab"]))
                    op = rng.choice(OPS)
                    filt.append((tn, c, op, v))
                sel = []
                for _ in range(rng.randrange(1, 4)):
                    tn = rng.choice(use); sel.append((tn, rng.randrange(len(tabs[tn][0]))))
                selsql = ", ".join("%s.%s" % (tn, tabs[tn][1][c]) for tn, c in sel)
                # a filter is written column-first or (30%) constant-first with the mirrored operator
                fsql = [("%s.%s %s %s" % (tn, tabs[tn][1][c], op[1], v.sql())) if rng.random() < 0.7 else
                        ("%s %s %s.%s" % (v.sql(), dict(OPS)[MIRROR[op[0]]], tn, tabs[tn][1][c])) for tn, c, op, v in filt]
                if len(use) == 2 and rng.random() < 0.5:
                    sql = "SELECT %s FROM %s JOIN %s ON %s" % (selsql, use[0], use[1], conds[0])
                    if conds[1:] + fsql:
                        sql += " WHERE " + " AND ".join(conds[1:] + fsql)
                else:
                    sql = "SELECT %s FROM %s WHERE %s" % (selsql, ", ".join(use), " AND ".join(conds + fsql))
                sql += ";"
                # reference: tables in the order `use`, columns of the concatenated row
                roff, o2 = {}, 0
                for n in use:
                    roff[n] = o2; o2 += len(tabs[n][0])
                toks = []
                for (l, lc, r, rc) in jr:
                    toks.append("e%d.%d" % (roff[l] + lc, roff[r] + rc))
                for tn, c, op, v in filt:
                    toks.append("c%d %s %s" % (roff[tn] + c, op[0], v.tok()))
                rpn = " ".join(toks) + " and" * (len(toks) - 1)
                want = ref.cmd("J %s %s %s" % (",".join(use), ",".join(str(roff[tn] + c) for tn, c in sel), rpn))
                if rng.random() < 0.15:
                    db.cmd("stats")
                shape = db.cmd("plan " + sql)
                got = canon_rows(db.sql(sql))
                key = shape[3:] if shape.startswith("ok:") else shape
                shapes[key] = shapes.get(key, 0) + 1
                res.note_case(sql + "|" + key, True)
                qcmd = ("Q1" if big else "Q") + " %s %s %s" % (",".join(use), ",".join(str(roff[tn] + c) for tn, c in sel), rpn)
                ma = jm.ask(qcmd, 120)
                res.extra["join_model_queries"] = res.extra.get("join_model_queries", 0) + 1
                if ma is None or not ma.startswith("ok "):
                    res.broken.append("join model driver failed on %r: %s" % (qcmd, ma))
                    break
                mf = dict(x.split("=", 1) for x in ma.split()[1:] if "=" in x)
                mref = "ok:" + mf.get("ref", "")
                if mref != want and len(res.mismatches) < 5:
                    res.mismatches.append(("# driver input: " + qcmd, "the join model's reference answer differs from the SQL reference semantics: %s | %s" % (mref[:200], want[:200])))
                if mf.get("hyps") == "1" and not big:
                    res.extra["join_model_candidates"] = res.extra.get("join_model_candidates", 0) + int(mf.get("ncand", "0"))
                    if mf.get("agree") != "1" and len(res.mismatches) < 5:
                        res.mismatches.append(("# driver input: " + qcmd, "the model's candidate plans do not all return the reference answer although the theorem's hypotheses hold (join_hyps_ok): " + ma[:300]))
                    if shape.startswith("ok:") and erase_shape(key) not in mf.get("shapes", "").split(";") and len(res.mismatches) < 5:
                        res.mismatches.append(("# session:\n" + "\n".join(db.log[-60:]) + "\n# driver input: " + qcmd, "the engine's plan %s (join shape %s) is not among the model's candidate shapes %s" % (key, erase_shape(key), mf.get("shapes", "")[:400])))
                    if got != mref and got == want and len(res.mismatches) < 5:
                        pass
                if got != want and len(res.oracle_failures) < 5:
                    res.oracle_failures.append(("# session:\n" + "\n".join(db.log[-4000:]), "join answer differs from the naive evaluation (plan %s): %s => engine %s | reference %s" % (key, sql, got[:300], want[:300])))
                if db.dead:
                    res.oracle_failures.append(("# session:\n" + "\n".join(db.log[-100:]), "engine stopped answering: " + db.dead)); break
            if len(res.samples) < 3:
                res.samples.append(sql + " -> " + key)
        finally:
            db.destroy(); ref.close(); jm.close()
    # join keys that collide in the hash join's table (two different integers with the same 32-bit murmur3 hash): the theorem holds
    # for EVERY hash function because the executor re-checks the key of every candidate in a bucket
    db = DB()
    try:
        if db.open().startswith("ok"):
            hc = db.cmd("hashcoll", timeout=120)
            if hc.startswith("ok:"):
                x1, x2 = (int(x) for x in hc[3:].split(","))
                db.cmd("mktable ha a0:i:n,a1:i:n"); db.cmd("mktable hb b0:i:n,b1:i:n")
                for (a, b) in ((x1, 1), (5, 2), (x2, 3)):
                    db.cmd("rawinsert ha i:%d i:%d" % (a, b))
                for (a, b) in ((x2, 10), (5, 20), (x1, 30), (x2, 40)):
                    db.cmd("rawinsert hb i:%d i:%d" % (a, b))
                for sql in ("SELECT ha.a1, hb.b1 FROM ha, hb WHERE ha.a0 = hb.b0;", "SELECT hb.b1, ha.a1 FROM hb JOIN ha ON hb.b0 = ha.a0;"):
                    shape = db.cmd("plan " + sql)
                    got = canon_rows(db.sql(sql))
                    pairs = sorted([(1, 30), (2, 20), (3, 10), (3, 40)]) if sql.startswith("SELECT ha") else sorted([(30, 1), (20, 2), (10, 3), (40, 3)])
                    want = "ok:" + ";".join(sorted("i:%d,i:%d" % p for p in pairs))
                    res.note_case("hash-collision|" + sql, True)
                    if got != want:
                        res.oracle_failures.append(("# session:\n" + "\n".join(db.log[-14:]), "join keys %d and %d have the same 32-bit hash: the join (plan %s) answers %s, the matching combinations are %s" % (x1, x2, shape, got[:200], want)))
                        break
            else:
                res.broken.append("no colliding pair of join keys found: " + hc)
    finally:
        db.destroy()
    import pressure
    for d, w in pressure.tmp_page_fill_join(res):
        if len(res.oracle_failures) < 5:
            res.oracle_failures.append((d, w))
    # the temporary tuple page of the hash join: byte-level model (Model/TmpPage.v, Props/C11TmpPage.v) against TmpTuplePage (verifharness tmppage)
    import tmppagecorr
    tmppagecorr.run_corr(res, random.Random(res.seed * 7919 + 11), 120 if res.tier == "quick" else 1500)
    for d, w in pressure.wide_joined_rows(res, repeats=10 if res.tier == "quick" else 40):
        if len(res.oracle_failures) < 5:
            res.oracle_failures.append((d, w))
    for d, w in pressure.tiny_pool_join(res, rng, 12):
        if len(res.oracle_failures) < 5:
            res.oracle_failures.append((d, w))
    # listed finding: NULL join keys are matched by the nested loop join (NULL = NULL is true in a Selection) but not by hash / index joins
    db = DB()
    try:
        if db.open().startswith("ok"):
            db.cmd("mktable na a0:i:n,a1:i:n"); db.cmd("mktable nb b0:i:n,b1:i:n")
            db.cmd("rawinsert na n i:1"); db.cmd("rawinsert nb n i:2"); db.cmd("rawinsert na i:3 i:4"); db.cmd("rawinsert nb i:3 i:5")
            a1 = canon_rows(db.sql("SELECT na.a1, nb.b1 FROM na, nb WHERE na.a0 = nb.b0;"))
            a2 = canon_rows(db.sql("SELECT na.a1, nb.b1 FROM na, nb WHERE na.a0 = nb.b0 AND na.a1 = nb.b1 OR na.a0 = nb.b0;")) if False else a1
            a3 = canon_rows(db.sql("SELECT na.a1, nb.b1 FROM na, nb WHERE na.a0 = nb.b0 AND na.a0 = nb.b0;"))
            if a1 != "ok:i:4,i:5" or a3 != "ok:i:4,i:5":
                res.known_hits["F-NULL-JOIN"] = "rows whose join key is NULL are paired by some join plans (NULL = NULL is true in a Selection) and not by others: %s / %s, reference i:4,i:5" % (a1[:80], a3[:80])
    finally:
        db.destroy()
    # listed finding: chained JOIN ... ON ... JOIN ... ON
    db = DB()
    try:
        if db.open().startswith("ok"):
            for t, c in (("ja", "a"), ("jb", "b"), ("jc", "c")):
                db.sql("CREATE TABLE %s(%s0 int, %s1 int);" % (t, c, c))
                for i in range(3):
                    db.sql("INSERT INTO %s(%s0,%s1) VALUES (%d, %d);" % (t, c, c, i, i + 10))
            got = canon_rows(db.sql("SELECT ja.a1, jc.c1 FROM ja JOIN jb ON ja.a0 = jb.b0 JOIN jc ON jb.b0 = jc.c0;"))
            if got != "ok:i:10,i:10;i:11,i:11;i:12,i:12":
                res.known_hits["F-JOIN-CHAIN"] = "the chained form 't1 JOIN t2 ON .. JOIN t3 ON ..' does not apply all ON conditions (3 matching combinations expected): " + got[:200]
    finally:
        db.destroy()
    res.distribution = {"plan_shapes": shapes}
