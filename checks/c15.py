"""C15 — slotted page: theorems in coq/Props/C15.v over coq/Model/Page.v;
correspondence on a real TablePage (outcome, free-space pointer, slot array and
the bytes of the tuple area after every operation)."""
import itertools, random, re
from vlib import *

SIZES = [1, 2, 7, 8, 9, 40, 300, 1000, 2000, 4063, 4064, 4065]


def gen_seq(rng, n, style):
    """style: mixed | full (drive the page to full) | churn (free and reuse slots)"""
    ops = []
    nslots = 0
    seed = rng.randrange(1, 10**6)
    for k in range(n):
        seed += 1
        r = rng.random()
        tgt = lambda: rng.randrange(0, max(1, nslots + 1)) if rng.random() < 0.9 else rng.randrange(0, 300)
        if style == "full":
            if r < 0.7:
                ops.append("I %d %d" % (rng.choice([1, 7, 8, 40, 300, 1000]), seed)); nslots += 1
                continue
        if r < 0.30:
            sz = rng.choice(SIZES) if rng.random() < 0.3 else rng.choice([1, 2, 7, 8, 9, 20, 40, 100])
            if rng.random() < 0.02:
                sz = 0
            if rng.random() < 0.3:
                ops.append("J %d %d %d" % (tgt(), sz, seed)); nslots += 1     # insert at the logged slot (redo/undo)
            else:
                ops.append("I %d %d" % (sz, seed)); nslots += 1
        elif r < 0.55:
            sz = rng.choice([1, 2, 7, 8, 9, 20, 40, 100, 300, 1000, 3000])
            ops.append("U %d %d %d %d" % (tgt(), sz, seed, 1 if rng.random() < 0.5 else 0))
        elif r < 0.67:
            ops.append("M %d" % tgt())
        elif r < 0.82:
            ops.append("A %d" % tgt())
        elif r < 0.90:
            ops.append("R %d" % tgt())
        else:
            ops.append("G %d" % tgt())
    # read back every slot at the end
    for i in range(min(nslots + 1, 40)):
        ops.append("G %d" % i)
    return ";".join(ops)


def gen_cases(rng, tier):
    cases = []
    # exhaustive short sequences over 3 row sizes
    small_ops = ["I 3 1", "I 8 2", "I 20 3", "J 1 5 9", "J 0 5 8", "U 0 3 4 0", "U 0 20 5 0", "U 1 8 6 1", "U 1 30 7 0",
                 "M 0", "M 1", "A 0", "A 1", "R 0", "R 1", "G 0", "G 1"]
    depth = 3 if tier == "quick" else 4
    for seq in itertools.product(small_ops, repeat=depth):
        cases.append(";".join(seq) + ";G 0;G 1;G 2")
    n = 400 if tier == "quick" else 4000
    for i in range(n):
        style = ["mixed", "full", "mixed", "mixed"][i % 4]
        cases.append(gen_seq(rng, rng.randrange(5, 120), style))
    return cases


# ---- rows of a schema and partial-column updates (UPDATE .. SET of some columns): the page merges the caller's tuple with the stored row
def schema_row(a, l1, l2):
    """bytes of tuple.NewTupleFromSchema([a, 'p'*l1, 'q'*l2], (int, varchar, varchar)): Model/TupleCodec.v's layout"""
    import struct
    fixed = b"\x00" + struct.pack("<i", a) + struct.pack("<I", 13) + struct.pack("<I", 13 + 3 + l1)
    return fixed + b"\x00" + struct.pack("<H", l1) + b"p" * l1 + b"\x00" + struct.pack("<H", l2) + b"q" * l2


def gen_schema_seq(rng, n):
    """Go-side operations S (insert a schema row), P (partial-column update), M/A/R/G; the page is driven close to full with rows
    of similar size so that an update that grows one column has to be refused although the CALLER's tuple (NULL dummies in the
    other columns) would fit"""
    ops, nslots = [], 0
    base1, base2 = rng.choice([0, 5, 30]), rng.choice([10, 40, 90])
    fill = rng.random() < 0.7
    for k in range(n):
        r = rng.random()
        tgt = lambda: rng.randrange(0, max(1, nslots))
        if (fill and k < n * 0.6 and r < 0.75) or r < 0.25:
            ops.append("S %d %d %d" % (rng.randrange(-5, 1000), base1 + rng.randrange(0, 4), base2 + rng.randrange(0, 4))); nslots += 1
        elif r < 0.75:
            mask = rng.choice([1, 2, 4, 3, 5, 6, 7, 2, 4])
            grow = rng.random() < 0.7
            ops.append("P %d %d %d %d %d" % (tgt(), mask, rng.randrange(-5, 1000), (base1 + rng.randrange(0, 60)) if grow else rng.randrange(0, base1 + 1),
                                            (base2 + rng.randrange(0, 60)) if grow else rng.randrange(0, base2 + 1)))
        elif r < 0.80:
            ops.append("M %d" % tgt())
        elif r < 0.86:
            ops.append("A %d" % tgt())
        elif r < 0.90:
            ops.append("R %d" % tgt())
        else:
            ops.append("G %d" % tgt())
    for i in range(min(nslots, 30)):
        ops.append("G %d" % i)
    return ";".join(ops)


def schema_model_ops(case, out):
    """the model-side operations (rows as hex: IH / UH) of a Go-side schema case, built from the requests and the implementation's own
    reports of which inserts and updates succeeded (a wrong report shows as a difference of the states compared afterwards)"""
    rows = {}       # slot -> (a, l1, l2) of the live or delete-marked row
    mops = []
    toks = out.split(" ")
    for i, op in enumerate(case.split(";")):
        f = op.split()
        o = toks[i].split("|")[0] if i < len(toks) else "?"
        if f[0] == "S":
            v = (int(f[1]), int(f[2]), int(f[3]))
            mops.append("IH " + schema_row(*v).hex())
            if o.startswith("ins:"):
                rows[int(o[4:])] = v
        elif f[0] == "P":
            k, mask = int(f[1]), int(f[2])
            cur = rows.get(k, (0, 0, 0))
            new = (int(f[3]), int(f[4]), int(f[5]))
            v = tuple(new[c] if mask & (1 << c) else cur[c] for c in range(3))
            mops.append("UH %d %s 0" % (k, schema_row(*v).hex()))
            if o.startswith("upd:"):
                rows[k] = v
        else:
            mops.append(op)
            if f[0] == "A" and o.startswith("done"):
                rows.pop(int(f[1]), None)
    return ";".join(mops)


def oracle_form(mcase):
    """model-side operations in the (length, content id) form the shadow-map oracle reads"""
    import hashlib
    out = []
    for op in mcase.split(";"):
        f = op.split()
        if f[0] == "IH":
            out.append("I %d %s" % (len(f[1]) // 2, hashlib.md5(f[1].encode()).hexdigest()[:8]))
        elif f[0] == "UH":
            out.append("U %s %d %s %s" % (f[1], len(f[2]) // 2, hashlib.md5(f[2].encode()).hexdigest()[:8], f[3]))
        else:
            out.append(op)
    return ";".join(out)


TOK = re.compile(r"^([a-z]+)(?::([^|]*))?\|(\d+)\|([^|]*)\|(\d+):([0-9a-f]+)$")


def oracle(case, out):
    """C15's statement checked on the implementation's observations alone:
    a python shadow map slot -> (len, content digest, marked) maintained from the
    requests and the implementation's own success/failure reports."""
    import hashlib
    ops = case.split(";")
    toks = out.split(" ")
    if len(toks) != len(ops):
        return "implementation produced %d results for %d operations" % (len(toks), len(ops))
    shadow = {}
    for i, (op, tok) in enumerate(zip(ops, toks)):
        m = TOK.match(tok)
        if not m:
            return "unparsable result %r" % tok
        o, arg, fsp, slots, dlen = m.group(1), m.group(2), int(m.group(3)), m.group(4), int(m.group(5))
        sl = [tuple(int(x) for x in e.split(",")) for e in slots.split("/")] if slots else []
        f = op.split()
        # geometry: header, slot array and rows never overlap; rows tile the tuple area
        if not (24 + 8 * len(sl) <= fsp <= 4096):
            return "op %d (%s): free space pointer %d overlaps header/slot array (count %d)" % (i, op, fsp, len(sl))
        if dlen != 4096 - fsp:
            return "op %d: tuple area length mismatch" % i
        regs = sorted((o_, s_ & 0x7fffffff) for (o_, s_) in sl if s_ != 0)
        pos = fsp
        for (o_, s_) in regs:
            if o_ != pos:
                return "op %d (%s): rows overlap or leave a hole at offset %d (expected %d)" % (i, op, o_, pos)
            pos += s_
        if pos != 4096:
            return "op %d (%s): rows do not end at the page end; free space is mis-accounted" % (i, op)
        used = sum(s_ for _, s_ in regs)
        # functional behaviour against the shadow map
        if o == "ins":
            if f[0] == "J":
                if int(arg) in shadow and shadow[int(arg)]:
                    return "op %d (%s): insert at a logged slot overwrote a stored row" % (i, op)
                shadow[int(arg)] = (f[2], f[3], False)
            else:
                shadow[int(arg)] = (f[1], f[2], False)
        elif o == "upd":
            shadow[int(f[1])] = (f[2], f[3], False)
        elif o == "mark":
            k = int(f[1]); shadow[k] = (shadow[k][0], shadow[k][1], True) if k in shadow else None
        elif o == "done" and f[0] == "A":
            shadow.pop(int(f[1]), None)
        elif o == "done" and f[0] == "R":
            k = int(f[1])
            if k in shadow and shadow[k]:
                shadow[k] = (shadow[k][0], shadow[k][1], False)
        elif o == "tup":
            k = int(f[1])
            if k not in shadow or shadow[k] is None or shadow[k][2]:
                return "op %d (%s): read returned a row for a slot that holds no live row" % (i, op)
            if arg.split(":")[0] != shadow[k][0]:
                return "op %d (%s): row read back with length %s, stored %s" % (i, op, arg.split(":")[0], shadow[k][0])
        elif o in ("selfdel", "err") and f[0] == "G":
            k = int(f[1])
            if k in shadow and shadow[k] and not shadow[k][2]:
                return "op %d (%s): live row cannot be read" % (i, op)
        # every live slot's size field must be the stored length
        for k, v in shadow.items():
            if v is None:
                continue
            if k >= len(sl) or (sl[k][1] & 0x7fffffff) != int(v[0]):
                return "op %d (%s): slot %d lost or has wrong length" % (i, op, k)
        if used != sum(int(v[0]) for v in shadow.values() if v):
            return "op %d (%s): occupied bytes %d differ from the sum of stored rows" % (i, op, used)
    return None


def shrink(case, fails):
    ops = case.split(";")
    changed = True
    while changed and len(ops) > 1:
        changed = False
        for i in range(len(ops)):
            cand = ops[:i] + ops[i + 1:]
            if cand and fails(";".join(cand)):
                ops = cand
                changed = True
                break
    return ";".join(ops)


def run(res, replay=None):
    res.rule = ("all sequences of length 3 (quick) / 4 (thorough) over 17 operations on 3 row sizes exhaustively, plus seeded random sequences of 5-120 operations "
                "(row sizes 1..4065 incl. exactly-fits and one-too-large; targets biased to existing, just-freed and out-of-range slots; page driven full); after every operation "
                "outcome, free-space pointer, slot array and a digest of the tuple-area bytes are compared, all slots read back at the end; "
                "non-trivial = distinct sequence with a shifting update or an applied delete while another row is stored")
    res.trusted = COMMON_TRUSTED + ["row contents are generated from (length, seed) by the same formula in harness/c15.go and ocaml/util.ml; byte areas are compared by length and FNV-1a digest",
                                    "python shadow-map oracle used to classify disagreements (checks/c15.py:oracle)"]
    res.assumptions = ["page operations are driven with a recovery-phase transaction (no row locks) and logging off, as redo/undo do", "the model's tuple area is the byte list [fsp,PageSize); garbage below fsp is not an observable"]
    go_ok = standard_build(res)
    if replay:
        cases = [l for l in open(replay).read().split("\n") if l and not l.startswith("#")]
    else:
        cases = gen_cases(random.Random(res.seed), res.tier)
    text = "\n".join(cases) + "\n"
    impl = model = None
    if go_ok:
        rc, out = run_harness("c15", text)
        impl = out.split("\n")[:-1]
        if rc != 0 or len(impl) != len(cases):
            res.broken.append("Go harness failed (rc=%d, %d lines for %d cases): %s" % (rc, len(impl), len(cases), out[-300:]))
            impl = None
    # partial-column updates on rows of a schema: the Go side runs first, the model's operations are derived from its reports
    mcases = list(cases)
    if impl is not None and not replay:
        rng2 = random.Random(res.seed * 7919 + 15)
        scases = [gen_schema_seq(rng2, rng2.randrange(10, 140)) for _ in range(150 if res.tier == "quick" else 2500)]
        rc, out = run_harness("c15", "\n".join(scases) + "\n")
        simpl = out.split("\n")[:-1]
        if rc != 0 or len(simpl) != len(scases):
            res.broken.append("Go harness failed on the schema cases (rc=%d, %d lines for %d cases): %s" % (rc, len(simpl), len(scases), out[-300:]))
        else:
            cases += scases; impl += simpl
            mcases += [schema_model_ops(c, o) for c, o in zip(scases, simpl)]
            res.extra["partial_update_cases"] = len(scases)
            res.extra["partial_update_outcomes"] = {k: sum(o.count(" " + k) + o.startswith(k) for o in simpl) for k in ("upd:", "nospace", "rbdiff", "fail")}
    elif replay:
        mcases = [schema_model_ops(c, o) if re.search(r"(^|;)[SP] ", c) else c for c, o in zip(cases, impl or [""] * len(cases))]
    text = "\n".join(mcases) + "\n"
    rc, out = sh([os.path.join(BUILD, "c15_driver"), "spec"], input=text, timeout=900)
    model = out.split("\n")[:-1]
    if rc != 0 or len(model) != len(cases):
        res.broken.append("model driver failed (rc=%d): %s" % (rc, out[-300:]))
        model = None
    elif "REFINE-FAIL" in out:
        res.broken.append("extracted model disagrees with its own specification (theorem page_refines_map would be false)")
    nops = 0
    kinds = {}
    for i, c in enumerate(cases):
        ops = c.split(";")
        nops += len(ops)
        if impl is None:
            res.note_case(c, False)
            continue
        o = impl[i]
        for tok in o.split(" "):
            k = tok.split("|")[0].split(":")[0]
            kinds[k] = kinds.get(k, 0) + 1
        nontriv = any(t.startswith("upd") or (t.startswith("done") and op.startswith("A")) for t, op in zip(o.split(" "), ops)) and o.count("ins:") >= 2
        res.note_case(c, nontriv)
        is_schema = mcases[i] is not c
        why = oracle(oracle_form(mcases[i]) if is_schema else c, o)
        if why and is_schema and len(res.oracle_failures) < 3:
            res.oracle_failures.append((c, why + " | implementation: " + o[:600]))
        elif why and len(res.oracle_failures) < 3:
            def fails(cc):
                rc2, out2 = run_harness("c15", cc + "\n")
                return rc2 == 0 and oracle(cc, out2.strip()) is not None
            small = shrink(c, fails) if not res.oracle_failures else c
            rc2, out2 = run_harness("c15", small + "\n")
            res.oracle_failures.append((small, (oracle(small, out2.strip()) or why) + " | implementation: " + out2.strip()[:600]))
        if model is not None and o != model[i] and len(res.mismatches) < 20:
            mt, it = model[i].split(" "), o.split(" ")
            k = next((j for j in range(min(len(mt), len(it))) if mt[j] != it[j]), 0)
            res.mismatches.append((c, "first difference at operation %d (%s): impl %s | model %s" % (k, ops[k] if k < len(ops) else "?", it[k] if k < len(it) else "-", mt[k] if k < len(mt) else "-")))
    res.distribution = {"sequences": len(cases), "operations": nops, "outcomes": kinds}
    if impl is not None:
        res.samples = ["%s => %s" % (cases[i][:300], impl[i][:400]) for i in (len(cases) - 1, len(cases) // 2)]
