"""C16 — row lock manager: theorems in coq/Props/C16.v over the model
coq/Model/Lock.v; correspondence on the real LockManager/TransactionManager
(outcome and both lock tables after every request)."""
import itertools, random, re
from vlib import *


def all_ops(ntx, nrid):
    ops = []
    for t in range(1, ntx + 1):
        for r in range(nrid):
            ops += ["S %d %d" % (t, 10 + r), "X %d %d" % (t, 10 + r), "U %d %d" % (t, 10 + r)]
        ops.append("R %d" % t)
    return ops


def gen_cases(rng, tier):
    cases = []
    ops = all_ops(3, 2)
    depth = 3 if tier == "quick" else 4
    for seq in itertools.product(ops, repeat=depth):
        cases.append(";".join(seq))
    nrand = 300 if tier == "quick" else 3000
    for _ in range(nrand):
        ntx, nrid = rng.randrange(2, 9), rng.randrange(1, 7)
        n = rng.randrange(50, 500)
        seq = []
        for _ in range(n):
            t = rng.randrange(1, ntx + 1)
            r = rng.choice([0, 1, 255, 256, 70000, 2**31 - 1][:nrid])
            k = rng.random()
            if k < 0.35:
                seq.append("S %d %d" % (t, r))
            elif k < 0.6:
                seq.append("X %d %d" % (t, r))
            elif k < 0.85:
                seq.append("U %d %d" % (t, r))
            else:
                seq.append("R %d" % t)
        cases.append(";".join(seq))
    return cases


TOK = re.compile(r"^(.)\[(.*)\]\[(.*)\]$")


def parse_state(shs, exs):
    sh, ex = {}, {}
    if shs:
        for e in shs.split("/"):
            k, v = e.split(":")
            sh[int(k)] = [int(x) for x in v.split(",")]
    if exs:
        for e in exs.split("/"):
            k, v = e.split(":")
            ex[int(k)] = int(v)
    return sh, ex


def locks_of(st):
    sh, ex = st
    return {(t, r, "S") for r, l in sh.items() for t in l} | {(t, r, "X") for r, t in ex.items()}


def oracle(case, out):
    """The compatibility rules evaluated on the implementation's observed tables."""
    ops = case.split(";")
    toks = out.split(" ")
    if len(toks) != len(ops):
        return "implementation produced %d results for %d requests" % (len(toks), len(ops))
    pre = ({}, {})
    for i, (op, tok) in enumerate(zip(ops, toks)):
        m = TOK.match(tok)
        if not m:
            return "unparsable result %r" % tok
        o, post = m.group(1), parse_state(m.group(2), m.group(3))
        f = op.split()
        t = int(f[1])
        sh, ex = pre
        L0, L1 = locks_of(pre), locks_of(post)
        for r, l in post[0].items():
            if len(set(l)) != len(l):
                return "request %d: duplicate holder in shared list of row %d" % (i, r)
        if f[0] == "R":
            want = {l for l in L0 if l[0] != t}
            if L1 != want:
                return "request %d (%s): release-all did not remove exactly the transaction's own locks" % (i, op)
        else:
            r = int(f[2])
            otherX = r in ex and ex[r] != t
            otherS = any(u != t for u in sh.get(r, []))
            if f[0] == "S":
                expect = not otherX
            elif f[0] == "X":
                expect = not otherX and not otherS
            else:
                if t not in sh.get(r, []):
                    expect = None   # upgrade without a shared lock: outside the property
                else:
                    expect = not otherX and not otherS
            if expect is not None and o != ("G" if expect else "D"):
                return "request %d (%s): outcome %s but compatibility says %s" % (i, op, o, "grant" if expect else "deny")
            if o in ("D", "P") and L1 != L0:
                return "request %d (%s): denied request changed the lock tables" % (i, op)
            if o == "G":
                if not L0 <= L1:
                    return "request %d (%s): a held lock disappeared before its transaction ended" % (i, op)
                extra = L1 - L0
                if any(e[0] != t or e[1] != r for e in extra):
                    return "request %d (%s): request created a lock for another transaction/row" % (i, op)
                if f[0] == "S" and not ((t, r, "S") in L1 or (t, r, "X") in L1):
                    return "request %d (%s): granted shared lock is not held" % (i, op)
                if f[0] in ("X", "U") and (t, r, "X") not in L1:
                    return "request %d (%s): granted exclusive lock is not held" % (i, op)
        pre = post
    return None


def shrink(case, fails):
    ops = case.split(";")
    changed = True
    while changed and len(ops) > 1:
        changed = False
        for i in range(len(ops)):
            cand = ops[:i] + ops[i + 1:]
            if cand and fails(";".join(cand)):
                ops = cand
                changed = True
                break
    return ";".join(ops)


def run(res, replay=None):
    res.rule = ("every request sequence of length <= 3 (quick) / 4 (thorough) over 3 transactions x 2 rows x {S,X,upgrade,release-all} exhaustively, "
                "plus seeded random sequences of 50-500 requests over 2-8 transactions x 1-6 rows; outcome and both lock tables compared after every request; "
                "non-trivial = distinct sequence containing a denied request or a granted upgrade")
    res.trusted = COMMON_TRUSTED + ["hook H3 (LockManager.VerifLockTables) returns the real tables", "python re-statement of the compatibility rule used to classify disagreements (checks/c16.py:oracle)"]
    res.assumptions = ["release-all is exercised through TransactionManager.Commit/Abort with an empty write set", "requests are issued sequentially; the manager serialises concurrent requests with one mutex (goroutine interleavings are sampled by C04/C05/C12 workloads)"]
    go_ok = standard_build(res)
    if replay:
        cases = [l for l in open(replay).read().split("\n") if l and not l.startswith("#")]
    else:
        cases = gen_cases(random.Random(res.seed), res.tier)
    text = "\n".join(cases) + "\n"
    impl = model = None
    if go_ok:
        rc, out = run_harness("c16", text)
        impl = out.split("\n")[:-1]
        if rc != 0 or len(impl) != len(cases):
            res.broken.append("Go harness failed (rc=%d, %d lines for %d cases): %s" % (rc, len(impl), len(cases), out[-300:]))
            impl = None
    rc, out = run_model("c16_driver", text)
    model = out.split("\n")[:-1]
    if rc != 0 or len(model) != len(cases):
        res.broken.append("model driver failed (rc=%d): %s" % (rc, out[-300:]))
        model = None
    nops = 0
    outcomes = {"G": 0, "D": 0, "P": 0, "-": 0}
    for i, c in enumerate(cases):
        nops += c.count(";") + 1
        if impl is None:
            res.note_case(c, False)
            continue
        o = impl[i]
        for tok in o.split(" "):
            if tok[:1] in outcomes:
                outcomes[tok[:1]] += 1
        nontriv = " D[" in " " + o or any(t.startswith("G") and op.startswith("U") for t, op in zip(o.split(" "), c.split(";")))
        res.note_case(c, nontriv)
        why = oracle(c, o)
        if why and len(res.oracle_failures) < 5:
            def fails(cc):
                rc2, out2 = run_harness("c16", cc + "\n")
                return rc2 == 0 and oracle(cc, out2.strip()) is not None
            small = shrink(c, fails) if len(res.oracle_failures) == 0 else c
            rc2, out2 = run_harness("c16", small + "\n")
            res.oracle_failures.append((small, (oracle(small, out2.strip()) or why) + " | implementation: " + out2.strip()[:400]))
        if model is not None and o != model[i] and len(res.mismatches) < 20:
            res.mismatches.append((c, "impl: %s | model: %s" % (o[:300], model[i][:300])))
    res.distribution = {"sequences": len(cases), "requests": nops, "outcomes": outcomes}
    if impl is not None:
        res.samples = ["%s => %s" % (cases[i][:200], impl[i][:300]) for i in (len(cases) // 2, len(cases) - 1)]
