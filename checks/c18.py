"""C18 — key codec: theorems in coq/Props/C18.v; correspondence of the extracted
model with lib/samehada/samehada_util on boundary grids and seeded random
values and pairs; the order / round-trip oracle evaluated on the
implementation's own outputs."""
import random
from vlib import *

INT_MIN, INT_MAX = -2**31, 2**31 - 1


def int_grid():
    g = {0, 1, -1, INT_MIN, INT_MAX, INT_MIN + 1, INT_MAX - 1}
    for k in range(0, 31):
        for d in (-1, 0, 1):
            for s in (1, -1):
                v = s * (2**k) + d
                if INT_MIN <= v <= INT_MAX:
                    g.add(v)
    return sorted(g)


def is_nan(u):
    return ((u >> 23) & 0xFF) == 0xFF and (u & 0x7FFFFF) != 0


def float_grid():
    g = {0, 0x80000000, 1, 0x80000001, 0x007FFFFF, 0x807FFFFF, 0x00800000, 0x80800000,
         0x7F7FFFFF, 0xFF7FFFFF, 0x7F800000, 0xFF800000, 0x3F800000, 0xBF800000}
    for e in range(0, 256):
        for d in (-1, 0, 1):
            for s in (0, 0x80000000):
                v = ((e << 23) + d) & 0x7FFFFFFF
                g.add(v | s)
    return sorted(u for u in g if not is_nan(u))


PAGES = [0, 1, 127, 128, 255, 256, 65535, 65536, 2**24 - 1, 2**24, 2**31 - 1]
SLOTS = [0, 1, 127, 128, 255, 256, 65535, 65536, 2**31 - 1, 2**31, 2**32 - 1]


def rnd_rid(rng):
    if rng.random() < 0.5:
        return rng.choice(PAGES), rng.choice(SLOTS)
    return rng.randrange(0, 2**31), rng.randrange(0, 2**32)


def rnd_str(rng, maxlen):
    n = rng.choice([0, 1, 2, 3, 8, 23, 24, 25, rng.randrange(0, maxlen + 1)])
    n = min(n, maxlen)
    alpha = rng.choice([[1, 255], [97, 98], list(range(1, 256))])
    return bytes(rng.choice(alpha) for _ in range(n))


def hx(b):
    return b.hex() if b else "-"


def gen_cases(rng, tier):
    nval = 1500 if tier == "quick" else 30000
    npair = 6000 if tier == "quick" else 150000
    cases = []
    ig, fg = int_grid(), float_grid()
    for z in ig:
        p, s = rnd_rid(rng)
        cases.append("I %d %d %d" % (z, p, s))
    for u in fg:
        p, s = rnd_rid(rng)
        cases.append("F %d %d %d" % (u, p, s))
    # NaNs: outside the property, model/implementation agreement only
    for u in (0x7FC00000, 0xFFC00000, 0x7F800001, 0xFF800001, 0x7FFFFFFF, 0xFFFFFFFF):
        cases.append("F %d 1 1" % u)
    for p in PAGES:
        for s in SLOTS:
            cases.append("R %d %d" % (p, s))
    for _ in range(nval):
        p, s = rnd_rid(rng)
        cases.append("I %d %d %d" % (rng.randrange(INT_MIN, INT_MAX + 1), p, s))
        u = rng.randrange(0, 2**32)
        cases.append("F %d %d %d" % (u, p, s))
        cases.append("S %s %d %d" % (hx(rnd_str(rng, 255)), p, s))
        cases.append("R %d %d" % rnd_rid(rng))
    # strings that are prefixes of each other / adjacent
    base = rnd_str(rng, 20) + b"ab"
    fam = [base[:i] for i in range(len(base) + 1)] + [base + b"\x01", base + b"\xff", base[:-1] + b"\x01"]
    # pairs
    for i in range(len(ig)):
        for j in (i, (i + 1) % len(ig), rng.randrange(len(ig))):
            p1, s1 = rnd_rid(rng); p2, s2 = rnd_rid(rng)
            cases.append("PI %d %d %d %d %d %d" % (ig[i], p1, s1, ig[j], p2, s2))
    for i in range(len(fg)):
        for j in (i, (i + 1) % len(fg), rng.randrange(len(fg)), rng.randrange(len(fg))):
            p1, s1 = rnd_rid(rng); p2, s2 = rnd_rid(rng)
            cases.append("PF %d %d %d %d %d %d" % (fg[i], p1, s1, fg[j], p2, s2))
    cases.append("PF %d 0 0 %d 0 0" % (0, 0x80000000))
    cases.append("PF %d 0 0 %d 0 0" % (0x80000000, 0))
    for a in fam:
        for b in fam:
            p1, s1 = rnd_rid(rng); p2, s2 = rnd_rid(rng)
            cases.append("PS %s %d %d %s %d %d" % (hx(a), p1, s1, hx(b), p2, s2))
    for _ in range(npair):
        p1, s1 = rnd_rid(rng); p2, s2 = rnd_rid(rng)
        k = rng.randrange(3)
        if k == 0:
            a = rng.randrange(INT_MIN, INT_MAX + 1)
            b = a + rng.choice([0, 1, -1, 256, -256]) if rng.random() < 0.3 else rng.randrange(INT_MIN, INT_MAX + 1)
            b = max(INT_MIN, min(INT_MAX, b))
            cases.append("PI %d %d %d %d %d %d" % (a, p1, s1, b, p2, s2))
        elif k == 1:
            a = rng.randrange(0, 2**32)
            b = (a ^ rng.choice([0, 1, 0x80000000, 0x00800000])) if rng.random() < 0.3 else rng.randrange(0, 2**32)
            if is_nan(a) or is_nan(b):
                continue
            cases.append("PF %d %d %d %d %d %d" % (a, p1, s1, b, p2, s2))
        else:
            a = rnd_str(rng, 40)
            b = a[:rng.randrange(len(a) + 1)] + rnd_str(rng, 3) if rng.random() < 0.5 else rnd_str(rng, 40)
            cases.append("PS %s %d %d %s %d %d" % (hx(a), p1, s1, hx(b), p2, s2))
    return cases


def kv(line):
    return dict(x.split("=", 1) for x in line.split() if "=" in x)


def oracle(case, out):
    """The property itself, evaluated on the implementation's output. Returns
    None if it holds, else a description."""
    f = case.split()
    if out in ("panic", "badcase"):
        return "implementation panicked"
    o = kv(out)
    t = f[0]
    if t == "I":
        if int(o["dec"]) != int(f[1]) or int(o["dec2"]) != int(f[1]):
            return "integer key does not round-trip: %s -> %s" % (f[1], o["dec"])
    elif t == "F":
        u = int(f[1])
        if is_nan(u):
            return None
        want = 0 if u == 0x80000000 else u
        if int(o["dec"]) != want:
            return "float key does not round-trip: bits %d -> %s" % (u, o["dec"])
    elif t == "S":
        if o["dec"] != f[1]:
            return "string key does not round-trip"
        enc_len = 0 if o["enc"] == "-" else len(o["enc"]) // 2
        if o["fill"] == "panic":
            if enc_len <= 36:
                return "FillZeroValues panics on a key within the supported length"
        else:
            if o.get("elim") != o["enc"]:
                return "B-tree padding does not round-trip"
            if len(o["fill"]) // 2 != 50:
                return "padded B-tree key is not MaxKeyLen long"
    elif t == "R":
        p, s = int(f[1]), int(f[2])
        if o["u64"] != "%d,%d" % (p, s):
            return "pack64 round-trip: (%d,%d) -> %s" % (p, s, o["u64"])
        if o["u8"] != "%d,%d" % (p, s):
            return "pack8 round-trip: (%d,%d) -> %s" % (p, s, o["u8"])
        if p < 65536 and s < 65536 and o["u32"] != "%d,%d" % (p, s):
            return "pack32 round-trip: (%d,%d) -> %s" % (p, s, o["u32"])
    elif t in ("PI", "PF", "PS"):
        nat, b, v = int(o["native"]), int(o["bytes"]), int(o["val"])
        if t == "PF" and (is_nan(int(f[1])) or is_nan(int(f[4]))):
            return None
        if t == "PS" and ("00" in [f[1][i:i+2] for i in range(0, len(f[1]), 2)] + [f[4][i:i+2] for i in range(0, len(f[4]), 2)]):
            return None
        if nat != 0:
            if b != nat or v != nat:
                return "encoded order %d/%d differs from value order %d" % (b, v, nat)
        elif f[2:4] == f[5:7]:
            if b != 0 or v != 0:
                return "equal values with equal row ids encode differently"
        if t == "PS" and o.get("padded") not in (None, "panic") and int(o["padded"]) != b:
            return "B-tree padding changes the order of two keys"
    return None


def index_roundtrip(res, rng):
    """the codec as the indexes use it: row ids and keys stored in a real skip-list / B-tree index come back unchanged
    from point lookups and from the range-scan iterator (every byte of page id and slot number carries information)"""
    from dbsession import DB
    for kind in "sb":
        db = DB(mem_kb=1200)
        try:
            if not db.open().startswith("ok"):
                res.broken.append("index round trip: database does not start"); return
            db.cmd("mktable t a:i:%s,b:i:n" % kind)
            ents = set()
            for i in range(120 if res.tier == "quick" else 1500):
                k = rng.choice([0, 1, 255, 256, 65535, 65536, 2**31 - 1, -1, -256, -2**31 + 1]) if rng.random() < 0.3 else rng.randrange(-10**6, 10**6)
                rid = (rng.randrange(0, 2**31), rng.randrange(0, 65536 if kind == "b" else 2**32))
                if rng.random() < 0.3:
                    rid = (rng.choice([0, 255, 256, 65535, 2**31 - 1]), rng.choice([0, 255, 256, 257, 65535]))
                if (k, rid) in ents:
                    continue
                ents.add((k, rid))
                db.cmd("ixins t 0 i:%d %d %d" % (k, rid[0], rid[1]))
            a = db.cmd("ixrange t 0 - -")
            got = sorted(a[3:].split(";")) if a.startswith("ok:") and a[3:] else []
            want = sorted("i:%d@%d.%d" % (k, p, sl) for k, (p, sl) in ents)
            res.evaluations += len(ents)
            if got != want:
                bad = sorted(set(got) ^ set(want))[:6]
                res.oracle_failures.append(("# index kind %s: %d entries inserted with ixins, then ixrange t 0 - -\n" % (kind, len(ents)) + "\n".join(l for l in db.log if l.startswith("ixins"))[:3000],
                                            "row ids / keys stored in a %s index do not come back unchanged from the range-scan iterator: differing entries %s" % ({"s": "skip-list", "b": "B-tree"}[kind], bad)))
                continue
            for k, rid in sorted(ents)[:40]:
                a = db.cmd("ixscan t 0 i:%d" % k)
                wantp = sorted("%d.%d" % r for kk, r in ents if kk == k)
                if not a.startswith("ok:") or sorted(a[3:].split(";")) != wantp:
                    res.oracle_failures.append(("ixscan t 0 i:%d" % k, "point lookup in a %s index returns %s, stored row ids %s" % (kind, a[:120], wantp[:6])))
                    break
        finally:
            db.destroy()


def run(res, replay=None):
    res.rule = ("boundary grids (all +-2^k+-1 integers, every float exponent boundary, +-0, denormals, +-Inf, +-MaxFloat32; "
                "string prefix families, lengths 0..255; row-id grid) plus seeded random values and pairs; "
                "non-trivial = distinct case whose two values differ (pairs) or a distinct single value; plus a round trip of keys and row ids (all bytes significant) through real skip-list and B-tree indexes "
                "(range-scan iterator and point lookup)")
    res.trusted = COMMON_TRUSTED + ["f_cmp (IEEE order on bit patterns) is validated against Go's native float32 < / == on every pair"]
    res.assumptions = ["floats are compared by the reference order f_cmp on bit patterns; NaN excluded as in the property"]
    go_ok = standard_build(res)
    if replay:
        cases = [l for l in open(replay).read().split("\n") if l and not l.startswith("#")]
    else:
        rng = random.Random(res.seed)
        cases = gen_cases(rng, res.tier)
    text = "\n".join(cases) + "\n"
    impl = None
    if go_ok:
        rc, out = run_harness("c18", text)
        impl = out.split("\n")[:-1]
        if rc != 0 or len(impl) != len(cases):
            res.broken.append("Go harness failed (rc=%d, %d lines for %d cases): %s" % (rc, len(impl), len(cases), out[-300:]))
            impl = None
    rc, out = run_model("c18_driver", text)
    model = out.split("\n")[:-1]
    if rc != 0 or len(model) != len(cases):
        res.broken.append("model driver failed (rc=%d)" % rc)
        model = None
    kinds = {}
    for i, c in enumerate(cases):
        t = c.split()[0]
        kinds[t] = kinds.get(t, 0) + 1
        f = c.split()
        nontriv = (t in ("PI", "PF", "PS") and f[1] != f[4]) or t in ("I", "F", "S", "R")
        res.note_case(c, nontriv)
        if impl is not None:
            why = oracle(c, impl[i])
            if why:
                res.oracle_failures.append((c, why + " | implementation: " + impl[i]))
            if model is not None and impl[i] != model[i]:
                res.mismatches.append((c, "impl: %s | model: %s" % (impl[i], model[i])))
    res.distribution = kinds
    if go_ok and not replay:
        index_roundtrip(res, random.Random(res.seed + 18))
    if impl is not None:
        res.samples = ["%s => %s" % (cases[i], impl[i]) for i in (0, len(cases) // 3, len(cases) // 2, len(cases) - 1)]
