"""C01 — committed transactions survive any crash.  Theorems in coq/Props/C01.v;
the engine's I/O trace (hook H1) of random serial histories is cut at I/O
boundaries after commits returned (optionally with the last write torn), every
image is restarted in a fresh process and the recovered tables are compared
with the reference state of the committed transactions."""
import random
from vlib import *
from crashcheck import *
from walcheck import driver_input, run_driver

MODE = "c01"


def check_history(rng, res, mode, mem_kb, nunits, limit, torn=True, prop="C01"):
    h = History(rng, mode, mem_kb)
    fails = []
    try:
        h.run(nunits)
        if h.fail:
            return [("# session:\n" + "\n".join(h.db.log[-200:]), h.fail)]
        states, order = expected_states(h.units)
        trace = h.trace
        for v in link_discipline(trace)[:1]:
            fails.append(("# session (commands sent to `verifharness db`):\n" + "\n".join(h.db.log), "history %s, pool %dKB: %s" % (" ".join(h.desc), mem_kb, v)))
        pts = crash_points(trace, rng, limit)
        jobs = []
        # a checkpoint writes its dirty pages in map-iteration order (FlushAllDirtyPages ranges over the page table):
        # every subset of that batch of page writes is a prefix of some legal order, so besides the recorded prefixes
        # the images "batch start + one later page of the batch alone" are crash states too
        for q, e in enumerate(trace):
            if e[0] == "M" and e[1] == "CKPT" and pts and q > pts[0]:
                b = q
                while b > 0 and trace[b - 1][0] in ("P", "L"):
                    b -= 1
                pw = [i for i in range(b, q) if trace[i][0] == "P"]
                # the log flushes between the page writes of a checkpoint carry nothing new (no transaction runs meanwhile)
                if len(pw) >= 2 and b >= pts[0] and all(len(trace[i][1]) == 0 for i in range(pw[0], q) if trace[i][0] == "L"):
                    for j in (pw[1:] if len(pw) <= 10 else rng.sample(pw[1:], 8)):
                        jobs.append((pw[0], None, j))
                        res.extra["reordered_checkpoint_images"] = res.extra.get("reordered_checkpoint_images", 0) + 1
        for p in pts:
            jobs.append((p, None, None))
            if torn and p < len(trace) and trace[p][0] in ("L", "P") and rng.random() < 0.35:
                n = len(trace[p][-1])
                if trace[p][0] == "L":
                    cut = rng.choice([1, 7, 13, 20, 21, n // 2, n - 1]) if n > 21 else max(1, n - 1)
                else:
                    cut = rng.choice([512, 2048, 3584])
                jobs.append((p, min(cut, n - 1), None))

        model_inputs = []

        def one(job):
            p, cut, extra = job
            img = image_at(trace, p, torn=cut)
            if extra is not None:
                img.apply(trace[extra])
            want_model = cut is None and extra is None and (p % 3 == 0)
            out = restart_on(img, TABLES, mem_kb=max(mem_kb, 400), want_trace=want_model)
            if want_model:
                import shutil
                shutil.rmtree(out.get("dir", "/nonexistent"), ignore_errors=True)
                if out["status"] == "ok":
                    out["model_input"] = driver_input(img, out.get("trace") or [])[0]
            return job, out
        results = parallel(one, jobs)
        # recovery model (coq/Model/Wal.v, extracted) vs what the engine's recovery wrote, on a third of the images
        mi = [(job, out["model_input"]) for job, out in results if "model_input" in out]
        if mi:
            rcm, mouts = run_driver("".join(x for _, x in mi))
            if rcm != 0 or len(mouts) != len(mi):
                res.broken.append("recovery model driver failed (rc=%d)" % rcm)
            else:
                for (job, _), o in zip(mi, mouts):
                    res.extra["model_images"] = res.extra.get("model_images", 0) + 1
                    flags = dict(x.split("=") for x in o.split("|")[0].split()[1:])
                    parts = o.split("|")
                    if parts[1].strip() != "model-vs-engine:" and len(res.mismatches) < 5:
                        res.mismatches.append((render_replay(h, job[0], None), "recovered pages: engine differs from the recovery model: " + parts[1][:400]))
                    for k in ("log_ok", "chains_ok", "strict_ok", "fresh_pages_ok", "disk_ok"):
                        if flags.get(k) != "1" and len(res.mismatches) < 5:
                            res.mismatches.append((render_replay(h, job[0], None), "a hypothesis of the recovery theorems does not hold on a real crash image: %s=0 (%s)" % (k, o[:200])))
                    if flags.get("image_wf") == "1":
                        res.extra["model_images_wf"] = res.extra.get("model_images_wf", 0) + 1
                        if not parts[2].strip().endswith("committed-vs-engine:") and len(res.oracle_failures) < 5:
                            res.oracle_failures.append((render_replay(h, job[0], None), "recovered slots differ from the committed state (theorem recovery_restores_committed_state applies: image_wf holds): " + parts[2][:400]))
        for (p, cut, extra), out in results:
            allowed, nret = allowed_at(trace, p, order)
            if cut is not None and p < len(trace):
                # a torn final write may or may not complete a commit that is in progress
                allowed2, _ = allowed_at(trace, p + 1, order)
                allowed |= allowed2
            nio = sum(1 for e in trace[:p] if e[0] != "M")
            where = "crash after %d of %d I/O events%s%s (%d commits had returned)" % (nio, sum(1 for e in trace if e[0] != "M"), "" if cut is None else ", next write torn after %d bytes" % cut,
                                                                                      "" if extra is None else " plus, of the checkpoint's batch of page writes that follows, only the write of page %d (the batch is written in map order)" % trace[extra][1], nret)
            logrec = sum(1 for e in trace[:p] if e[0] == "L")
            nontriv = nret >= 1 and any(e[0] == "P" for e in trace[:p])
            res.note_case("%s|%s|%d|%s|%s" % (" ".join(h.desc), mem_kb, p, cut, extra), nontriv)
            bad = None
            if out["status"] != "ok":
                bad = "restart fails: %s" % out.get("detail", out["status"])
            elif out.get("probe") != "ok":
                bad = "restarted database does not accept statements: %s" % out.get("probe")
            else:
                got = out["rows"]
                if not any(all(got[t] == states[j][t] for t in TABLES) for j in allowed if j < len(states)):
                    j = min(nret, len(states) - 1)
                    bad = "recovered tables differ from the committed state: " + "; ".join(
                        "%s: engine %s | committed %s" % (t, got[t][:300], states[j][t][:300]) for t in TABLES if got[t] != states[j][t])
            if bad:
                if cut is not None and p < len(trace) and trace[p][0] == "P":
                    # known finding F-TORN-PAGE: a page write torn at sector granularity is not repaired (no full-page images / double write)
                    res.known_hits["F-TORN-PAGE"] = "a data-page write torn at a 512-byte boundary leaves the page corrupt after restart (e.g. %s)" % where
                elif len(fails) < 3:
                    fails.append((render_replay(h, p, cut, extra), where + ": " + bad))
        res.extra["images"] = res.extra.get("images", 0) + len(jobs)
        res.extra["histories"] = res.extra.get("histories", 0) + 1
        if len(res.samples) < 3:
            res.samples.append("%s | pool %dKB | %d I/O events | %d crash images" % (" ".join(h.desc), mem_kb, sum(1 for e in trace if e[0] != "M"), len(jobs)))
    finally:
        h.close()
    return fails


def render_replay(h, p, cut, extra=None):
    return ("# history (commands sent to `verifharness db`), then crash at trace position %d (torn=%s%s), then restart\n" % (p, cut, "" if extra is None else ", plus trace event %d alone" % extra)
            + "\n".join(h.db.log) + "\n# crash-point %d %s%s\n" % (p, cut, "" if extra is None else " %d" % extra))


def big_txn_history(res, rng, nrows):
    """one transaction whose log records exceed the log buffer (LogBufferSize), so that AppendLogRecord flushes and swaps
    buffers in the middle of it; then a small committed transaction; crash at every I/O boundary after the big commit."""
    from dbsession import DB
    import os
    db = DB(mem_kb=8000)
    fails = []
    try:
        if not db.open().startswith("ok"):
            return [("open", "database does not start")]
        db.cmd("mktable ta k:i:n,g:i:n,v:s:n"); db.cmd("mktable tb k:i:n,g:i:n,v:s:n")
        db.cmd("mark SETUP-DONE")
        db.cmd("begin x")
        want = []
        for i in range(nrows):
            v = pad(230 + i % 20, i)
            r = db.cmd("tsql x INSERT INTO ta(k,g,v) VALUES (%d, %d, '%s');" % (i, i % 7, v))
            if not r.startswith("ok"):
                return [("\n".join(l[:120] for l in db.log[-5:]), "insert number %d of the big transaction failed: %s" % (i, r))]
            want.append("i:%d,i:%d,s:%s" % (i, i % 7, v.encode().hex()))
        db.cmd("mark B 1"); db.cmd("commit x"); db.cmd("mark E 1 ok")
        db.cmd("mark B 2"); db.sql("INSERT INTO tb(k,g,v) VALUES (1, 1, 'z');"); db.cmd("mark E 2 ok")
        tp = os.path.join(db.dir, "big.trace")
        db.cmd("trace " + tp)
        trace = load_trace(tp)
        e1 = next(i for i, e in enumerate(trace) if e[0] == "M" and e[1] == "E 1 ok")
        e2 = next(i for i, e in enumerate(trace) if e[0] == "M" and e[1] == "E 2 ok")
        pts = [p for p in range(e1, len(trace) + 1) if p == len(trace) or trace[p][0] != "M"]
        want_a = "ok:" + ";".join(sorted(want))
        nlog = sum(len(e[1]) for e in trace[:e1] if e[0] == "L")
        res.extra["big_txn_log_bytes"] = nlog

        def one(p):
            return p, restart_on(image_at(trace, p), ["ta", "tb"], mem_kb=8000, timeout=120)
        for p, out in parallel(one, pts[:12]):
            res.note_case("bigtxn|%d|%d" % (nrows, p), True)
            where = "transaction of %d inserts (%d bytes of log, log buffer %s), crash after %d I/O events" % (nrows, nlog, "LogBufferSize", sum(1 for e in trace[:p] if e[0] != "M"))
            bad = None
            if out["status"] != "ok":
                bad = "restart fails: %s" % out.get("detail", out["status"])
            elif out["rows"]["ta"] != want_a:
                bad = "committed rows lost: table ta has %d rows after restart, the committed transaction inserted %d" % (len(out["rows"]["ta"].split(";")) if out["rows"]["ta"] != "ok:" else 0, nrows)
            elif p > e2 and out["rows"]["tb"] != "ok:i:1,i:1,s:7a":
                bad = "the second committed transaction is lost: tb = %s" % out["rows"]["tb"][:80]
            if bad and len(fails) < 2:
                fails.append(("# verifharness db session: mktable ta k:i:n,g:i:n,v:s:n; begin x; %d x tsql x INSERT INTO ta(k,g,v) VALUES (i, i%%7, 'v<i>_xxx..' (230-249 bytes)); commit x; INSERT INTO tb; crash at trace position %d\n# crash-point %d None" % (nrows, p, p), where + ": " + bad))
    finally:
        db.destroy()
    return fails


def chain_subset_images(res, rng):
    """committed inserts that make a table grow by several pages while nothing but the log reaches the disk (big pool), then a
    checkpoint: it writes its dirty pages in map-iteration order, so the log plus ANY subset of that batch is a crash state.  The
    images "one page of the batch alone" and "all but one" are restarted (a later page of the chain in the file without its
    predecessor, a predecessor without its successor): every committed row must be there and the table must take new rows"""
    from dbsession import DB
    import os
    fails = []
    db = DB(mem_kb=4000)
    try:
        if not db.open().startswith("ok"):
            return [("open", "database does not start")]
        sqlt = rng.random() < 0.5
        if sqlt:
            db.sql("CREATE TABLE ta(k int, g int, v varchar(255));"); db.sql("CREATE TABLE tb(k int, g int, v varchar(255));")
        else:
            db.cmd("mktable ta k:i:n,g:i:n,v:s:n"); db.cmd("mktable tb k:i:n,g:i:n,v:s:n")
        db.cmd("checkpoint")
        db.cmd("mark SETUP-DONE")
        n = rng.randrange(35, 80)
        want = []
        for i in range(n):
            v = pad(200 + i % 50, i)
            db.sql("INSERT INTO ta(k,g,v) VALUES (%d, %d, '%s');" % (i, i % 7, v))
            want.append("i:%d,i:%d,s:%s" % (i, i % 7, v.encode().hex()))
        db.cmd("mark BATCH")
        db.cmd("checkpoint")
        tp = os.path.join(db.dir, "chain.trace")
        db.cmd("trace " + tp)
        trace = load_trace(tp)
        b = next(i for i, e in enumerate(trace) if e[0] == "M" and e[1] == "BATCH")
        pw = [i for i in range(b, len(trace)) if trace[i][0] == "P"]
        want_a = "ok:" + ";".join(sorted(want))
        subsets = [[j] for j in pw] + [[x for x in pw if x != j] for j in pw]
        if len(subsets) > 24:
            subsets = rng.sample(subsets, 24)

        def one(sub):
            img = image_at(trace, b)
            for j in range(b, len(trace)):          # the log writes of the checkpoint itself are durable in every such image
                if trace[j][0] == "L" or j in sub:
                    img.apply(trace[j])
            return sub, restart_on(img, ["ta", "tb"], mem_kb=400, durability=True)
        for subset, out in parallel(one, subsets):
            res.note_case("chain-subset|%s|%d|%s" % ("sql" if sqlt else "api", n, ",".join(str(trace[j][1]) for j in subset)), True)
            bad = None
            if out["status"] != "ok":
                bad = "restart fails: %s" % out.get("detail", out["status"])
            elif out["rows"]["ta"] != want_a:
                got = out["rows"]["ta"][3:].split(";") if out["rows"]["ta"] != "ok:" else []
                bad = "committed rows are lost: ta has %d rows after restart, %d were committed" % (len(got), n)
            elif out.get("probe", "ok") != "ok":
                bad = str(out.get("probe"))
            elif out.get("durability", "ok") != "ok":
                bad = out["durability"]
            if bad and len(fails) < 2:
                fails.append(("# verifharness db session: %s tables ta, tb; checkpoint; %d auto-commit inserts of 200-250 byte rows into ta (no page write), checkpoint\n"
                              "# the checkpoint wrote pages %s; crash image = log + pages %s of that batch" % ("SQL-created" if sqlt else "catalog-API (no index)", n,
                              ",".join(str(trace[j][1]) for j in pw), ",".join(str(trace[j][1]) for j in subset)),
                              "crash in the middle of a checkpoint's page writes (pages %s written, the others not): %s" % (",".join(str(trace[j][1]) for j in subset), bad)))
    finally:
        db.destroy()
    return fails


def link_window_history(res, rng):
    """a table page that is full (and clean after a checkpoint) gets a successor inside a transaction that is still open, and is then
    pushed out of a 12-16 frame pool by that transaction's inserts into another table: the page written carries the link to the new
    page.  Crash at every I/O boundary; after restart the committed rows are there, the tables accept new rows (which walk the
    page chain) and these survive the next crash."""
    from dbsession import DB
    import os
    frames = rng.choice([12, 14, 16])
    db = DB(mem_kb=frames * 4)
    fails = []
    try:
        if not db.open().startswith("ok"):
            return [("open", "database does not start")]
        db.cmd("mktable ta k:i:n,g:i:n,v:s:n"); db.cmd("mktable tb k:i:n,g:i:n,v:s:n")
        w = rng.choice([240, 600, 900, 1300])            # 3 to 15 rows per page: every few inserts a page gets a successor
        n0 = rng.randrange(4, 24)
        want = []
        for i in range(n0):
            v = pad(w + i % 5, i)
            db.cmd("rawinsert ta i:%d i:%d s:%s" % (i, i % 7, v.encode().hex()))
            want.append("i:%d,i:%d,s:%s" % (i, i % 7, v.encode().hex()))
        db.cmd("checkpoint")
        db.cmd("mark SETUP-DONE")
        db.cmd("begin x")
        k = 5000
        for rnd in range(rng.randrange(12, 30)):
            k += 1                                           # one more row for ta inside the open transaction (every few: a new page)
            db.cmd("tsql x INSERT INTO ta(k,g,v) VALUES (%d, 1, '%s');" % (k, pad(w, k)))
            for _ in range(rng.randrange(10, 50)):           # and a burst into tb that pushes ta's pages out of the pool
                k += 1
                db.cmd("tsql x INSERT INTO tb(k,g,v) VALUES (%d, 1, '%s');" % (k, pad(240, k)))
        tp = os.path.join(db.dir, "link.trace")
        db.cmd("trace " + tp)
        trace = load_trace(tp)
        s0 = next(i for i, e in enumerate(trace) if e[0] == "M" and e[1] == "SETUP-DONE")
        for v in link_discipline(trace)[:1]:
            fails.append(("# verifharness db session:\n" + "\n".join(l[:100] for l in db.log[:6]) + "\n... (%d lines)" % len(db.log),
                          "%d-frame pool, unfinished transaction growing ta while its inserts into tb push ta's pages out: %s" % (frames, v)))
        io = [p for p in range(s0 + 1, len(trace) + 1) if (p == len(trace) or trace[p][0] != "M")]
        after_page = [p for p in io if p > 0 and trace[p - 1][0] == "P"]
        # the window is "a page write that is not followed by a log write yet": all of those, capped
        window = [p for p in after_page if p == len(trace) or trace[p][0] != "L"]
        pts = sorted(set([len(trace)] + (rng.sample(window, min(40, len(window))) if window else []) + rng.sample(io, min(3, len(io)))))
        want_a = "ok:" + ";".join(sorted(want))
        rmem = rng.choice([64, 400])

        def one(p):
            return p, restart_on(image_at(trace, p), ["ta", "tb"], mem_kb=rmem, timeout=120, durability=True)
        for p, out in parallel(one, pts):
            res.note_case("linkwindow|%d|%d|%d|%d" % (n0, w, frames, p), True)
            where = "%d committed rows in ta, checkpoint, then an unfinished transaction inserting into ta and tb in a %d-frame pool; crash after %d I/O events (%d page writes)" % (
                n0, frames, sum(1 for e in trace[:p] if e[0] != "M"), sum(1 for e in trace[s0:p] if e[0] == "P"))
            bad = None
            if out["status"] != "ok":
                bad = "restart fails: %s" % out.get("detail", out["status"])
            elif out["rows"]["ta"] != want_a or out["rows"]["tb"] != "ok:":
                bad = "tables after restart differ from the committed state: ta has %d rows (committed %d), tb %s" % (len(out["rows"]["ta"].split(";")) if out["rows"]["ta"] != "ok:" else 0, n0, out["rows"]["tb"][:60])
            elif out.get("probe") != "ok":
                bad = str(out.get("probe"))
            elif out.get("durability", "ok") != "ok":
                bad = out["durability"]
            if bad and len(fails) < 2:
                fails.append(("# verifharness db session:\n" + "\n".join(l[:100] for l in db.log[:6]) + "\n... (%d lines)\n# crash-point %d None" % (len(db.log), p), where + ": " + bad))
    finally:
        db.destroy()
    return fails


def big_loser_history(res, rng):
    """an unfinished transaction that changed more pages than the pool has frames (its pages were written out while it ran), crash,
    restart in a pool that is smaller than the set of pages recovery has to undo"""
    from dbsession import DB
    import os
    frames = rng.choice([20, 24])
    db = DB(mem_kb=frames * 4)
    fails = []
    try:
        if not db.open().startswith("ok"):
            return [("open", "database does not start")]
        db.cmd("mktable ta k:i:n,g:i:n,v:s:n"); db.cmd("mktable tb k:i:n,g:i:n,v:s:n")
        n = rng.choice([400, 600])
        want = []
        for i in range(n):
            v = pad(150 + i % 60, i)
            db.cmd("rawinsert ta i:%d i:%d s:%s" % (i, i % 7, v.encode().hex()))
            want.append("i:%d,i:%d,s:%s" % (i, i % 7, v.encode().hex()))
        db.cmd("checkpoint")
        db.cmd("mark SETUP-DONE")
        db.cmd("begin x")
        stmts = [rng.choice(["UPDATE ta SET g = 99 WHERE k >= 0 OR k >= 0;", "UPDATE ta SET g = 98 WHERE g < 4 OR g < 4;"])]
        if rng.random() < 0.5:
            stmts.append("DELETE FROM ta WHERE g = 99 AND k < 50 OR g = 98 AND k < 50;")
        for q in stmts:
            db.cmd("tsql x " + q, timeout=120)
        # a small committed transaction afterwards: the log (with the big one's records) is durable
        db.cmd("mark B 1"); db.sql("INSERT INTO tb(k,g,v) VALUES (1, 1, 'z');"); db.cmd("mark E 1 ok")
        tp = os.path.join(db.dir, "loser.trace")
        db.cmd("trace " + tp)
        trace = load_trace(tp)
        e1 = next(i for i, e in enumerate(trace) if e[0] == "M" and e[1] == "E 1 ok")
        s0 = next(i for i, e in enumerate(trace) if e[0] == "M" and e[1] == "SETUP-DONE")
        io = [p for p in range(s0, len(trace) + 1) if p == len(trace) or trace[p][0] != "M"]
        mid = [p for p in io if p <= e1]
        pts = sorted(set([len(trace)] + [p for p in io if p > e1][:2] + rng.sample(mid or [len(trace)], min(5, len(mid) or 1))))
        want_a = "ok:" + ";".join(sorted(want))
        rmem = rng.choice([64, 80])

        def one(p):
            return p, restart_on(image_at(trace, p), ["ta", "tb"], mem_kb=rmem, timeout=120)
        for p, out in parallel(one, pts):
            res.note_case("bigloser|%d|%d|%d" % (n, frames, p), True)
            where = "unfinished transaction (%s) over %d rows / ~%d pages in a %d-frame pool, crash after %d I/O events, restart in a %d-frame pool" % (" ".join(stmts), n, n // 18, frames, sum(1 for e in trace[:p] if e[0] != "M"), rmem // 4)
            bad = None
            if out["status"] != "ok":
                bad = "restart fails: %s" % out.get("detail", out["status"])
            elif out["rows"]["ta"] != want_a:
                got = set(out["rows"]["ta"][3:].split(";"))
                bad = "effects of the unfinished transaction remain after restart: %d rows of ta differ from the committed rows (e.g. %s)" % (len(got ^ set(want)), sorted(got - set(want))[:1])
            if bad and len(fails) < 2:
                fails.append(("# verifharness db session: mktable ta k:i:n,g:i:n,v:s:n; %d x rawinsert; checkpoint; begin x; %s (left unfinished); INSERT INTO tb (committed); crash at trace position %d\n# crash-point %d None" % (n, " ".join(stmts), p, p), where + ": " + bad))
    finally:
        db.destroy()
    return fails


def run(res, replay=None, mode="c01"):
    res.rule = ("serial histories of 6-14 units on two SQL-created tables (auto-commit INSERT/UPDATE/DELETE incl. growing updates that relocate rows, explicit transactions that commit or abort, "
                "forced checkpoints, one transaction left in flight), buffer pools from 45 frames (forcing evictions) to 300; the recorded I/O trace is cut at every I/O boundary after set-up "
                "(all boundaries next to commit markers plus a seeded sample when there are many), a third of the crash points additionally with the next write torn; each image is restarted in a fresh process; "
                "checkpoint batches (written in map order) additionally with one later page of the batch alone; one transaction larger than the log buffer (2,300 / 7,000 wide inserts); "
                "non-trivial = distinct (history, crash point) with >= 1 returned commit and >= 1 page write before the crash")
    res.trusted = COMMON_TRUSTED + ["hook H1 (I/O trace recorder around the disk manager) and the python image materialiser (lib/crashlib.py)",
                                    "a completed WriteLog/WritePage is taken as durable (the engine syncs the log file; it never syncs the data file)"]
    res.assumptions = ["histories are serial at statement granularity (one explicit transaction open at a time besides auto-commit statements); interleaved transactions are C04/C05's subject"]
    go_ok = standard_build(res)
    if not go_ok:
        return
    rng = random.Random(res.seed)
    nh = (16 if mode == "c01" else 24) if res.tier == "quick" else 120
    if mode == "c01":
        for d, w in big_txn_history(res, rng, 2300 if res.tier == "quick" else 7000):
            if len(res.oracle_failures) < 5:
                res.oracle_failures.append((d, w))
    for _ in range(2 if res.tier == "quick" else 12):
        for d, w in chain_subset_images(res, rng):
            if len(res.oracle_failures) < 5:
                res.oracle_failures.append((d, w))
    for _ in range(3 if res.tier == "quick" else 20):
        for d, w in link_window_history(res, rng):
            if len(res.oracle_failures) < 5:
                res.oracle_failures.append((d, w))
    if mode != "c01":
        for _ in range(2 if res.tier == "quick" else 12):
            for d, w in big_loser_history(res, rng):
                if len(res.oracle_failures) < 5:
                    res.oracle_failures.append((d, w))
    for i in range(nh):
        mem = rng.choice([180, 240, 400, 1200])
        md = ["small", "big", "grow", "aborts", "grow", "wide"][i % 6] if mode == "c01" else ["aborts", "abortgrow", "wide", "big", "abortgrow", "small", "grow", "wide"][i % 8]
        for d, w in check_history(rng, res, md, mem, rng.randrange(6, 15), 40 if res.tier == "quick" else 150):
            if len(res.oracle_failures) < 5:
                res.oracle_failures.append((d, w))
