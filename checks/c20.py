"""C20 — recovery can be interrupted and repeated.  For crash images reachable
under C01/C02 the recovery run's OWN I/O trace (page writes, log truncation,
log writes; hook H1) is recorded, cut at every boundary, and recovery is run
again on the nested image; also recovery is simply repeated.  The final tables
must equal the committed state of the first crash."""
import random, shutil
from vlib import *
from crashcheck import *
import c01
import startupcheck


RMEM = 180


def chain_nested(res, rng):
    """committed-only history whose log creates a chain of table pages the db file has never seen (wide rows, no checkpoint, big pool:
    nothing but the log reaches the disk); crash; the first recovery writes its pages in map order; it is interrupted after every
    prefix of these writes (a later page of the chain without its predecessor, a predecessor without its successor, ...) and
    recovery is run again: all committed rows must be there, the table must accept new rows, and these must survive another crash"""
    from dbsession import DB
    import os
    fails = []
    db = DB(mem_kb=4000)
    try:
        if not db.open().startswith("ok"):
            return [("open", "database does not start")]
        sqlt = rng.random() < 0.5
        if sqlt:
            db.sql("CREATE TABLE ta(k int, g int, v varchar(255));"); db.sql("CREATE TABLE tb(k int, g int, v varchar(255));")
        else:
            db.cmd("mktable ta k:i:n,g:i:n,v:s:n"); db.cmd("mktable tb k:i:n,g:i:n,v:s:n")
        db.cmd("checkpoint")
        db.cmd("mark SETUP-DONE")
        n = rng.randrange(35, 70)
        want = []
        for i in range(n):
            v = pad(200 + i % 50, i)
            db.sql("INSERT INTO ta(k,g,v) VALUES (%d, %d, '%s');" % (i, i % 7, v))
            want.append("i:%d,i:%d,s:%s" % (i, i % 7, v.encode().hex()))
            if i % 9 == 0:
                db.sql("INSERT INTO tb(k,g,v) VALUES (%d, 1, 'b');" % i)
        want_a = "ok:" + ";".join(sorted(want))
        tp = os.path.join(db.dir, "chain.trace")
        db.cmd("trace " + tp)
        trace = load_trace(tp)
        base = image_at(trace, len(trace))
        first = restart_on(base, ["ta", "tb"], mem_kb=400, probe=False, want_trace=True)
        shutil.rmtree(first.get("dir", "/nonexistent"), ignore_errors=True)
        rtrace = first.get("trace") or []
        if first["status"] != "ok" or first["rows"]["ta"] != want_a:
            return [("# session:\n" + "\n".join(l[:120] for l in db.log[:8]) + "\n...", "plain recovery of a log that creates a page chain fails (C01's subject): %s" % (first.get("detail") or first["rows"]["ta"][:200]))]
        ks = [k for k in range(len(rtrace) + 1) if k == len(rtrace) or rtrace[k][0] != "M"]

        def one(k):
            return k, restart_on(image_at(rtrace, k, base=base), ["ta", "tb"], mem_kb=400, durability=(k % 2 == 0))
        for k, out in parallel(one, ks):
            res.note_case("chain|%s|%d|%d" % ("sql" if sqlt else "api", n, k), any(e[0] == "P" for e in rtrace[:k]))
            res.extra["nested_images"] = res.extra.get("nested_images", 0) + 1
            bad = None
            if out["status"] != "ok":
                bad = "restart after the interrupted recovery fails: %s" % out.get("detail", out["status"])
            elif out["rows"]["ta"] != want_a:
                got = out["rows"]["ta"][3:].split(";") if out["rows"]["ta"] != "ok:" else []
                bad = "committed rows are lost: ta has %d rows, %d were committed before the first crash" % (len(got), n)
            elif out.get("probe", "ok") != "ok":
                bad = str(out.get("probe"))
            elif out.get("durability", "ok") != "ok":
                bad = out["durability"]
            if bad and len(fails) < 2:
                fails.append(("# verifharness db session: %s tables ta, tb; checkpoint; %d auto-commit inserts of 200-250 byte rows into ta (and a few into tb), no page write; crash\n"
                              "# first recovery's I/O: %s\n# interrupted after %d of them; then a complete recovery" % ("SQL-created" if sqlt else "catalog-API (no index)", n,
                              " ".join(e[0] + (str(e[1]) if e[0] == "P" else "") for e in rtrace if e[0] != "M"), sum(1 for e in rtrace[:k] if e[0] != "M")),
                              "recovery interrupted after %s and repeated: %s" % ("writing pages " + ",".join(str(e[1]) for e in rtrace[:k] if e[0] == "P") if any(e[0] == "P" for e in rtrace[:k]) else "no write", bad)))
    finally:
        db.destroy()
    return fails


def run(res, replay=None):
    res.rule = ("base crash images sampled from serial histories as in C01/C02 (no torn writes); for each, recovery is run with tracing and EVERY prefix of its own I/O trace "
                "(page writes of redone/undone pages, log truncation, new log writes) is applied to the image and recovery is run again (depth 2; a sample continued to depth 3); "
                "additionally recovery is repeated 3 times on the same image; a third of the nested images get the durability follow-up (commit on an existing page, kill, restart) and their whole life "
                "(fresh database, first crash, interrupted restart, second restart) is replayed through the extracted start-up model, which must accept the LSN of every record the engine wrote; non-trivial = distinct nested image whose first recovery performed >= 1 page write before the second crash")
    res.trusted = COMMON_TRUSTED + ["hook H1 and the python image materialiser (lib/crashlib.py)"]
    res.assumptions = ["crash points are I/O boundaries of the recovery run; torn writes inside recovery are not enumerated"]
    go_ok = standard_build(res)
    if not go_ok:
        return
    rng = random.Random(res.seed)
    for _ in range(3 if res.tier == "quick" else 20):
        for d, w in chain_nested(res, rng):
            if len(res.oracle_failures) < 5:
                res.oracle_failures.append((d, w))
    nh = 5 if res.tier == "quick" else 32
    nbase = 6 if res.tier == "quick" else 12
    for i in range(nh):
        mem = rng.choice([180, 240, 400])
        # ("grow": tables gain page after page, so the crashed log creates chains of pages the file has never seen and the first
        #  recovery's own page writes reach the file in any order: a later page of a chain without its predecessor)
        h = History(rng, ["grow", "aborts", "big", "small"][i % 4], mem)
        try:
            h.run(rng.randrange(6, 13))
            if h.fail:
                res.oracle_failures.append(("# session:\n" + "\n".join(h.db.log[-200:]), h.fail)); continue
            states, order = expected_states(h.units)
            trace = h.trace
            pts = crash_points(trace, rng, 1000)
            rng.shuffle(pts)
            for p in pts[:nbase]:
                allowed, nret = allowed_at(trace, p, order)
                base = image_at(trace, p)
                first = restart_on(base, TABLES, mem_kb=RMEM, probe=False, want_trace=True)
                shutil.rmtree(first.get("dir", "/nonexistent"), ignore_errors=True)
                if first["status"] != "ok":
                    continue     # C01's subject
                rtrace = first.get("trace") or []
                # which committed state did the first (complete) recovery produce?
                got0 = first["rows"]
                js = [j for j in allowed if j < len(states) and all(got0[t] == states[j][t] for t in TABLES)]
                if not js:
                    continue     # C01/C02's subject
                jobs = [("nested", k) for k in range(len(rtrace) + 1) if k == len(rtrace) or rtrace[k][0] != "M"]
                jobs.append(("repeat", 3))

                def one(job):
                    kind, k = job
                    if kind == "nested":
                        img = image_at(rtrace, k, base=base)
                        # a third of the nested images (and every one cut right after the log truncation) also get the durability
                        # follow-up: commit new work after the repeated recovery, crash, restart, look for it
                        dur = (k > 0 and rtrace[k - 1][0] == "G") or (k % 3 == 1)
                        out = restart_on(img, TABLES, mem_kb=RMEM, durability=dur, want_trace=dur)
                        if dur:
                            shutil.rmtree(out.get("dir", "/nonexistent"), ignore_errors=True)
                            if out["status"] == "ok":
                                # the whole life (fresh database .. first crash, interrupted restart, second restart) for the start-up model
                                out["life"] = startupcheck.life([trace[:p], rtrace[:k], out.get("trace") or []])
                        if out["status"] == "ok" and rng.random() < 0.15:
                            # depth 3: crash the second recovery at its first page write boundary as well
                            o2 = restart_on(img, TABLES, mem_kb=RMEM, probe=False, want_trace=True)
                            shutil.rmtree(o2.get("dir", "/nonexistent"), ignore_errors=True)
                            t2 = o2.get("trace") or []
                            cut = next((x for x in range(len(t2)) if t2[x][0] == "P"), len(t2))
                            out = restart_on(image_at(t2, min(cut + 1, len(t2)), base=img), TABLES, mem_kb=RMEM)
                            out["depth3_prefix"] = t2[:min(cut + 1, len(t2))]
                        return job, out
                    img = base.copy()
                    out = None
                    for _ in range(k):
                        o = restart_on(img, TABLES, mem_kb=RMEM, probe=False, want_trace=True)
                        t2 = o.get("trace") or []
                        shutil.rmtree(o.get("dir", "/nonexistent"), ignore_errors=True)
                        if o["status"] != "ok":
                            return job, o
                        img = image_at(t2, len(t2), base=img)
                        out = o
                    return job, restart_on(img, TABLES, mem_kb=RMEM, durability=True)
                results = parallel(one, jobs)
                lives = [(k, out["life"]) for (kind, k), out in results if "life" in out] + [("full", startupcheck.life([trace[:p], rtrace]))]
                rcs, souts, serr = startupcheck.run_driver([l for _, l in lives])
                if rcs != 0 or len(souts) != len(lives):
                    res.broken.append("start-up model driver failed (rc=%d): %s" % (rcs, serr))
                else:
                    res.extra["startup_lives_checked"] = res.extra.get("startup_lives_checked", 0) + len(lives)
                    for (k, l), o in zip(lives, souts):
                        if not o.startswith("ok") and len(res.mismatches) < 5:
                            at = int(o.split("at=")[1]) if "at=" in o else 0
                            res.mismatches.append((c01.render_replay(h, p, None) + "# nested %s; lines for build/startup_driver around the rejected one:\n%s\n" % (k, "\n".join(x[:120] for x in l[max(0, at - 8):at + 2])),
                                                   "the start-up model (Model/Startup.v) rejects the engine's I/O trace of a restart: %s (code 1: a record's LSN is not the next LSN; code 2: the first record after the log truncation does not carry greatest LSN + 1)" % o))
                for (kind, k), out in results:
                    nontriv = kind == "nested" and any(e[0] == "P" for e in rtrace[:k])
                    res.note_case("%s|%d|%s|%d" % (" ".join(h.desc), p, kind, k), nontriv)
                    bad = None
                    if out["status"] != "ok":
                        bad = "restart after an interrupted recovery fails: %s" % out.get("detail", out["status"])
                    elif "probe" in out and out.get("probe") != "ok":
                        bad = "database restarted after an interrupted recovery does not accept statements: %s" % out.get("probe")
                    elif out.get("durability", "ok") != "ok":
                        bad = out["durability"]
                    elif not any(all(out["rows"][t] == states[j][t] for t in TABLES) for j in allowed if j < len(states)):
                        bad = "tables after the repeated recovery differ from the transactions committed before the first crash: " + "; ".join(
                            "%s: engine %s | committed %s" % (t, out["rows"][t][:300], states[js[0]][t][:300]) for t in TABLES if out["rows"][t] != states[js[0]][t])
                    last_prefix = out.get("depth3_prefix", rtrace[:k] if kind == "nested" else [])
                    if "depth3_prefix" in out and any(e[0] == "G" for e in rtrace[:k]):
                        last_prefix = [e for e in out["depth3_prefix"]]
                    in_flush_phase = any(e[0] == "P" for e in last_prefix) and not any(e[0] == "G" for e in last_prefix)
                    if "depth3_prefix" in out and not any(e[0] == "G" for e in rtrace[:k]):
                        in_flush_phase = in_flush_phase or (any(e[0] == "P" for e in rtrace[:k]))
                    if bad and kind == "nested" and in_flush_phase and losers(parse_log(base.log)):
                        # known finding F-REC-NOCLR: the undo pass of recovery is not logged and does not stamp pages; a crash after
                        # undone pages were written but before the log was truncated makes the next recovery undo the same transaction again
                        res.known_hits["F-REC-NOCLR"] = ("recovery interrupted while flushing undone pages (before log truncation) with an unfinished transaction in the log: "
                                                         "the next restart undoes it a second time (%s)" % bad[:160])
                        continue
                    if bad and len(res.oracle_failures) < 5:
                        where = ("first crash at trace position %d; recovery interrupted after %d of its %d I/O events" % (p, sum(1 for e in rtrace[:k] if e[0] != "M"), sum(1 for e in rtrace if e[0] != "M"))
                                 if kind == "nested" else "first crash at trace position %d; recovery repeated %d times" % (p, k))
                        res.oracle_failures.append((c01.render_replay(h, p, None) + "# nested %s %d\n" % (kind, k), where + ": " + bad))
                res.extra["nested_images"] = res.extra.get("nested_images", 0) + len(jobs)
                if len(res.samples) < 3:
                    res.samples.append("%s | first crash at %d | recovery trace: %s" % (" ".join(h.desc), p, " ".join(e[0] + (str(e[1]) if e[0] == "P" else "") for e in rtrace if e[0] != "M")))
        finally:
            h.close()
