"""C12 — concurrent SQL calls are answered once, atomically and in a serial
order.  Theorems in coq/Props/C12.v (request-queue model); correspondence: N
client goroutines issue statements through the real ExecuteSQL entry point
(RequestManager + worker goroutines + retry of aborted statements); the
invocation/response history is checked: every call returned exactly one result
of its own statement's shape, multi-row updates are seen all-or-nothing, every
group of rows behaves as a linearizable register (serial order consistent with
real time), unique inserts appear exactly once, no call hangs."""
import os, random, shutil, subprocess, sys, tempfile
from vlib import *

sys.setrecursionlimit(100000)


def linearizable(ops, init):
    """ops: list of (inv, resp, kind, val) with kind 'W' (val written) / 'R' (val read); register semantics.
    Wing & Gong search with memoisation. Returns True / False."""
    n = len(ops)
    ops = sorted(ops)
    memo = set()

    def go(done, val):
        if len(done) == n:
            return True
        key = (done, val)
        if key in memo:
            return False
        # minimal response among pending ops bounds which ops may go first
        pending = [i for i in range(n) if i not in done]
        minresp = min(ops[i][1] for i in pending)
        for i in pending:
            inv, resp, kind, v = ops[i]
            if inv > minresp:
                continue
            if kind == "W":
                if go(done | {i}, v):
                    return True
            elif v == val:
                if go(done | {i}, val):
                    return True
        memo.add(key)
        return False
    return go(frozenset(), init)


def linearizable_fast(ops, init):
    """Polynomial decision for a register whose written values are unique (Gibbons & Korach, 'Testing shared
    memories'): group the operations into clusters (the write of a value and the reads returning it); with
    f = earliest response and s = latest invocation of a cluster, the cluster's zone is forward [f,s] if f < s and
    backward [s,f] otherwise.  Linearizable iff no read responds before its write is invoked, no two forward
    zones overlap and no backward zone lies inside a forward zone.  The initial value is a write before everything.
    Cross-checked against the exhaustive search on random small histories by self_test()."""
    clusters = {init: [(-2, -1)]}
    writes = {init: (-2, -1)}
    for inv, resp, kind, v in ops:
        if kind == "W":
            if v in writes:
                return False
            writes[v] = (inv, resp)
            clusters.setdefault(v, []).append((inv, resp))
    for inv, resp, kind, v in ops:
        if kind == "R":
            if v not in writes:
                return False
            if resp < writes[v][0]:
                return False
            clusters[v].append((inv, resp))
    fwd, bwd = [], []
    for v, c in clusters.items():
        f = min(r for _, r in c)
        s = max(i for i, _ in c)
        if f < s:
            fwd.append((f, s))
        else:
            bwd.append((s, f))
    fwd.sort()
    for a, b in zip(fwd, fwd[1:]):
        if b[0] < a[1]:
            return False
    for lo, hi in bwd:
        for f, s in fwd:
            if f < lo and hi < s:
                return False
    return True


def self_test(rng, n=400):
    """the fast decision procedure agrees with the exhaustive search on random small histories"""
    for _ in range(n):
        k = rng.randrange(2, 8)
        t = 0
        ops, nextv, written = [], 1, [0]
        evs = []
        for i in range(k):
            inv = rng.randrange(0, 20); dur = rng.randrange(1, 8)
            if rng.random() < 0.5:
                ops.append((inv * 2, (inv + dur) * 2 + 1, "W", nextv)); written.append(nextv); nextv += 1
            else:
                ops.append((inv * 2, (inv + dur) * 2 + 1, "R", rng.choice(written + [nextv])))
        # make timestamps distinct
        ops = [(a * 100 + j, b * 100 + j, kd, v) for j, (a, b, kd, v) in enumerate(ops)]
        ops = [o for o in ops if o[2] == "W" or o[3] in written]
        if linearizable(ops, 0) != linearizable_fast(ops, 0):
            return "decision procedures disagree on %s" % ops
    return None


def qtrace_to_schedule(events):
    """the H4 event trace of the real request manager as a schedule of Model/ReqMgr.v labels.  The real loop records
    a dispatch only when it starts a request; the model's Dispatch label is mandatory after every receive/delivery, so an
    `X -` (dispatch that starts nothing) is inserted right after the loop event that precedes a missing dispatch: the
    queue only shrinks and the in-flight counter only changes through the loop itself, so 'nothing to start' at the real
    check implies 'nothing to start' at that earlier point."""
    out = []
    loop_idx = [i for i, e in enumerate(events) if e[0] in "LDX"]
    nxt = {i: (events[loop_idx[j + 1]] if j + 1 < len(loop_idx) else None) for j, i in enumerate(loop_idx)}
    for i, e in enumerate(events):
        out.append(e)
        f = e.split()
        owes = (f[0] == "L" and (f[1] == "token" or f[2] == "ab")) or f[0] == "D"
        if owes and nxt[i] is not None and not nxt[i].startswith("X"):
            out.append("X -")
    return out


def model_check_trace(res, cfg, events, all_returned=True):
    """run the extracted request-queue model on the real trace; returns an error string or None"""
    sched = qtrace_to_schedule(events)
    rc, ans = run_model("c12_driver", ";".join(sched) + "\n")
    ans = ans.strip()
    res.extra["req_events_checked"] = res.extra.get("req_events_checked", 0) + len(sched)
    res.extra["req_traces_checked"] = res.extra.get("req_traces_checked", 0) + 1
    for k in ("E", "T", "L", "X", "D", "F"):
        res.distribution["req_" + k] = res.distribution.get("req_" + k, 0) + sum(1 for e in sched if e.startswith(k + " "))
    res.distribution["req_F_aborted"] = res.distribution.get("req_F_aborted", 0) + sum(1 for e in sched if e.startswith("F ") and e.endswith(" ab"))
    if not ans.startswith("ok"):
        k = None
        if "@" in ans:
            try:
                k = int(ans.split("@")[1].split()[0])
            except ValueError:
                pass
        ctx = " ; ".join(sched[max(0, (k or 0) - 12):(k or 0) + 3]) if k is not None else ""
        return "request-queue model rejects the real event trace: %s (events around it: %s)" % (ans, ctx)
    if all_returned:
        # every call returned in the real run: the model must have every caller done and nothing pending
        import re
        m = re.search(r"callers=(\S+)", ans)
        if m:
            cs = dict(x.split(":") for x in m.group(1).split(","))
            if any(int(v) for k2, v in cs.items() if k2 != "DONE"):
                return "all real calls returned but the model still has unanswered callers: " + ans
    return None


def one_run(res, clients, calls, groups, rpg, seed, nins, gomaxprocs, bg=False):
    d = tempfile.mkdtemp(prefix="c12_", dir=os.path.join(BUILD, "tmp"))
    try:
        env = dict(os.environ, GOMAXPROCS=str(gomaxprocs))
        if bg:
            # an explicit transaction holds shared locks on a group's rows for 5-35 ms at a time: updates abort and are retried even
            # when no other client's request is running
            env["VERIF_C12_HOLDER"] = "1"
        try:
            p = subprocess.run([HARNESS_BIN, "c12", "-", d, str(clients), str(calls), str(groups), str(rpg), str(seed), str(nins), "25" if bg else "60"],
                               capture_output=True, text=True, timeout=120, env=env, cwd=d)
            out = p.stdout
        except subprocess.TimeoutExpired as e:
            out = (e.stdout or b"").decode(errors="replace") if not isinstance(e.stdout, str) else e.stdout
            out = (out or "") + "\nHUNG\n"
        lines = out.strip().split("\n")
        qtr = [l for l in lines if l.startswith("QTRACE ")]
        lines = [l for l in lines if not l.startswith("QTRACE ")]
        cfg = "clients=%d calls=%d groups=%d rows/group=%d inserts=%d GOMAXPROCS=%d seed=%d%s" % (clients, calls, groups, rpg, nins, gomaxprocs, seed, " + a background transaction holding shared row locks" if bg else "")
        if "DONE" not in lines:
            hung = [l for l in lines if l.endswith("HUNG") and l != "HUNG"]
            return cfg, "a call blocks forever (or the process died): %s" % (hung[:3] or lines[-3:])
        if qtr:
            bad = model_check_trace(res, cfg, [e for e in qtr[0][7:].split(";") if e])
            if bad:
                res.mismatches.append(("# verifharness c12 with " + cfg + "\n# schedule for build/c12_driver:\n" + ";".join(qtrace_to_schedule([e for e in qtr[0][7:].split(";") if e])), bad))
        else:
            res.broken.append("the harness printed no request-queue trace (hook H4)")
        calls_seen = {}
        ncell = groups * rpg
        def cells_of(dim, idx):
            return [idx * rpg + c for c in range(rpg)] if dim == "g" else [r * rpg + idx for r in range(groups)]
        regs = {k: [] for k in range(ncell)}          # one register per row
        writer = {0: ("init", -1)}                     # written value -> (dim, idx) of the statement that wrote it
        reads = []
        final_acct, final_ins = None, None
        for l in lines:
            if l.startswith("FINAL acct"):
                final_acct = l.split()[2:]
            elif l.startswith("FINAL ins"):
                final_ins = l.split()[2:]
            elif l and l[0].isdigit():
                f = l.split()
                c, s, inv, resp, kind = int(f[0]), int(f[1]), int(f[2]), int(f[3]), f[4]
                result = f[-1]
                if (c, s) in calls_seen:
                    return cfg, "call %d.%d answered twice" % (c, s)
                calls_seen[(c, s)] = l
                res.extra["calls"] = res.extra.get("calls", 0) + 1
                if kind == "W":
                    if result not in ("ok", "rows="):
                        return cfg, "update call got a result that is not its own: %s" % l
                    dim, idx, u = f[5], int(f[6]), int(f[7])
                    writer[u] = (dim, idx)
                    for k in cells_of(dim, idx):
                        regs[k].append((inv, resp, "W", u))
                elif kind in ("R", "S"):
                    if not result.startswith("rows="):
                        return cfg, "read call got a result that is not its own: %s" % l
                    dim, idx = f[5], int(f[6])
                    rows = [tuple(int(x) for x in r.split(":")) for r in result[5:].split(",") if r]
                    if sorted(k for k, _ in rows) != sorted(cells_of(dim, idx)):
                        return cfg, "read of %s = %d returned rows of the wrong group / missed rows: %s" % (dim, idx, l)
                    reads.append((dim, idx, rows, l))
                    for k, v in rows:
                        regs[k].append((inv, resp, "R", v))
                elif kind == "I":
                    if result not in ("ok", "rows="):
                        return cfg, "insert call failed: %s" % l
        if len(calls_seen) != clients * (calls + nins):
            return cfg, "%d calls returned, %d were issued" % (len(calls_seen), clients * (calls + nins))
        want_ins = sorted(str(c * 100000 + s) for c in range(clients) for s in range(calls, calls + nins))
        if sorted(final_ins or []) != want_ins:
            return cfg, "inserted keys are not present exactly once: %d rows for %d inserts" % (len(final_ins or []), len(want_ins))
        fin_rows = [(int(e.split(":")[0]), int(e.split(":")[2])) for e in final_acct]
        if sorted(k for k, _ in fin_rows) != list(range(ncell)):
            return cfg, "final table does not hold exactly the %d rows: %s" % (ncell, final_acct[:8])
        final_reads = [("g", r, [(k, v) for k, v in fin_rows if k // rpg == r], "final table") for r in range(groups)] + \
                      [("h", c2, [(k, v) for k, v in fin_rows if k % rpg == c2], "final table") for c2 in range(rpg)]
        for dim, idx, rows, l in reads + final_reads:
            own = set()
            for k, v in rows:
                if v not in writer:
                    return cfg, "a read returned a value no statement wrote (row %d = %d): %s" % (k, v, l)
                wd, wi = writer[v]
                if wd != "init" and k not in cells_of(wd, wi):
                    return cfg, "a read returned, for row %d, the value of a statement that does not cover that row (%d written by %s = %d): %s" % (k, v, wd, wi, l)
                # statements that cover EVERY row of this read (same group; the initial load): the later one overwrites all rows at
                # once, so two of them cannot both be visible in one atomic read
                if wd == "init" or (wd == dim and wi == idx):
                    own.add(v)
            if len(own) > 1:
                return cfg, "a multi-row update was seen partially: rows of %s = %d carry the values %s of different statements that each cover the whole group: %s" % (dim, idx, sorted(own), l)
        for k in range(ncell):
            ops = regs[k] + [(10**9, 10**9 + 1, "R", dict(fin_rows)[k])]
            if not (linearizable(ops, 0) if len(ops) <= 14 else linearizable_fast(ops, 0)):
                return cfg, "the calls touching row %d admit no serial order consistent with real time (%d calls)" % (k, len(ops))
        return cfg, None
    finally:
        shutil.rmtree(d, ignore_errors=True)


def run(res, replay=None):
    res.rule = ("N in {1,2,8,32,64} client goroutines (thorough: up to 200), GOMAXPROCS in {1,4,16}, each issuing 6-12 calls through SamehadaDB.ExecuteSQL: multi-row updates with unique values over the row groups and the column groups of a 2-5 x 2-4 grid of rows (a row-group statement and a column-group statement overlap in one row), "
                "index-path and scan-path reads of a group, then unique inserts; checked: one result per call of the call's own shape, all-or-nothing visibility of multi-row updates (two statements that each cover the whole group read are never both visible; no value of a statement that does not cover the row), per-row linearizability "
                "(exhaustive Wing-Gong search up to 14 calls per group, Gibbons-Korach zone test above that; the two are cross-checked on random histories at start) including the final table, inserts exactly once, no call hangs (60 s watchdog); non-trivial = distinct run with >= 8 clients")
    res.trusted = COMMON_TRUSTED + ["python linearizability search (checks/c12.py) — a search for a witness order, exhaustive per row group", "call timestamps are a global atomic counter read before the call and after it returned"]
    res.assumptions = ["the Go scheduler's behaviour is sampled, not enumerated; liveness holds only if every statement aborts finitely often (no-wait locking can livelock in principle)"]
    go_ok = standard_build(res, need_ocaml=False)
    if not go_ok:
        return
    rng = random.Random(res.seed)
    st = self_test(rng)
    if st:
        res.broken.append("linearizability checker self-test failed: " + st)
        return
    # corpus first: the schedule of Model/ReqMgr.v's deadlock_schedule on the real request manager (fixed finding F-REQ-DEADLOCK)
    for others in ([120] if res.tier == "quick" else [101, 120, 300]):
        d = tempfile.mkdtemp(prefix="c12dl_", dir=os.path.join(BUILD, "tmp"))
        try:
            try:
                p = subprocess.run([HARNESS_BIN, "c12dl", "-", d, str(others), "3"], capture_output=True, text=True, timeout=120, cwd=d)
                lines = p.stdout.strip().split("\n")
            except subprocess.TimeoutExpired:
                lines = []
            ret = [l for l in lines if l.startswith("RETURNED ")]
            qtr = [l for l in lines if l.startswith("QTRACE ")]
            cfg = "c12dl others=%d (one caller held between enqueue and token send while %d callers fill the request channel)" % (others, others)
            res.note_case(cfg, True)
            if not ret or "SETUP true" not in lines:
                res.broken.append("deadlock-schedule scenario could not be set up: %s" % lines[:3])
            else:
                n, tot = int(ret[0].split()[1]), int(ret[0].split()[2])
                if n != tot:
                    res.oracle_failures.append(("# verifharness c12dl - <dir> %d 3\n# event trace (hook H4):\n%s" % (others, qtr[0][7:] if qtr else ""),
                                                "%d of %d ExecuteSQL calls never return: the run loop and a caller wait for each other (request channel full)" % (tot - n, tot)))
                elif qtr:
                    bad = model_check_trace(res, cfg, [e for e in qtr[0][7:].split(";") if e])
                    if bad:
                        res.mismatches.append(("# " + cfg, bad))
        finally:
            shutil.rmtree(d, ignore_errors=True)
    nruns = 24 if res.tier == "quick" else 200
    sizes = [1, 2, 8, 32, 64] if res.tier == "quick" else [1, 2, 8, 32, 64, 120, 200]
    for i in range(nruns):
        n = sizes[i % len(sizes)]
        gmp = [1, 4, 16][i % 3]
        bg = (i % 4 == 3)
        if bg:
            n = [1, 2, 1, 8][(i // 4) % 4]
        cfg, bad = one_run(res, n, rng.randrange(6, 13) if not bg else rng.randrange(30, 60), rng.randrange(2, 6), rng.randrange(2, 5), rng.randrange(1, 10**6), 2, gmp, bg=bg)
        res.note_case(cfg, n >= 8)
        if len(res.samples) < 3:
            res.samples.append(cfg)
        if bad and len(res.oracle_failures) < 5:
            res.oracle_failures.append(("# verifharness c12 with " + cfg, bad))
