"""C10 — tables keep identity, schema and data across restarts. Theorems in
coq/Props/C10.v (catalog id allocation model); correspondence: histories of
CREATE TABLE / DML / clean and crash restarts on file-backed databases, every
table checked by name (schema, rows, index- and scan-path answers) against the
reference after every restart and after creating further tables."""
import random
from vlib import *
from workload import Mirror


def history(rng, res, tier):
    m = Mirror(rng, mem_kb=rng.choice([400, 1200]))
    try:
        if not m.open():
            return m.fails
        ntab = 0
        steps = rng.randrange(6, 14)
        desc = []
        for s in range(steps):
            a = rng.random()
            if a < 0.35 or ntab == 0:
                name = "tb%d" % ntab
                if not m.create(name, via_sql=rng.random() < 0.6, ncols=rng.randrange(1, 7)):
                    break
                ntab += 1
                desc.append("create(%s)" % ",".join(m.tables[name][0]))
                for _ in range(rng.randrange(0, 8)):
                    m.insert(name)
            elif a < 0.55:
                name = rng.choice(list(m.tables))
                for _ in range(rng.randrange(1, 6)):
                    m.insert(name)
                desc.append("insert")
            elif a < 0.65:
                m.update(rng.choice(list(m.tables))); desc.append("update")
            elif a < 0.72:
                m.delete(rng.choice(list(m.tables))); desc.append("delete")
            else:
                clean = rng.random() < 0.6
                desc.append("restart(clean)" if clean else "restart(crash)")
                if not m.restart(clean=clean):
                    break
                for name in m.tables:
                    m.verify(name, nq=3, what="after restart")
            if m.fails or m.db.dead:
                break
        if not m.fails and not m.db.dead:
            for name in m.tables:
                m.verify(name, nq=3, what="at end")
        if m.db.dead and not m.fails:
            m.fail(m.db.log[-1], "engine stopped answering: " + m.db.dead)
        nrestart = sum(1 for d in desc if d.startswith("restart"))
        res.note_case(" ".join(desc), nrestart >= 1 and ntab >= 2)
        res.extra.setdefault("restarts", {"clean": 0, "crash": 0})
        res.extra["restarts"]["clean"] += desc.count("restart(clean)")
        res.extra["restarts"]["crash"] += desc.count("restart(crash)")
        if len(res.samples) < 4:
            res.samples.append(" ".join(desc))
        return m.fails
    finally:
        m.close()


def run(res, replay=None):
    res.rule = ("histories of 6-14 steps: CREATE TABLE (1-6 columns of int/float/varchar; SQL DDL or catalog API with none/skip-list/B-tree indexes), inserts, updates, deletes, "
                "clean restarts (Shutdown + reopen) and crash restarts (files closed or process killed, nothing flushed); after every restart and at the end every table is read by name: "
                "rows, index-path and scan-path answers vs the reference; non-trivial = distinct history with >= 2 tables and >= 1 restart")
    res.trusted = COMMON_TRUSTED + ["python workload mirror (lib/workload.py)"]
    res.assumptions = ["data durability across crash restarts is C01's subject; here crash restarts follow auto-committed statements only"]
    go_ok = standard_build(res)
    if not go_ok:
        return
    rng = random.Random(res.seed)
    n = 30 if res.tier == "quick" else 300
    for i in range(n):
        for d, w in history(rng, res, res.tier):
            if len(res.oracle_failures) < 5:
                res.oracle_failures.append((d, w))
