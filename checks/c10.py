"""C10 — tables keep identity, schema and data across restarts. Theorems in
coq/Props/C10.v (catalog id allocation model); correspondence: histories of
CREATE TABLE / DML / clean and crash restarts on file-backed databases, every
table checked by name (schema, rows, index- and scan-path answers) against the
reference after every restart and after creating further tables."""
import random
from vlib import *
from workload import Mirror


def check_ids(m, ops, res):
    """table ids and first pages as the catalog reports them vs the extracted catalog model
    (first pages are inputs to the model: taken from the implementation in creation order)"""
    ans = m.db.cmd("tables")
    if not ans.startswith("ok:"):
        m.fail("tables", "catalog listing failed: " + ans); return
    ents = [e.split(":") for e in ans[3:].split(",") if e]
    by_name = {e[1]: (int(e[0]), int(e[2])) for e in ents}
    oids = [int(e[0]) for e in ents]
    pages = [int(e[2]) for e in ents]
    if len(set(oids)) != len(oids):
        m.fail("tables", "two tables share an identifier: " + ans); return
    if len(set(pages)) != len(pages):
        m.fail("tables", "two tables share their first page: " + ans); return
    for name in m.tables:
        if name not in by_name:
            m.fail("tables", "table %s is no longer in the catalog: %s" % (name, ans)); return
    # model prediction
    created = ["tb%d" % i for i in range(len(m.tables))]
    k = 0
    mops = []
    for o in ops:
        if o == "C":
            mops.append("C %d" % by_name[created[k]][1]); k += 1
        else:
            mops.append("R")
    line = "%d;%s" % (by_name.get("columns_catalog", (0, 1))[1], ";".join(mops))
    rc, out = run_model("c10_driver", line + "\n")
    want = out.strip()
    got = ",".join("%d:%d" % (o, p) for o, p in sorted((int(e[0]), int(e[2])) for e in ents))
    res.extra["id_checks"] = res.extra.get("id_checks", 0) + 1
    if rc != 0 or want != got:
        res.mismatches.append((line, "catalog ids/first pages: implementation %s | model %s" % (got, want)))


def history(rng, res, tier):
    m = Mirror(rng, mem_kb=rng.choice([400, 1200]))
    try:
        if not m.open():
            return m.fails
        ntab = 0
        ops = []
        steps = rng.randrange(6, 14)
        desc = []
        for s in range(steps):
            a = rng.random()
            if a < 0.35 or ntab == 0:
                name = "tb%d" % ntab
                nc = rng.randrange(1, 7)
                # names: mixed-case table names in SQL text (identifiers are case-insensitive), column names of 1..120 characters
                cn = ["c%d" % i + ("_" + "n" * rng.choice([1, 20, 60, 120]) if rng.random() < 0.35 else "") for i in range(nc)]
                if not m.create(name, via_sql=rng.random() < 0.6, ncols=nc, kinds_pool="ns", colnames=cn, sqlname=rng.choice([name, name.upper(), name.capitalize(), "tB%d" % ntab])):
                    break
                ntab += 1
                ops.append("C")
                desc.append("create(%s)" % ",".join(m.tables[name][0]))
                for _ in range(rng.randrange(0, 8)):
                    m.insert(name)
            elif a < 0.55:
                name = rng.choice(list(m.tables))
                for _ in range(rng.randrange(1, 6)):
                    m.insert(name)
                desc.append("insert")
            elif a < 0.65:
                m.update(rng.choice(list(m.tables))); desc.append("update")
            elif a < 0.72:
                m.delete(rng.choice(list(m.tables))); desc.append("delete")
            else:
                clean = rng.random() < 0.6
                desc.append("restart(clean)" if clean else "restart(crash)")
                if not m.restart(clean=clean):
                    break
                ops.append("R")
                for name in m.tables:
                    m.verify(name, nq=3, what="after restart")
                check_ids(m, ops, res)
            if m.fails or m.db.dead:
                break
        if not m.fails and not m.db.dead:
            for name in m.tables:
                m.verify(name, nq=3, what="at end")
            check_ids(m, ops, res)
        if m.db.dead and not m.fails:
            m.fail(m.db.log[-1], "engine stopped answering: " + m.db.dead)
        nrestart = sum(1 for d in desc if d.startswith("restart"))
        res.note_case(" ".join(desc), nrestart >= 1 and ntab >= 2)
        res.extra.setdefault("restarts", {"clean": 0, "crash": 0})
        res.extra["restarts"]["clean"] += desc.count("restart(clean)")
        res.extra["restarts"]["crash"] += desc.count("restart(crash)")
        if len(res.samples) < 4:
            res.samples.append(" ".join(desc))
        return m.fails
    finally:
        m.close()


def run(res, replay=None):
    res.rule = ("histories of 6-14 steps: CREATE TABLE (1-6 columns of int/float/varchar; SQL DDL or catalog API with none/skip-list/B-tree indexes), inserts, updates, deletes, "
                "clean restarts (Shutdown + reopen) and crash restarts (files closed or process killed, nothing flushed); after every restart and at the end every table is read by name: "
                "rows, index-path and scan-path answers vs the reference; non-trivial = distinct history with >= 2 tables and >= 1 restart")
    res.trusted = COMMON_TRUSTED + ["python workload mirror (lib/workload.py)"]
    res.assumptions = ["data durability across crash restarts is C01's subject; here crash restarts follow auto-committed statements only"]
    go_ok = standard_build(res)
    if not go_ok:
        return
    # catalog persistence model (Model/CatalogRows.v, theorems of Props/C10Catalog.v) against the engine's two catalog heaps and
    # its by-name / by-oid maps over histories of CREATE TABLE (SQL and catalog API) and clean restarts (lib/catcorr.py, verifharness catrows)
    # listed finding F-BTREE-RESTART (a B-tree index after a crash restart followed by a clean restart): replayed on every run
    import c09
    c09.btree_probe(res)
    import catcorr
    catcorr.run_corr(res, random.Random(res.seed * 7919 + 10), 40 if res.tier == "quick" else 600)
    rng = random.Random(res.seed)
    # corpus: the fixed defect F-CAT-OID (create two tables, restart, create a third, read the first)
    m = Mirror(random.Random(7))
    try:
        if m.open():
            for nm in ("tb0", "tb1"):
                m.create(nm, via_sql=True, ncols=2, types=["i", "s"])
                m.insert(nm)
            m.restart(clean=True)
            m.create("tb2", via_sql=True, ncols=2, types=["i", "s"])
            m.insert("tb2")
            for nm in ("tb0", "tb1", "tb2"):
                m.verify(nm, nq=2, what="corpus F-CAT-OID")
            check_ids(m, ["C", "C", "R", "C"], res)
            if m.db.dead and not m.fails:
                m.fail("corpus F-CAT-OID", "engine stopped answering: " + m.db.dead)
        res.note_case("corpus F-CAT-OID", True)
        for d, w in m.fails:
            res.oracle_failures.append((d, "F-CAT-OID is back? " + w))
    finally:
        m.close()
    # a columns catalog of several pages: many tables with long column names, restarts in between, then tables whose
    # column rows have very different lengths (short rows fit into gaps of earlier catalog pages)
    for rep in range(3 if res.tier == "quick" else 20):
        r2 = random.Random(res.seed * 100 + rep)
        m = Mirror(r2, mem_kb=12000)      # every skip-list index keeps about three pages pinned for good
        try:
            if m.open():
                nt = 0
                for phase in range(3):
                    for _ in range(r2.choice([6, 10]) if phase == 0 else r2.randrange(3, 6)):
                        name = "tb%d" % nt
                        nc = r2.randrange(2, 9)
                        lens = [r2.choice([1, 3, 80, 110, 150]) for _ in range(nc)] if phase else [r2.choice([90, 110, 130])] * nc
                        if phase and r2.random() < 0.7:
                            lens[0], lens[1] = r2.choice([1, 3, 10, 20]), r2.choice([110, 130, 150])
                        cn = ["k%d%s" % (i, "w" * l) for i, l in enumerate(lens)]
                        if not m.create(name, via_sql=True, ncols=nc, types=["i"] * (nc - 1) + ["s"], colnames=cn, sqlname=r2.choice([name, name.capitalize()])):
                            break
                        nt += 1
                        for _ in range(r2.randrange(1, 4)):
                            m.insert(name)
                    if m.fails or not m.restart(clean=r2.random() < 0.5):
                        break
                    for name in m.tables:
                        m.verify(name, nq=1, what="wide catalog, after restart %d" % (phase + 1))
                    if m.fails:
                        break
                if m.db.dead and not m.fails:
                    m.fail("wide catalog", "engine stopped answering: " + m.db.dead)
            res.note_case("wide-catalog|%d" % rep, True)
            for d, w in m.fails:
                if len(res.oracle_failures) < 5:
                    res.oracle_failures.append((d, w))
        finally:
            m.close()
    n = 30 if res.tier == "quick" else 300
    for i in range(n):
        for d, w in history(rng, res, res.tier):
            if len(res.oracle_failures) < 5:
                res.oracle_failures.append((d, w))
