"""C19 — concurrent use of the engine is free of data races on the data path.
A data race is a fact about two memory accesses in the Go runtime; no Gallina
model can exhibit one.  The theorem proved (coq/Props/C19.v) is the lockset
discipline ("accesses under the location's guard are ordered by
happens-before"); the check builds the harness with the Go race detector and
runs the concurrent workloads of C12 (SQL clients, with and without
checkpoints / statistics updates / evictions) and C17 (index containers):
every report is classified; reports outside the listed classes are violations."""
import os, random, re, shutil, subprocess, tempfile
from vlib import *

LEVEL = "other"
RACE_BIN = os.path.join(BUILD, "verifharness_race")


def build_race():
    with Lock("build"):
        env = dict(GOENV, CGO_ENABLED="1")
        rc, out = sh("cp %s/lib/go.sum %s/go.sum && go build -race -tags verif -o %s ." % (REPO, HARNESS_SRC, RACE_BIN), cwd=HARNESS_SRC, timeout=1800, env=env)
    return rc == 0, out


def run_race(argv, env_extra=None, timeout=300):
    d = tempfile.mkdtemp(prefix="race_", dir=os.path.join(BUILD, "tmp"))
    try:
        env = dict(os.environ, GORACE="halt_on_error=0 history_size=2")
        env.update(env_extra or {})
        try:
            p = subprocess.run([RACE_BIN] + [a.replace("{D}", d) for a in argv], capture_output=True, text=True, errors="replace", timeout=timeout, env=env, cwd=d)
            return p.stdout, p.stderr
        except subprocess.TimeoutExpired as e:
            return "TIMEOUT", (e.stderr or b"").decode(errors="replace") if not isinstance(e.stderr, str) else (e.stderr or "")
    finally:
        shutil.rmtree(d, ignore_errors=True)


def reports(stderr):
    out = []
    for r in stderr.split("WARNING: DATA RACE")[1:]:
        r = r.split("==================")[0]
        head = r.split("Goroutine")[0]
        frames = re.findall(r"\n  (\S+)\n\s+(\S+):(\d+)", head)
        out.append((r, frames))
    return out


def access_sites(text):
    """(file, line) of the innermost frame of each of the two racing accesses"""
    sites = []
    for m in re.finditer(r"(?:Write|Read|Previous write|Previous read|Previous atomic write|Previous atomic read|Atomic write|Atomic read) at [^\n]*\n  \S+\n\s+(\S+):(\d+)", text):
        sites.append((m.group(1), int(m.group(2))))
    return sites


def debug_flag_only(text):
    """both accesses are assignments to the engine's debug/test flags common.NewRIDAt* (not storage-engine memory: nothing
    on the data path reads them)"""
    sites = access_sites(text)
    if len(sites) < 2:
        return False
    for f, ln in sites[:2]:
        try:
            line = open(f).read().split("\n")[ln - 1]
        except Exception:
            return False
        if "common.NewRIDAt" not in line:
            return False
    return True


def classify(frames):
    files = " ".join(f[1] for f in frames)
    funcs = " ".join(f[0] for f in frames)
    if "bltree-go-for-embedding" in files or "bltree-go-for-embedding" in funcs:
        return "F-RACE-BLTREE"
    if "catalog/statistics.go" in files:
        return "F-RACE-STATS"
    return None


def run(res, replay=None):
    res.extra["explanation"] = ("No executable model can exhibit a data race; what is logic — the lockset discipline implies happens-before ordering of conflicting accesses — is proved in Coq "
                                "(Props/C19.v). The decision on the implementation is made by the Go race detector over the concurrent workloads of C12 and C17 (sampled schedules), with every report "
                                "classified against the listed known classes; a report outside them is a violation, its text is the replay.")
    res.rule = ("harness built with -race; workloads: SQL clients through ExecuteSQL (8-32 goroutines; multi-row updates, index- and scan-path reads, inserts) without background work; explicit transactions (deletes, in-place / relocating / key-changing updates, inserts) that are aborted on purpose next to sequential and index scans of the same pages; the same with deletes that get rolled back on lock conflicts next to scans and with a session issuing CREATE TABLE meanwhile; the same with "
                "forced checkpoints + statistics updates every few ms and a 75-frame pool (evictions); concurrent inserters/deleters/readers/scanners on one skip-list index and on one B-tree index; "
                "non-trivial = distinct (workload, seed) run")
    res.trusted = ["Go race detector (ThreadSanitizer runtime, go build -race)", "classification of reports by source file (checks/c19.py)"] + COMMON_TRUSTED[:1]
    res.assumptions = ["reports whose two accesses are both assignments to the debug flags common.NewRIDAtNormal / NewRIDAtRollback are counted but not judged: the property is about storage-engine memory, nothing on the data path reads these flags",
                       "only schedules the race detector observes are covered; unsynchronised accesses that never execute concurrently in these workloads are not seen"]
    res.proof = proof_stage_safe(res)
    ok, out = build_race()
    if not ok:
        res.broken.append("harness does not build with the race detector: " + out[-800:])
        return
    rng = random.Random(res.seed)
    nrep = 1 if res.tier == "quick" else 6
    runs = []
    for i in range(nrep):
        s = rng.randrange(1, 10**6)
        runs += [
            ("sql-clients", ["c12", "-", "{D}", str(rng.choice([8, 16, 32])), "8", "3", "3", str(s), "2", "120"], {"GOMAXPROCS": "8"}),
            ("sql-clients+checkpoints+statistics+evictions", ["c12", "-", "{D}", "16", "8", "3", "3", str(s), "2", "120"], {"VERIF_C12_BG": "1", "VERIF_C12_MEMKB": "300", "GOMAXPROCS": "8"}),
            ("sql-clients+deletes+DDL", ["c12", "-", "{D}", "8", "150", "3", "3", str(s), "2", "120"], {"VERIF_C12_MIX": "1", "GOMAXPROCS": "8"}),
            ("sql-clients+deletes+DDL", ["c12", "-", "{D}", "16", "80", "3", "3", str(s + 1), "2", "120"], {"VERIF_C12_MIX": "1", "GOMAXPROCS": "16"}),
            ("explicit transactions aborted on purpose next to scanners", ["c19x", "-", "{D}", "4", "4", "80", str(s)], {"GOMAXPROCS": "8"}),
            ("explicit transactions aborted on purpose next to scanners", ["c19x", "-", "{D}", "8", "6", "40", str(s + 7)], {"GOMAXPROCS": "16"}),
            ("explicit transactions aborted on purpose next to scanners", ["c19x", "-", "{D}", "4", "4", "80", str(s + 11)], {"GOMAXPROCS": "4"}),
            ("explicit transactions aborted on purpose next to scanners", ["c19x", "-", "{D}", "8", "6", "40", str(s + 13)], {"GOMAXPROCS": "8"}),
            ("skip-list index", ["c17c", "-", "{D}", "s", "4", "4", "1500", str(s), "120"], {}),
            ("b-tree index", ["c17c", "-", "{D}", "b", "4", "4", "1500", str(s), "120"], {}),
        ]
    classes = {}
    for name, argv, env in runs:
        stdout, stderr = run_race(argv, env)
        res.note_case(name + "|" + argv[-3], True)
        if "DONE" not in stdout:
            res.oracle_failures.append((" ".join(argv), "workload '%s' did not finish under the race detector: %s" % (name, stdout[-200:])))
            continue
        for text, frames in reports(stderr):
            if debug_flag_only(text):
                res.extra["reports_on_debug_flags_outside_the_property"] = res.extra.get("reports_on_debug_flags_outside_the_property", 0) + 1
                continue
            c = classify(frames)
            classes[(name, c)] = classes.get((name, c), 0) + 1
            if c is None:
                if len(res.oracle_failures) < 5:
                    site = "; ".join("%s %s:%s" % (f[0].split("/")[-1], f[1].split("/lib/")[-1], f[2]) for f in frames[:1] + [x for x in frames if "SamehadaDB" in x[1] or "/repo/" in x[1]][:3])
                    res.oracle_failures.append(("# workload: %s (%s)\nWARNING: DATA RACE%s" % (name, " ".join(argv), text[:6000]), "data race outside the listed classes in workload '%s': %s" % (name, site)))
            elif c == "F-RACE-BLTREE":
                res.known_hits[c] = "data races inside the third-party B-link tree library (latch manager mixes atomic and plain accesses; page copies race with readers)"
            elif c == "F-RACE-STATS":
                res.known_hits[c] = "TableStatistics.Update (statistics updater) races with the planners reading the statistics (catalog/statistics.go)"
    res.distribution = {"reports_by_workload_and_class": {"%s / %s" % (k[0], k[1] or "UNLISTED"): v for k, v in classes.items()}}
    res.samples = [n for n, _, _ in runs[:4]]


def proof_stage_safe(res):
    with Lock("build"):
        ok, out = gen_params()
        pr = proof_stage(res.prop)
    for e in pr["errors"]:
        res.broken.append(e)
    return pr
