"""C09 — a clean shutdown and reopen changes nothing observable.  Theorem
clean_restart_changes_nothing (coq/Props/C09.v, from the recovery model);
correspondence: histories of DDL + DML with 1-3 clean shutdown/reopen cycles
interleaved with more work, every table compared (rows, index-path and
scan-path answers, raw index entries) with the reference after every reopen."""
import random
from vlib import *
from workload import Mirror


def history(rng, res, kinds_pool):
    m = Mirror(rng, mem_kb=rng.choice([240, 400, 1200]))
    desc = []
    try:
        if not m.open():
            return m.fails
        ntab = 0
        for cycle in range(rng.randrange(1, 4)):
            for _ in range(rng.randrange(2, 7)):
                a = rng.random()
                if a < 0.3 or ntab == 0:
                    name = "tb%d" % ntab
                    if not m.create(name, via_sql=rng.random() < 0.5, kinds_pool=kinds_pool):
                        break
                    ntab += 1
                    desc.append("create(%s/%s)" % (",".join(m.tables[name][0]), ",".join(m.tables[name][2])))
                    for _ in range(rng.randrange(0, 10)):
                        m.insert(name)
                elif a < 0.55:
                    name = rng.choice(list(m.tables))
                    for _ in range(rng.randrange(1, 8)):
                        m.insert(name)
                    desc.append("insert")
                elif a < 0.7:
                    m.update(rng.choice(list(m.tables))); desc.append("update")
                elif a < 0.8:
                    m.delete(rng.choice(list(m.tables))); desc.append("delete")
                else:
                    c = m.txn_block(list(m.tables) if rng.random() < 0.3 else rng.choice(list(m.tables)), rng.randrange(1, 5), rng.random() < 0.5)
                    desc.append("txn(%s)" % ("commit" if c else "abort"))
                if m.fails or m.db.dead:
                    break
            if m.fails or m.db.dead:
                break
            before = {n: (m.db.cmd("scan " + n)) for n in m.tables}
            desc.append("clean-restart")
            if not m.restart(clean=True):
                break
            for n in m.tables:
                after = m.db.cmd("scan " + n)
                if after != before[n]:
                    m.fail("scan " + n, "rows or row ids of %s changed across a clean shutdown/reopen: before %s | after %s" % (n, before[n][:300], after[:300]))
                m.verify(n, nq=4, what="after clean restart")
                m.verify_index(n, what="after clean restart")
        if m.db.dead and not m.fails:
            m.fail(m.db.log[-1], "engine stopped answering: " + m.db.dead)
        res.note_case(" ".join(desc), desc.count("clean-restart") >= 1 and ntab >= 1)
        if len(res.samples) < 4:
            res.samples.append(" ".join(desc))
        return m.fails
    finally:
        m.close()


def page_reuse_history(rng, res):
    """pages that were deallocated (temporary pages of hash joins, emptied index nodes) and handed out again to tables
    before a clean shutdown: after the reopen nothing may claim them a second time"""
    from sqlgen import Val
    m = Mirror(rng, mem_kb=rng.choice([1200, 4000]))
    try:
        if not m.open():
            return m.fails
        def fill(name, n, wide):
            for i in range(n):
                vals = m.rnd_vals(name, small=False)
                vals = [Val("s", (v.v + b"r" * 250)[:wide + i % 30]) if v.kind == "s" else v for v in vals]
                m.insert(name, vals)
        for name in ("ja", "jb"):
            m.create(name, via_sql=True, ncols=2, types=["i", "s"], colnames=[name + "k", name + "v"])
            fill(name, rng.choice([120, 200]), 120)
        for _ in range(rng.randrange(1, 4)):
            # the build side spans several temporary pages, all deallocated when the join ends
            m.db.sql("SELECT ja.jav, jb.jbv FROM ja JOIN jb ON ja.jak = jb.jbk;", timeout=60)
        if rng.random() < 0.5:
            m.delete("ja")
        if rng.random() < 0.5:
            m.create("jc", via_sql=rng.random() < 0.5, ncols=2, types=["i", "s"], kinds_pool="ns", colnames=["jck", "jcv"])
            fill("jc", rng.choice([40, 80]), 200)
        # (otherwise nothing is allocated between the last join and the shutdown: the temporary pages' ids lie beyond the end of the db
        #  file when it is closed, reusable and never written)
        for cycle in range(2):
            before = {n: m.db.cmd("scan " + n) for n in m.tables}
            if not m.restart(clean=True):
                break
            for n in m.tables:
                if m.db.cmd("scan " + n) != before[n]:
                    m.fail("scan " + n, "rows or row ids of %s changed across a clean shutdown/reopen (cycle %d)" % (n, cycle + 1))
                m.verify(n, nq=2, what="page reuse, after clean restart %d" % (cycle + 1))
            if m.fails or m.db.dead:
                break
            # allocations after the reopen
            m.create("jd%d" % cycle, via_sql=True, ncols=2, types=["i", "s"], colnames=["jdk", "jdv"])
            fill("jd%d" % cycle, 30, 200)
            if "jc" in m.tables:
                fill("jc", 20, 200)
            for n in m.tables:
                m.verify(n, nq=1, what="page reuse, after allocations following restart %d" % (cycle + 1))
                m.verify_index(n, what="page reuse, after allocations following restart %d" % (cycle + 1))
            if m.fails or m.db.dead:
                break
        if m.db.dead and not m.fails:
            m.fail(m.db.log[-1], "engine stopped answering: " + m.db.dead)
        res.note_case("page-reuse|%d" % rng.randrange(10**6), True)
        return m.fails
    finally:
        m.close()


def big_txn_clean_restart(res, rng, nrows):
    """one committed transaction whose log records exceed the log buffer (the buffer is swapped in the middle of it), a clean
    shutdown and a reopen: every row of it is still there, and the reopen is a clean one (no undo of committed work)"""
    from dbsession import DB, scan_rows
    db = DB(mem_kb=8000)
    try:
        if not db.open().startswith("ok"):
            return [("open", "database does not start")]
        db.cmd("mktable bt k:i:s,g:i:n,v:s:n")
        db.cmd("begin x")
        for i in range(nrows):
            r = db.cmd("tsql x INSERT INTO bt(k,g,v) VALUES (%d, %d, '%s');" % (i, i % 7, "w%05d" % i + "x" * (225 + i % 20)))
            if not r.startswith("ok"):
                return [("\n".join(l[:100] for l in db.log[-4:]), "insert %d of the big transaction failed: %s" % (i, r))]
        db.cmd("commit x")
        before = scan_rows(db.cmd("scan bt", timeout=60))
        db.cmd("close", timeout=120)
        if not db.open().startswith("ok"):
            return [("# mktable bt; begin; %d inserts of ~240 byte rows; commit; close; open" % nrows, "reopen after a clean shutdown fails: %s" % db.dead)]
        after = scan_rows(db.cmd("scan bt", timeout=60))
        cnt = db.sql("SELECT k FROM bt WHERE k >= %d;" % (nrows - 5))
        res.note_case("bigtxn-clean|%d" % nrows, True)
        res.evaluations += 1
        if after != before or len(before.split(";")) != nrows:
            return [("# mktable bt k:i:s,g:i:n,v:s:n; begin x; %d x tsql x INSERT (rows of ~240 bytes: more log than LogBufferSize); commit x; close; open; scan bt" % nrows,
                     "a clean shutdown and reopen changed the table: %d rows before (inserted %d), %d after; index lookup of the last keys: %s" % (len(before.split(";")) if before != "ok:" else 0, nrows, len(after.split(";")) if after != "ok:" else 0, cnt[:80]))]
        return []
    finally:
        db.destroy()


def btree_probe(res):
    """known finding F-BTREE-RESTART: a B-tree index after a crash restart followed by a clean restart"""
    rng = random.Random(5)
    m = Mirror(rng)
    try:
        if not m.open():
            return
        m.create("tb0", via_sql=False, ncols=2, types=["i", "i"], kinds_pool="b")
        for _ in range(6):
            m.insert("tb0")
        m.restart(clean=False)
        for _ in range(3):
            m.insert("tb0")
        ok = m.restart(clean=True)
        if ok:
            m.verify("tb0", nq=6, what="btree after crash+clean restart")
        if m.fails or m.db.dead:
            why = (m.fails[0][1] if m.fails else m.db.dead)
            res.known_hits["F-BTREE-RESTART"] = "B-tree index after a crash restart followed by a clean shutdown/reopen loads the stale pre-crash tree: " + why[:200]
    finally:
        m.close()


def run(res, replay=None):
    res.rule = ("histories of CREATE TABLE (SQL DDL, or catalog API with no index / skip list / B-tree per column), inserts, updates, deletes, committed and aborted explicit transactions, "
                "with 1-3 clean shutdown/reopen cycles interleaved with more work; after every reopen: rows and row ids unchanged, index-path and scan-path answers and raw index entries vs the reference; "
                "non-trivial = distinct history with >= 1 table and >= 1 cycle")
    res.trusted = COMMON_TRUSTED + ["python workload mirror (lib/workload.py)"]
    res.assumptions = ["B-tree indexes are exercised with clean restarts only here; crash followed by clean restart is the listed finding F-BTREE-RESTART"]
    go_ok = standard_build(res)
    if not go_ok:
        return
    rng = random.Random(res.seed)
    btree_probe(res)
    for d, w in big_txn_clean_restart(res, rng, 2400 if res.tier == "quick" else 7000):
        res.oracle_failures.append((d, w))
    for i in range(4 if res.tier == "quick" else 24):
        for d, w in page_reuse_history(rng, res):
            if len(res.oracle_failures) < 5:
                res.oracle_failures.append((d, w))
    n = 24 if res.tier == "quick" else 250
    for i in range(n):
        for d, w in history(rng, res, "nsb" if i % 3 else "ns"):
            if len(res.oracle_failures) < 5:
                res.oracle_failures.append((d, w))
