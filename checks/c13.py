"""C13 — buffer pool returns the latest bytes: theorems in coq/Props/C13.v over
coq/Model/Pool.v; correspondence on a real BufferPoolManager driven by a
contract-abiding client simulation (interactive harness), state compared after
every call, victim frames taken from the implementation and checked for
legality by the model."""
import random, subprocess
from vlib import *


class Harness:
    def __init__(self, sub):
        os.makedirs(os.path.join(BUILD, "tmp"), exist_ok=True)
        self.p = subprocess.Popen([HARNESS_BIN, sub, "-"], stdin=subprocess.PIPE, stdout=subprocess.PIPE,
                                  stderr=subprocess.DEVNULL, text=True, bufsize=1, cwd=os.path.join(BUILD, "tmp"))

    def ask(self, line):
        self.p.stdin.write(line + "\n")
        self.p.stdin.flush()
        r = self.p.stdout.readline()
        if not r:
            raise RuntimeError("harness died on %r" % line)
        return r.rstrip("\n")

    def close(self):
        try:
            self.p.stdin.close()
            self.p.wait(timeout=10)
        except Exception:
            self.p.kill()


def parse_frames(st):
    fr = st.split("|")[0]
    out = {}
    for i, e in enumerate(fr.split("/")):
        if e and e != "-" and e.count(",") == 4:
            pid, pin, dirty, dealloc, val = (int(x) for x in e.split(","))
            out.setdefault(pid, []).append((i, pin, dirty, dealloc, val))
    return out


def one_sequence(h, rng, poolsize, nops, allow_dealloc=True):
    """Drive one contract-abiding client history. Returns (ops, impl_results, failure or None)."""
    h.ask("# %d" % poolsize)
    pins, wrote, spec, never, dead = {}, set(), {}, set(), set()
    ops, results = [], []
    fail = None
    nextv = rng.randrange(1, 1000)
    for _ in range(nops):
        pinned = [p for p, c in pins.items() if c > 0]
        known = list(spec.keys())
        can_take = len(pinned) < poolsize - 1 if poolsize > 1 else len(pinned) < 1
        r = rng.random()
        op = None
        if (r < 0.18 or not known) and can_take:
            op = "N"
        elif r < 0.40 and known:
            cand = [p for p in known if p not in dead]
            if cand:
                p = rng.choice(cand)
                if pins.get(p, 0) > 0 or can_take:
                    op = "F %d" % p
        elif r < 0.58 and pinned:
            nextv += 1
            op = "W %d %d" % (rng.choice(pinned), nextv)
        elif r < 0.80 and pinned:
            p = rng.choice(pinned)
            d = 1 if p in wrote else rng.randrange(2)
            op = "U %d %d" % (p, d)
        elif r < 0.86 and known:
            op = "L %d" % rng.choice(known + [rng.randrange(0, 40)])
        elif r < 0.89:
            op = "A"
        elif r < 0.96 and known and allow_dealloc:
            op = "D %d %d" % (rng.choice(known), 1 if rng.random() < 0.8 else 0)
        elif pinned and allow_dealloc:
            op = "K %d" % rng.choice(pinned)
        if op is None:
            continue
        res = h.ask(op)
        ops.append(op)
        results.append(res)
        o = res.split("|")[0]
        f = op.split()
        if "locked" in res or o in ("panic", "hang", "bad", "?"):
            fail = "operation %d (%s): %s on a client history that keeps fewer pages pinned than the pool has frames" % (len(ops) - 1, op, o)
            break
        if f[0] == "N":
            if not o.startswith("new:"):
                fail = "operation %d: NewPage failed (%s) although a frame is available" % (len(ops) - 1, o); break
            pid = int(o[4:])
            if pid in spec or pins.get(pid, 0) > 0:
                fail = "operation %d: NewPage returned page id %d which is still in use" % (len(ops) - 1, pid); break
            spec[pid] = 0; never.add(pid); dead.discard(pid); pins[pid] = 1
        elif f[0] == "F":
            p = int(f[1])
            if o == "nil":
                if p not in never or pins.get(p, 0) > 0:
                    fail = "operation %d (%s): fetch returned nil for a page that was written" % (len(ops) - 1, op); break
            else:
                v = int(o.split(":")[1])
                if p in never:
                    spec[p] = v      # never written since allocation: its bytes are unspecified until the first write
                if v != spec[p]:
                    fail = "operation %d (%s): fetched bytes %d, latest written %d" % (len(ops) - 1, op, v, spec[p]); break
                pins[p] = pins.get(p, 0) + 1
        elif f[0] == "W":
            p = int(f[1]); spec[p] = int(f[2]); wrote.add(p); never.discard(p)
        elif f[0] == "U":
            p = int(f[1]); pins[p] -= 1
            if f[2] == "1":
                wrote.discard(p)
            if pins[p] == 0 and p in dead:
                spec.pop(p, None)
        elif f[0] == "D" and f[2] == "1":
            p = int(f[1]); dead.add(p)
            if pins.get(p, 0) == 0:
                spec.pop(p, None)
        elif f[0] == "K":
            dead.add(int(f[1]))
        # a page in use is never evicted or handed to another page id
        frames = parse_frames(res.split("|", 2)[2])
        for p, c in pins.items():
            if c > 0:
                fr = frames.get(p, [])
                if len(fr) != 1 or fr[0][1] != c:
                    fail = "operation %d (%s): page %d is pinned %d times by its users but the pool shows %s" % (len(ops) - 1, op, p, c, fr); break
                if fr[0][4] != spec.get(p, fr[0][4]):
                    fail = "operation %d (%s): pinned page %d holds %d, latest written %d" % (len(ops) - 1, op, p, fr[0][4], spec[p]); break
        if fail:
            break
        for p, l in frames.items():
            if len(l) > 1:
                fail = "operation %d (%s): page %d occupies two frames" % (len(ops) - 1, op, p); break
        if fail:
            break
    return ops, results, fail


def model_line(poolsize, ops, results):
    mops = []
    for op, res in zip(ops, results):
        f = op.split()
        parts = res.split("|")
        v = parts[1] if len(parts) > 1 and parts[1] != "-" else "0"
        if f[0] == "N":
            mops.append("N %s" % v)
        elif f[0] == "F":
            mops.append("F %s %s" % (f[1], v))
        else:
            mops.append(op)
    return "%d;%s" % (poolsize, ";".join(mops))


def impl_tokens(results):
    out = []
    for r in results:
        parts = r.split("|", 2)
        if len(parts) == 3 and parts[2] == "locked":
            out.append(parts[0] + "|locked")
        elif parts[0] == "hang":
            out.append("hang|")
        else:
            out.append(parts[0] + "|" + (parts[2] if len(parts) > 2 else ""))
    return out


# histories that used to fail on the pinned tree (fixed defects); run first
CORPUS = [
    # F-POOL-DEALLOC: stale frame of a deallocated page written back over a reused page id
    (2, ["N", "W 0 11", "U 0 1", "D 0 1", "N", "W 0 22", "N", "U 1 0", "U 0 1", "F 0"]),
    # F-POOL-READERR: fetch of a never-written, evicted page must not wedge the pool
    (1, ["N", "U 0 0", "N", "U 1 0", "F 0", "N"]),
]


def replay_fixed(h, poolsize, ops):
    h.ask("# %d" % poolsize)
    results = []
    for op in ops:
        results.append(h.ask(op))
    return results


def run(res, replay=None):
    res.rule = ("client histories that obey the pool's contract (write only while pinned, writers unpin dirty, no fetch of a deallocated id, fewer pinned pages than frames), "
                "pool sizes 1..6, 20-400 calls of new/fetch/write/unpin/flush/flush-all/deallocate(noWait or not)/mark-deallocated; "
                "after every call: returned bytes vs latest written, pinned pages resident exactly once with the users' pin count, new ids not in use, "
                "and the whole bookkeeping state vs the model (victim frame taken from the implementation, checked legal); "
                "non-trivial = distinct history in which a dirty page was cached out and fetched again; "
                "plus the engine's own pool users under eviction pressure: SQL joins and mirrored DML in pools of 12-64 frames compared with the reference, with the pool-user contract "
                "(a modified page is released dirty) monitored by hook H5 in every scripted session of every check")
    res.trusted = COMMON_TRUSTED + ["hook H3 (BufferPoolManager.VerifSnapshot/VerifTryLock)", "victim frame = input from the implementation, only its legality (member of the replacer, unpinned) is checked",
                                    "a page's 4096 bytes are represented by an 8-byte value stored at offset 64", "python client simulation and oracle (checks/c13.py)"]
    res.assumptions = ["VirtualDiskManagerImpl read semantics (pages beyond the highest written page cannot be read)", "calls are issued sequentially (the pool serialises callers with one mutex)"]
    go_ok = standard_build(res)
    if not go_ok:
        return
    rng = random.Random(res.seed)
    nseq = 300 if res.tier == "quick" else 4000
    h = Harness("c13")
    lines, impls = [], []
    try:
        if replay:
            rl = [l for l in open(replay).read().split("\n") if l and not l.startswith("#")]
            for l in rl:
                parts = l.split(";")
                ops = [x.strip() for x in parts[1:]]
                results = replay_fixed(h, int(parts[0]), ops)
                lines.append(model_line(int(parts[0]), ops, results)); impls.append(impl_tokens(results))
                bad = [r for r in results if r.split("|")[0] in ("panic", "hang")]
                if bad:
                    res.oracle_failures.append((l, "replayed history panics or hangs: %s" % bad[0]))
        else:
            for ps, ops in CORPUS:
                results = replay_fixed(h, ps, ops)
                lines.append(model_line(ps, ops, results)); impls.append(impl_tokens(results))
                res.note_case("%d;%s" % (ps, ";".join(ops)), True)
                if any(r.split("|")[0] in ("panic", "hang") or "locked" in r for r in results):
                    res.oracle_failures.append(("%d;%s" % (ps, ";".join(ops)), "corpus history (fixed defect) fails again: " + " ".join(r.split("|")[0] for r in results)))
                last = results[-1].split("|")[0]
                if ops[-1] == "F 0" and ps == 2 and last != "fetched:22":
                    res.oracle_failures.append(("%d;%s" % (ps, ";".join(ops)), "F-POOL-DEALLOC is back: fetch returned %s, latest written 22" % last))
            for i in range(nseq):
                ps = rng.choice([1, 2, 2, 3, 3, 4, 5, 6])
                ops, results, fail = one_sequence(h, rng, ps, rng.randrange(20, 400), allow_dealloc=(i % 3 != 0))
                case = "%d;%s" % (ps, ";".join(ops))
                evicted_refetch = False
                seen_dirty_evict = set()
                prev = {}
                for op, r in zip(ops, results):
                    fr = parse_frames(r.split("|", 2)[2]) if r.count("|") >= 2 else {}
                    for p, l in prev.items():
                        if l[0][2] == 1 and p not in fr:
                            seen_dirty_evict.add(p)
                    if op.startswith("F ") and int(op.split()[1]) in seen_dirty_evict and r.startswith("fetched"):
                        evicted_refetch = True
                    prev = fr
                res.note_case(case, evicted_refetch)
                lines.append(model_line(ps, ops, results)); impls.append(impl_tokens(results))
                if fail and len(res.oracle_failures) < 3:
                    res.oracle_failures.append((case, fail))
    finally:
        h.close()
    rc, out = run_model("c13_driver", "\n".join(lines) + "\n")
    model = out.split("\n")[:-1]
    if rc != 0 or len(model) != len(lines):
        res.broken.append("model driver failed (rc=%d): %s" % (rc, out[-300:]))
    else:
        nops = 0
        for l, it, m in zip(lines, impls, model):
            mt = m.split(" ")
            nops += len(it)
            if mt != it and len(res.mismatches) < 10:
                k = next((j for j in range(min(len(mt), len(it))) if mt[j] != it[j]), min(len(mt), len(it)))
                res.mismatches.append((l[:2000], "first difference at call %d: impl %s | model %s" % (k, it[k] if k < len(it) else "-", mt[k] if k < len(mt) else "-")))
        res.distribution = {"histories": len(lines), "calls": nops}
    res.samples = [lines[-1][:400]] if lines else []
    if not replay:
        # page-id allocation and reuse across restarts: extracted model (Model/PageAlloc.v, theorems of Props/C13Alloc.v) against a real
        # engine instance (lib/alloccorr.py, verifharness pagealloc) with an owner-tracking oracle; probes of the repaired
        # F-ALLOC-BEYOND-FILE (regression) and of the listed finding F-ALLOC-LOG-RACE
        # the replacer itself (Model/Clock.v, theorems of Props/C13Clock.v: it refines the membership set the pool model uses, and its
        # victim sequence is that of a first-in-first-out queue) against buffer.ClockReplacer, every answer and the whole ring compared
        # the file layer under the pool (Model/DiskFile.v, theorems of Props/C13Disk.v: read-after-write, holes, size, allocator start, log
        # file) against disk.DiskManagerImpl on real files
        import diskcorr
        diskcorr.run_corr(res, random.Random(res.seed * 7919 + 133), 40 if res.tier == "quick" else 600)
        import clockcorr
        clockcorr.run_corr(res, random.Random(res.seed * 7919 + 132), 300 if res.tier == "quick" else 5000)
        import alloccorr
        alloccorr.run_corr(res, random.Random(res.seed * 7919 + 131), 60 if res.tier == "quick" else 800)
        alloccorr.run_db_probe(res)
        alloccorr.run_race_probe(res)
        alloccorr.run_thread_probe(res)
        # several users on one small pool over a disk whose reads take time (harness/c13c.go): every fetch must return the bytes of the
        # last completed write of that page (per-page counters against a shadow array updated under the page latch)
        import subprocess
        rngc = random.Random(res.seed * 7919 + 13)
        for fr, npg, users, nops in [(6, 24, 4, 3000), (4, 12, 3, 2000), (10, 40, 8, 1500)] * (1 if res.tier == "quick" else 6):
            try:
                p = subprocess.run([HARNESS_BIN, "c13c", "-", str(fr), str(npg), str(users), str(nops), str(rngc.randrange(10**6)), "90"], capture_output=True, text=True, timeout=240,
                                   env=dict(os.environ, GOMAXPROCS=str(rngc.choice([4, 8, 16]))))
                cl = p.stdout.strip().split("\n")
            except subprocess.TimeoutExpired:
                cl = ["VIOLATION the concurrent pool workload did not finish"]
            if not any(l.startswith("DONE") for l in cl) and not any(l.startswith("VIOLATION") for l in cl):
                cl.append("VIOLATION the workload died: " + (p.stderr.strip().split("\n")[0][:200] if p.stderr else "no output"))
            res.note_case("c13c|%d|%d|%d|%d" % (fr, npg, users, len(res.extra.get("concurrent_pool_runs", []))), True)
            res.extra.setdefault("concurrent_pool_runs", []).append(cl[-1])
            for v in [l for l in cl if l.startswith("VIOLATION")][:2]:
                if len(res.oracle_failures) < 5:
                    res.oracle_failures.append(("verifharness c13c - %d %d %d %d <seed> 90" % (fr, npg, users, nops), "%d users on a %d-frame pool over %d pages, slow disk reads: %s" % (users, fr, npg, v[10:])))
        # the engine's own pool users under eviction pressure (lib/pressure.py) + contract monitor (hook H5, reported by vlib.finish)
        import pressure
        for fr in ([12, 20] if res.tier == "quick" else [10, 12, 16, 24, 40]):
            for d, w in pressure.tiny_pool_join(res, rng, fr):
                if len(res.oracle_failures) < 5:
                    res.oracle_failures.append((d, w))
        for fr in ([16, 32] if res.tier == "quick" else [14, 16, 20, 24, 32, 48, 64]):
            for d, w in pressure.small_pool_dml(res, rng, fr, 80 if res.tier == "quick" else 300):
                if len(res.oracle_failures) < 5:
                    res.oracle_failures.append((d, w))
