"""C06 — every supported single-table statement returns the reference answer.
Theorems in coq/Props/C06.v; the engine is driven through SQL text
(ExecuteSQLRetValues) on file-backed databases and every answer / resulting
table is compared with the extracted reference semantics (Model/SqlRef.v)."""
import random
from vlib import *
from dbsession import DB, Ref, canon_rows, scan_rows
from sqlgen import *

KINDS = {"sql": None}


def make_table(rng, db, ref, name, via_sql, log):
    ncols = rng.randrange(1, 6)
    types = [rng.choice("iifs") for _ in range(ncols)]
    names = ["c%d" % i for i in range(ncols)]
    if via_sql:
        tn = {"i": "int", "f": "float", "s": "varchar(255)"}
        r = db.sql("CREATE TABLE %s(%s);" % (name, ", ".join("%s %s" % (n, tn[t]) for n, t in zip(names, types))))
        kinds = ["s"] * ncols
    else:
        kinds = [rng.choice("nnsbu") if t != "s" or True else "n" for t in types]
        kinds = [k if not (k == "u") else rng.choice("ns") for k in kinds]   # unique index needs unique keys: not generated here
        r = db.cmd("mktable %s %s" % (name, ",".join("%s:%s:%s" % (n, t, k) for n, t, k in zip(names, types, kinds))))
    if not r.startswith("ok"):
        return None
    ref.cmd("T %s %d" % (name, ncols))
    return types, names, kinds


def insert_row(db, ref, name, names, vals, rng):
    toks = ",".join(v.tok() for v in vals)
    if all(v.kind != "n" and v.literal_ok() for v in vals) and rng.random() < 0.8:
        r = db.sql("INSERT INTO %s(%s) VALUES (%s);" % (name, ",".join(names), ", ".join(v.sql() for v in vals)))
    else:
        r = db.cmd("rawinsert %s %s" % (name, " ".join(v.tok() for v in vals)))
    if r.startswith("ok"):
        ref.cmd("R %s %s" % (name, toks))
    return r


def rnd_row(rng, types, kinds, nullable=True):
    vals = []
    for t, k in zip(types, kinds):
        # NULL in an indexed column is a separate known problem area (indexed under key 0); keep NULLs to non-indexed columns
        if nullable and k == "n" and rng.random() < 0.12:
            vals.append(Val("n"))
        elif rng.random() < 0.1:
            # values the literal forms cannot express
            if t == "i":
                vals.append(Val("i", rng.choice([-1, -5, -2**31 + 1])))
            elif t == "f":
                vals.append(Val("f", rng.choice([-1.5, -0.0, 1e-40])))
            else:
                vals.append(Val("s", rng.choice([b"it's", b"\x01\xff", b"x" * 200] if k != "b" else [b"it's", b"\x01\xff"])))
        else:
            v = rnd_val(rng, t, small=False)
            vals.append(for_index(v, t, k))   # B-tree keys: strings up to 24 bytes, integers below 2147418112 (F-BTREE-STOPPER)
    return vals


def one_table(rng, tier, res, idx):
    """Returns list of (description, why) failures."""
    fails = []
    db, ref = DB(mem_kb=rng.choice([200, 400, 1200])), Ref()
    try:
        if not db.open().startswith("ok"):
            return [("open", "database does not start: " + str(db.dead))]
        made = make_table(rng, db, ref, "t", via_sql=(idx % 2 == 0), log=None)
        if made is None:
            return [("create table", "CREATE TABLE failed")]
        types, names, kinds = made
        nrows = rng.choice([0, 1, 5, 20, 60]) if idx % 5 else 400   # 400 rows of varchar -> multi-page table
        for _ in range(nrows):
            vals = rnd_row(rng, types, kinds)
            if rng.random() < 0.2 and nrows > 3:
                pass
            r = insert_row(db, ref, "t", names, vals, rng)
            if not r.startswith("ok"):
                fails.append(("insert %s" % [v.tok() for v in vals], "INSERT failed: %s" % r))
                return fails
        nstmt = 40 if tier == "quick" else 120
        for k in range(nstmt):
            kind = rng.random()
            if kind < 0.45:
                focus = rng.randrange(len(types))
                p = rnd_conj(rng, types, rng.randrange(1, 5), focus)
            else:
                p = rnd_pred(rng, types, rng.randrange(0, 3))
            if not all(l.val.literal_ok() for l in p.leaves()):
                continue
            where = p.sql(names)
            where_sel = where
            if rng.random() < 0.35 and not has_or(p):
                # some comparisons written constant-first (5 < t.c0): a form only the optimizer's path (SELECT, conjunctions) supports;
                # with OR, and in UPDATE / DELETE, the planner's processPredicateTreeNode takes the left operand for a column name
                flip_some(rng, p, 0.4)
                where_sel = p.sql(Names(names, "t"))
            if kind < 0.80 or True:
                pass
            what = rng.random()
            if what < 0.78:
                cols = rng.sample(range(len(types)), rng.randrange(1, len(types) + 1))
                sql = "SELECT %s FROM t WHERE %s;" % (",".join(names[c] for c in cols), where_sel)
                got = canon_rows(db.sql(sql))
                want = ref.cmd("S t %s %s" % (",".join(map(str, cols)), p.rpn()))
                nontriv = sum(1 for l in p.leaves() if kinds[l.col] != "n") >= 2
                res.note_case("%s|%s|%s" % (",".join(types), ",".join(kinds), sql), nontriv)
                res.extra["statements"]["select"] += 1
                if len(res.extra.setdefault("sample_statements", [])) < 6 and nontriv:
                    res.extra["sample_statements"].append("types=%s index=%s: %s => %s" % (",".join(types), ",".join(kinds), sql, got[:160]))
                if got != want:
                    fails.append((sql, "SELECT answer differs from the reference: engine %s | reference %s" % (got[:300], want[:300])))
            elif what < 0.90:
                ncol = rng.randrange(1, len(types) + 1)
                cs = rng.sample(range(len(types)), ncol)
                asg = [(c, rnd_val(rng, types[c])) for c in cs]
                if not all(v.literal_ok() for _, v in asg):
                    continue
                sql = "UPDATE t SET %s WHERE %s;" % (", ".join("%s = %s" % (names[c], v.sql()) for c, v in asg), where)
                r = db.sql(sql)
                ref.cmd("U t %s %s" % (",".join("%d=%s" % (c, v.tok()) for c, v in asg), p.rpn()))
                got, want = scan_rows(db.cmd("scan t")), ref.cmd("C t")
                res.note_case("%s|%s|%s" % (",".join(types), ",".join(kinds), sql), True)
                res.extra["statements"]["update"] += 1
                if not r.startswith("ok") or got != want:
                    fails.append((sql, "UPDATE (%s): table differs from the reference afterwards: engine %s | reference %s" % (r[:60], got[:300], want[:300])))
            else:
                sql = "DELETE FROM t WHERE %s;" % where
                r = db.sql(sql)
                ref.cmd("D t %s" % p.rpn())
                got, want = scan_rows(db.cmd("scan t")), ref.cmd("C t")
                res.note_case("%s|%s|%s" % (",".join(types), ",".join(kinds), sql), True)
                res.extra["statements"]["delete"] += 1
                if not r.startswith("ok") or got != want:
                    fails.append((sql, "DELETE (%s): table differs from the reference afterwards: engine %s | reference %s" % (r[:60], got[:300], want[:300])))
            if db.dead or len(fails) >= 3:
                break
        if db.dead:
            fails.append((db.log[-1], "engine stopped answering: " + db.dead))
    finally:
        if fails:
            fails = [(("# session (commands sent to `verifharness db`):\n" + "\n".join(db.log[-4000:]) + "\n# failing statement: " + d), w) for d, w in fails]
        db.destroy()
        ref.close()
    return fails


def range_compare_cases(rng, n):
    """cases for the Range.Update / Value.Compare* correspondence (harness/c06range.go vs the extracted Model/Query.v)"""
    import struct
    def fb(x):
        return struct.unpack("<I", struct.pack("<f", x))[0]
    ints = [0, 1, -1, 5, 7, 2**31 - 1, -2**31, 2**31 - 2, -2**31 + 1, 100]
    flts = [fb(x) for x in (0.0, -0.0, 1.5, -1.5, 3.4028234663852886e38, -3.4028234663852886e38, float("inf"), float("-inf"), 1e-40, 2.0)] + [0x7fc00000]
    strs = [b"", b"a", b"ab", b"S", b"T", b"SamehadaDBInfMaxValue", b"SamehadaDBInfMinValue", b"SamehadaDBInfMaxValue!", b"SamehadaDBInfMa", b"z", b"A"]
    def val(ty, allow_null=True):
        if allow_null and rng.random() < 0.05:
            return "n"
        if ty == "i":
            return "i:%d" % (rng.choice(ints) if rng.random() < 0.7 else rng.randrange(-2**31, 2**31))
        if ty == "f":
            return "f:%d" % (rng.choice(flts) if rng.random() < 0.7 else rng.randrange(0, 2**32))
        v = rng.choice(strs)
        return "s:" + (v.hex() if v else "-")
    out = []
    for _ in range(n):
        ty = rng.choice("ifs")
        if rng.random() < 0.5:
            items = ["%s,%s,%s" % (rng.choice(["eq", "ne", "gt", "ge", "lt", "le"]), val(ty, False), rng.choice("RL")) for _ in range(rng.randrange(1, 7))]
            out.append("R %s %s" % (ty, " ".join(items)))
        else:
            out.append("C %s %s %s" % (ty, val(ty), val(ty)))
    return out


def null_operand_cases(res):
    """every comparison operator against a column that holds NULLs, written column-first and constant-first, through the optimizer's
    path (conjunction) and the plain path (OR): a comparison with NULL on either side selects nothing"""
    db = DB()
    try:
        if not db.open().startswith("ok"):
            return
        db.cmd("mktable nt k:i:s,v:i:n,w:s:n")
        rows = [(1, 5, "a"), (2, None, "b"), (3, 0, None), (4, None, None), (5, 9, "")]
        for k, v, w in rows:
            db.cmd("rawinsert nt i:%d %s %s" % (k, "n" if v is None else "i:%d" % v, "n" if w is None else "s:" + (w.encode().hex() or "-")))
        import operator
        ops = {"=": operator.eq, "<>": operator.ne, "<": operator.lt, "<=": operator.le, ">": operator.gt, ">=": operator.ge}
        mirror = {"=": "=", "<>": "<>", "<": ">", "<=": ">=", ">": "<", ">=": "<="}
        for col, lit, pyv, idx in (("v", "1", 1, 1), ("v", "0", 0, 1), ("w", "'a'", "a", 2), ("w", "''", "", 2)):
            for op, f in ops.items():
                want = "ok:" + ";".join(sorted("i:%d" % r[0] for r in rows if r[idx] is not None and f(r[idx], pyv)))
                if op == "<>":
                    continue      # <> with NULL: the engine's documented choice differs (NULL <> x is true); not judged here
                for form, sql in (("column-first", "SELECT k FROM nt WHERE k >= 0 AND nt.%s %s %s;" % (col, op, lit)),
                                  ("constant-first", "SELECT k FROM nt WHERE k >= 0 AND %s %s nt.%s;" % (lit, mirror[op], col))):
                    got = canon_rows(db.sql(sql))
                    res.evaluations += 1
                    res.note_case("null-operand|%s|%s|%s" % (col, op, form), True)
                    if got != want and len(res.oracle_failures) < 5:
                        res.oracle_failures.append(("# table nt(k int indexed, v int, w varchar), rows (1,5,'a') (2,NULL,'b') (3,0,NULL) (4,NULL,NULL) (5,9,'') stored through the plan-level API\n" + sql,
                                                    "comparison against a column holding NULLs (%s): engine %s | reference %s" % (form, got, want)))
    finally:
        db.destroy()


def known_probes(res):
    """replay the witnesses of the listed known findings; print KNOWN-FINDING while they still fail"""
    db = DB()
    try:
        if not db.open().startswith("ok"):
            return
        db.sql("CREATE TABLE p(id int, name varchar(255));")
        for i, n in enumerate(["alice", "Bob", "Tom", "Sz", "SamehadaDBInfMaxValue"]):
            db.sql("INSERT INTO p(id,name) VALUES (%d, '%s');" % (i + 1, n))
        got = canon_rows(db.sql("SELECT id FROM p WHERE name < 'SamehadaDBInfMaxValue' OR name < 'SamehadaDBInfMaxValue';"))
        if got != "ok:i:2":
            res.known_hits["F-SENTINEL"] = ("comparison with a value equal to a 'no bound' marker (here the string 'SamehadaDBInfMaxValue') treats it as infinity: "
                                            "SELECT id FROM p WHERE name < 'SamehadaDBInfMaxValue' returns %s, reference i:2" % got)
        db.cmd("mktable q a:i:s,b:i:n")
        db.cmd("rawinsert q n i:1")
        db.cmd("rawinsert q i:5 i:2")
        db.cmd("rawinsert q i:0 i:3")
        db.cmd("stats")
        got = db.sql("SELECT b FROM q WHERE a = 0;")
        if got != "ok:i:3":
            res.known_hits["F-NULL-KEY"] = ("a NULL in an indexed column is indexed under the type's zero value; an index scan for that value reaches the NULL row's entry and the statement is aborted: "
                                            "rows (NULL,1) (5,2) (0,3): SELECT b FROM q WHERE a = 0 answers %s, reference: i:3" % got[:60])
    finally:
        db.destroy()
    # a row that does not fit into an empty page: TableHeap.InsertTuple walks / allocates pages forever (Props/C14Heap.v:
    # insert_oversize_never_returns).  The statement is given 1.2 s, then the process is killed and its files removed.
    db = DB(mem_kb=4000)
    try:
        if db.open().startswith("ok"):
            ncol = 18
            db.sql("CREATE TABLE wide(%s);" % ", ".join("c%d varchar(255)" % i for i in range(ncol)))
            ok_small = db.sql("INSERT INTO wide(%s) VALUES (%s);" % (",".join("c%d" % i for i in range(ncol)), ", ".join("'s'" for _ in range(ncol))))
            r = db.cmd("sql INSERT INTO wide(%s) VALUES (%s);" % (",".join("c%d" % i for i in range(ncol)), ", ".join("'%s'" % ("x" * 240) for _ in range(ncol))), timeout=1.2)
            if ok_small.startswith("ok") and db.dead:
                res.known_hits["F-ROW-TOO-LARGE"] = ("an INSERT whose row is larger than a page can hold (18 varchar(255) columns with 240-character values: 4.4 KB) never returns: "
                                                     "the table heap keeps allocating and linking new pages (the db file grows by tens of MB per second)")
    finally:
        db.destroy()


def run(res, replay=None):
    res.rule = ("random schemas of 1-5 columns over int/float/varchar, created by SQL CREATE TABLE (skip-list index on every column) or through the catalog API "
                "(no index / skip list / B-tree per column); 0-400 rows incl. duplicates, NULLs, boundary values and values stored through the plan-level API; "
                "SELECT/UPDATE/DELETE with predicates from =,<>,<,<=,>,>= joined by AND/OR incl. redundant, overlapping and contradictory bounds on one column; "
                "every answer and every resulting table compared with the extracted reference semantics; "
                "non-trivial = distinct statement with >= 2 comparisons on indexed columns, or any UPDATE/DELETE")
    res.trusted = COMMON_TRUSTED + ["SQL text and the RPN given to the reference are rendered from the same python predicate object (lib/sqlgen.py)"]
    res.assumptions = ["literals are the forms the front end accepts: non-negative integers, plain decimals, quoted strings without quotes; other values are stored through the plan-level API",
                       "hash indexes are not reachable from SQL DDL and are excluded (the optimizer plans a range scan over them and dereferences nil)"]
    res.extra["statements"] = {"select": 0, "update": 0, "delete": 0}
    go_ok = standard_build(res)
    if not go_ok:
        return
    rng = random.Random(res.seed)
    # (a) Range.Update / Compare* : extracted model vs the real functions
    rc_cases = range_compare_cases(rng, 4000 if res.tier == "quick" else 60000)
    text = "\n".join(rc_cases) + "\n"
    rc1, out1 = run_harness("c06range", text)
    rc2, out2 = run_model("c06range_driver", text)
    a, b = out1.split("\n")[:-1], out2.split("\n")[:-1]
    if rc1 != 0 or rc2 != 0 or len(a) != len(rc_cases) or len(b) != len(rc_cases):
        res.broken.append("range/compare correspondence could not run (rc %d/%d, %d/%d lines)" % (rc1, rc2, len(a), len(b)))
    else:
        for c, x, y in zip(rc_cases, a, b):
            res.note_case(c, c[0] == "R" and c.count(",") >= 6)
            if x != y and len(res.mismatches) < 10:
                res.mismatches.append((c, "Range/Compare: implementation %s | model %s" % (x, y)))
    res.extra["range_compare_cases"] = len(rc_cases)
    # (a') the row codec (Model/TupleCodec.v, theorems of Props/C06Tuple.v) against tuple.NewTupleFromSchema / GetValue / GetValueInBytes:
    # bytes, Size() and every column read back, for random schemas and rows (lib/tuplecorr.py, verifharness tuplecodec)
    import tuplecorr
    tuplecorr.run_corr(res, random.Random(res.seed * 7919 + 6), 300 if res.tier == "quick" else 4000)
    # (b) the listed known findings are replayed
    known_probes(res)
    null_operand_cases(res)
    import btreeprobe
    res.oracle_failures.extend(btreeprobe.probe(res, sql=True))
    ntab = 60 if res.tier == "quick" else 600
    for i in range(ntab):
        for d, w in one_table(rng, res.tier, res, i):
            if len(res.oracle_failures) < 5:
                res.oracle_failures.append((d, w))
    res.samples = res.extra.pop("sample_statements", ["(none)"])[:6]
