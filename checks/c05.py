"""C05 — committed transactions are serialisable on the rows they touch.
Same machinery as C04 with read-modify-write programs over overlapping rows;
the oracle is the serial execution of the committed transactions in commit
order (every read and the final table)."""
import c04


def run(res, replay=None):
    c04.run(res, replay=replay, mode="rmw", prop="C05")
