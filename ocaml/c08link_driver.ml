(* C08 (supplement) — write-ahead discipline for the successor link of a table page, checked on
   an I/O trace (hook H1) that starts at the creation of the database.
   Input (stdin, one event per line; several traces separated by a line "END"):
     P <pid> <hex of the 4096-byte page image>     WritePage
     L <hex>                                       WriteLog ("L" alone or "L -": empty write)
     G                                             GCLogFile
     M <text>                                      harness markers (ignored: not I/O events)
   Output, one line per trace:
     link_ok=1 pagewrites=<n> linked_pagewrites=<n>
     link_ok=0 event=<i> page=<p> next=<q>
   where pagewrites counts the P lines, linked_pagewrites the writes of table pages that carry
   a successor link (the writes the rule has something to say about; extracted [link_checked]),
   and event is the 0-based index among the P/L/G lines of the first offending page write.
   The only trusted glue is hex -> byte list and bytes 12..16 of a page image -> next
   (int32 little endian; negative = no successor); log parsing and the check are the
   extracted Coq [link_ok] / [link_first_violation].
   With the argument "own-id" an image counts as carrying a link only if it is an initialised
   page image, i.e. its own page-id field (int32 at offset 0) is the id it is written under
   (redo writes an all-zero placeholder image for a page that never reached the file:
   lib/recovery/log_recovery/log_recovery.go Redo, NewTablePage branch; read literally its
   "link" is page 0).  Without the argument every image is read literally, as the python
   oracle crashlib.link_discipline does. *)
open Sdbmodel
open Util

let hexval (c : char) : int =
  match c with
  | '0'..'9' -> Char.code c - 48
  | 'a'..'f' -> Char.code c - 87
  | 'A'..'F' -> Char.code c - 55
  | _ -> failwith "bad hex digit"

let byte_at (h : string) (i : int) : int = hexval h.[2*i] * 16 + hexval h.[2*i+1]

(* small table of the 256 byte values as extracted N *)
let ntab : n array = Array.init 256 n_of_int

let bytes_of_hex_fast (h : string) : n list =
  if h = "-" then []
  else begin
    let n = String.length h / 2 in
    let acc = ref [] in
    for i = n - 1 downto 0 do acc := ntab.(byte_at h i) :: !acc done;
    !acc
  end

(* the successor link of a table-page image: int32 LE at byte offset 12 *)
let own_id = Array.length Sys.argv > 1 && Sys.argv.(1) = "own-id"

let word_at (h : string) (o : int) : int =
  byte_at h o lor (byte_at h (o+1) lsl 8) lor (byte_at h (o+2) lsl 16) lor (byte_at h (o+3) lsl 24)

let next_of_page (pid : int) (h : string) : n option =
  if String.length h < 32 then None
  else if word_at h 0 <> pid then None   (* not an initialised image of this page: redo's all-zero placeholder, or another page's bytes *)
  else if word_at h 4 = 0 && word_at h 8 = 0 && word_at h 12 = 0 && word_at h 16 = 0 && word_at h 20 = 0 then None   (* placeholder of page 0 *)
  else begin
    let v = byte_at h 12 lor (byte_at h 13 lsl 8) lor (byte_at h 14 lsl 16) lor (byte_at h 15 lsl 24) in
    if v land 0x80000000 <> 0 then None else Some (n_of_int v)
  end

let rec int_of_nat_tr (acc : int) (x : nat) : int =
  match x with O -> acc | S y -> int_of_nat_tr (acc + 1) y

let () =
  let evs = ref [] and nev = ref 0 and npage = ref 0 in
  let finish () =
    if !nev > 0 then begin
      let tr = List.rev !evs in
      (* [link_ok] is the proved checker; [link_first_violation] only words the error message *)
      (if link_ok tr then
         Printf.printf "link_ok=1 pagewrites=%d linked_pagewrites=%d\n" !npage (int_of_n (link_checked tr))
       else match link_first_violation tr with
         | Some ((idx, p), q) ->
           Printf.printf "link_ok=0 event=%d page=%d next=%d\n" (int_of_nat_tr 0 idx) (int_of_n p) (int_of_n q)
         | None -> Printf.printf "link_ok=0 event=? page=? next=?\n");
      flush stdout
    end;
    evs := []; nev := 0; npage := 0 in
  let push e = evs := e :: !evs; incr nev in
  iter_lines (fun line ->
    match fields line with
    | "END" :: _ -> finish ()
    | "P" :: pid :: h :: _ -> incr npage; let p = int_of_string pid in push (LPage (n_of_int p, next_of_page p h))
    | "P" :: pid :: [] -> incr npage; push (LPage (n_of_int (int_of_string pid), None))
    | "L" :: rest -> push (LLog (match rest with h :: _ -> bytes_of_hex_fast h | [] -> []))
    | "G" :: _ -> push LTrunc
    | _ -> ());
  finish ()
