(* Model side of the file-layer correspondence (coq/Model/DiskFile.v against disk.DiskManagerImpl,
   harness/diskfile.go, lib/diskcorr.py).  Same line protocol as `verifharness diskfile`, one answer per input line:
     mk <name> <npages> <taillen> <seed> -> ok     (dm_mk: the files as found on disk, log file empty)
     open <name> -> ok   (dm_open of the stored files, dm_empty when unknown)      close -> ok
     w <pageid> <seed> -> ok          r <pageid> -> bytes <digest> | err past | err read
     size -> <n>    alloc -> <id>     wl <n> <seed> -> ok
     rl <off> <len> -> ok <digest> <readBytes> | eof 0        lsize -> <n>        gc -> ok
   commands on a closed manager -> bad *)
open Sdbmodel
open Util

let () =
  let files : (string, dm) Hashtbl.t = Hashtbl.create 16 in
  let cur = ref None in
  let say s = print_string s; print_char '\n'; flush stdout in
  let i = int_of_string in
  iter_lines (fun line ->
    match fields (String.trim line) with
    | [] -> ()
    | ["mk"; name; np; tl; seed] ->
      (match !cur with
       | Some _ -> say "bad"
       | None ->
         let np = i np and tl = i tl and seed = i seed in
         let pages = List.init np (fun k -> row_bytes 4096 (seed + k)) in
         Hashtbl.replace files name (dm_mk pages (row_bytes tl (seed + np)) []); say "ok")
    | ["open"; name] ->
      (match !cur with
       | Some _ -> say "bad"
       | None ->
         let d = try Hashtbl.find files name with Not_found -> dm_empty in
         cur := Some (name, dm_open d); say "ok")
    | f ->
      (match !cur with
       | None -> say "bad"
       | Some (name, d) ->
         let set d' = cur := Some (name, d') in
         (match f with
          | ["close"] -> Hashtbl.replace files name d; cur := None; say "ok"
          | ["w"; p; seed] -> set (dm_write_page d (nat_of_int (i p)) (row_bytes 4096 (i seed))); say "ok"
          | ["r"; p] ->
            (match dm_read_page d (nat_of_int (i p)) with
             | DmABytes l -> say ("bytes " ^ digest l)
             | DmAErrPast -> say "err past"
             | DmAErrRead -> say "err read"
             | _ -> say "undef")
          | ["size"] -> say (string_of_int (int_of_n (dm_size d)))
          | ["alloc"] -> let (d', id) = dm_allocate d in set d'; say (string_of_int (int_of_nat id))
          | ["wl"; n; seed] -> set (dm_write_log d (row_bytes (i n) (i seed))); say "ok"
          | ["rl"; off; len] ->
            let (d', a) = dm_read_log d (nat_of_int (i off)) (nat_of_int (i len)) in
            set d';
            (match a with
             | DmALog (true, l) -> say (Printf.sprintf "ok %s %d" (digest l) (List.length l))
             | DmALog (false, _) -> say "eof 0"
             | _ -> say "undef")
          | ["lsize"] -> say (string_of_int (int_of_n (dm_log_size d)))
          | ["gc"] -> set (dm_gc_log d); say "ok"
          | _ -> say "bad")))
