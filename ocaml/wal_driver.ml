(* Model side of the recovery correspondence (C01/C02/C20/C09).
   Input (lines):   LOG <hex>            durable log bytes of the crash image
                    PAGE <pid> <hex>     a table page as found in the db file of the image (4096 bytes)
                    GOT <pid> <hex>      the same page as written by the engine's recovery (before it truncates the log)
                    CHECK                evaluate; prints one line
   Output: "flags log_ok=.. chains_ok=.. strict_ok=.. disk_ok=.. no_loser_apply=.. losers=n | mismatches: pid.slot model=<..> engine=<..> ; ..."
   Parsing of log bytes and page bytes is trusted glue; the page content is obtained with the extracted [abs]. *)
open Sdbmodel
open Util

let le32 (s : string) (o : int) : int =
  Char.code s.[o] lor (Char.code s.[o+1] lsl 8) lor (Char.code s.[o+2] lsl 16) lor (Char.code s.[o+3] lsl 24)
let le32s s o = let v = le32 s o in if v >= 0x80000000 then v - 0x100000000 else v

let raw_of_hex (h : string) : string =
  String.init (String.length h / 2) (fun i -> Char.chr (int_of_string ("0x" ^ String.sub h (2*i) 2)))

let bytes_sub (s : string) (o : int) (n : int) : n list =
  List.init n (fun i -> n_of_int (Char.code s.[o + i]))

let parse_log (s : string) : lrec list =
  let rec go off acc =
    if off + 20 > String.length s then List.rev acc
    else
      let size = le32s s off in
      if size < 20 || off + size > String.length s then List.rev acc
      else begin
        let lsn = le32s s (off+4) and txn = le32s s (off+8) and prev = le32s s (off+12) and typ = le32s s (off+16) in
        let rid () = (n_of_int (le32 s (off+20)), n_of_int (le32 s (off+24))) in
        let tup o = let n = le32 s o in bytes_sub s (o+4) n, n in
        let kind =
          match typ with
          | 1 -> let (p, sl) = rid () in let (b, _) = tup (off+28) in KInsert (p, sl, b)
          | 2 -> let (p, sl) = rid () in KMark (p, sl)
          | 3 -> let (p, sl) = rid () in let (b, _) = tup (off+28) in KApply (p, sl, b)
          | 4 -> let (p, sl) = rid () in KRollback (p, sl)
          | 5 -> let (p, sl) = rid () in
                 let (o, n) = tup (off+28) in
                 let (nw, _) = tup (off+28+4+n) in KUpdate (p, sl, o, nw)
          | 6 -> KBegin | 7 -> KCommit | 8 -> KAbort
          | 9 -> KNewPage (n_of_int (le32 s (off+20)), n_of_int (le32 s (off+24)))
          | _ -> KOther in
        let r = { l_lsn = n_of_int (max lsn 0); l_txn = n_of_int (max txn 0);
                  l_prev = (if prev < 0 then None else Some (n_of_int prev)); l_kind = kind } in
        go (off + size) (r :: acc)
      end in
  go 0 []

let parse_page (s : string) : apage =
  let fsp = le32 s 16 and cnt = le32 s 20 in
  let slots = List.init cnt (fun i -> (n_of_int (le32 s (24 + 8*i)), n_of_int (le32 s (28 + 8*i)))) in
  let data = if fsp <= 4096 then bytes_sub s fsp (4096 - fsp) else [] in
  { plsn = n_of_int (le32 s 4); pslots = abs { fsp = n_of_int fsp; slots = slots; data = data } }

let show_entry (e : aentry) : string =
  match e with
  | None -> "-"
  | Some (b, m) -> (if m then "M" else "") ^ digest b

let b2s b = if b then "1" else "0"

let () =
  let log = ref [] and disk = ref [] and got = ref [] in
  iter_lines (fun line ->
    match fields line with
    | "LOG" :: h :: _ -> log := parse_log (raw_of_hex h)
    | "LOG" :: [] -> log := []
    | "PAGE" :: pid :: h :: _ -> disk := (n_of_int (int_of_string pid), parse_page (raw_of_hex h)) :: !disk
    | "GOT" :: pid :: h :: _ -> got := (int_of_string pid, parse_page (raw_of_hex h)) :: !got
    | "CHECK" :: _ ->
      let l = scope !log in
      let ls = losers l in
      let rec_pages = recover l ls (List.rev !disk) in
      let mism = List.concat_map (fun (pid, (g : apage)) ->
        let m = get_page rec_pages (n_of_int pid) in
        let n = max (List.length m.pslots) (List.length g.pslots) in
        List.filter_map (fun i ->
          let a = (match List.nth_opt m.pslots i with Some e -> e | None -> None)
          and b = (match List.nth_opt g.pslots i with Some e -> e | None -> None) in
          if a <> b then Some (Printf.sprintf "%d.%d model=%s engine=%s" pid i (show_entry a) (show_entry b)) else None)
          (List.init n (fun i -> i))) (List.rev !got) in
      (* the committed-state characterisation evaluated on the engine's pages *)
      let cmism = List.concat_map (fun (pid, (g : apage)) ->
        List.filter_map (fun i ->
          let want = committed_val l (n_of_int pid) (n_of_int i) in
          let have = (match List.nth_opt g.pslots i with Some e -> e | None -> None) in
          if want <> have then Some (Printf.sprintf "%d.%d committed=%s engine=%s" pid i (show_entry want) (show_entry have)) else None)
          (List.init (List.length g.pslots + 2) (fun i -> i))) (List.rev !got) in
      Printf.printf "flags image_wf=%s log_ok=%s chains_ok=%s strict_ok=%s disk_ok=%s no_loser_apply=%s fresh_pages_ok=%s restart_ops_ok=%s losers=%d records=%d | model-vs-engine: %s | committed-vs-engine: %s\n"
        (b2s (image_wf l (List.rev !disk))) (b2s (log_ok l)) (b2s (chains_ok l)) (b2s (strict_ok l)) (b2s (disk_ok l (List.rev !disk))) (b2s (no_loser_apply l)) (b2s (fresh_pages_ok l []))
        (b2s (List.for_all out_ok (recover_outs l ls (List.rev !disk))))
        (List.length ls) (List.length l)
        (String.concat " ; " mism) (String.concat " ; " cmism);
      flush stdout;
      log := []; disk := []; got := []
    | _ -> ())
