(* Model side of the C06 range/compare correspondence (coq/Model/Query.v).
   Case lines as documented in harness/c06range.go. *)
open Sdbmodel
open Util

let ty_of = function "i" -> TInt | "f" -> TFloat | _ -> TStr

let val_of (s : string) : value =
  if s = "n" then VNull
  else
    let body = String.sub s 2 (String.length s - 2) in
    match s.[0] with
    | 'i' -> VInt (z_of_int (int_of_string body))
    | 'f' -> VFloat (n_of_int (int_of_string body))
    | _ -> VStr (bytes_of_hex body)

let fmt_val (v : value) : string =
  match v with
  | VNull -> "n"
  | VInt z -> Printf.sprintf "i:%d" (int_of_z z)
  | VFloat u -> Printf.sprintf "f:%d" (int_of_n u)
  | VStr s -> "s:" ^ hex_of_bytes s

let b01 b = if b then "1" else "0"

let range_str (r : range) : string =
  String.concat "|" [fmt_val r.rmin; fmt_val r.rmax; b01 r.rmin_inc; b01 r.rmax_inc; b01 (range_empty r)]

let op_of = function
  | "eq" -> OEq | "ne" -> ONe | "gt" -> OGt | "ge" -> OGe | "lt" -> OLt | "le" -> OLe
  | _ -> failwith "bad op"

let () =
  iter_lines (fun line ->
    match fields line with
    | "R" :: ty :: items ->
      let r = ref (new_range (ty_of ty)) in
      let outs = ref [range_str !r] in
      List.iter (fun item ->
        match String.split_on_char ',' item with
        | [o; l; d] ->
          r := range_update (op_of o) (val_of l) (if d = "L" then DirLeft else DirRight) !r;
          outs := range_str !r :: !outs
        | _ -> failwith "bad item") items;
      print_endline (String.concat " " (List.rev !outs))
    | ["C"; _; v; r] ->
      let v = val_of v and r = val_of r in
      print_endline (String.concat "" (
        List.map (fun o -> b01 (cv_cmp o v r)) [OEq; ONe; OGt; OGe; OLt; OLe]
        @ [b01 (cv_is_inf_max v); b01 (cv_is_inf_min v)]))
    | _ -> ())
