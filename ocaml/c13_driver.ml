(* Model side of the C13/C14 correspondence (buffer pool).
   case line: "<poolsize>;op;op..." with ops
   N v | F p v | W p val | U p d | L p | A | D p nw | K p   (v = victim frame reported by the implementation) *)
open Sdbmodel
open Util

let b2i b = if b then 1 else 0

let show_state (b : pool) : string =
  let fr = List.map (fun f -> match f with
    | None -> "-"
    | Some f -> Printf.sprintf "%d,%d,%d,%d,%d" (int_of_n f.f_pid) (int_of_z f.f_pin) (b2i f.f_dirty) (b2i f.f_dealloc) (int_of_n f.f_val)) b.frames in
  let pt = List.sort compare (List.map (fun (k, v) -> (int_of_n k, int_of_n v)) b.ptable) in
  let ints l = String.concat "," (List.map (fun x -> string_of_int (int_of_n x)) l) in
  Printf.sprintf "%s|%s|%s|%s|%s" (String.concat "/" fr)
    (String.concat "/" (List.map (fun (k, v) -> Printf.sprintf "%d:%d" k v) pt))
    (ints b.freel)
    (String.concat "," (List.map string_of_int (List.sort compare (List.map int_of_n b.repl))))
    (ints b.reusable)

let show_out (o : bout) : string =
  match o with
  | BONew p -> Printf.sprintf "new:%d" (int_of_n p)
  | BOFetched v -> Printf.sprintf "fetched:%d" (int_of_n v)
  | BONil -> "nil" | BOOk -> "ok" | BOFalse -> "false" | BOPanic -> "panic" | BOHang -> "hang" | BOBad -> "bad"

let () =
  iter_lines (fun line ->
    match List.map String.trim (String.split_on_char ';' line) with
    | [] | [""] -> ()
    | n :: ops ->
      let st = ref (binit (nat_of_int (int_of_string n))) in
      let i s = n_of_int (int_of_string s) in
      let outs = List.filter_map (fun op ->
        match fields op with
        | [] -> None
        | f ->
          let o = match f with
            | "N" :: v :: _ -> BNew (i v)
            | "F" :: p :: v :: _ -> BFetch (i p, i v)
            | "W" :: p :: v :: _ -> BWrite (i p, i v)
            | "U" :: p :: d :: _ -> BUnpin (i p, d = "1")
            | "L" :: p :: _ -> BFlush (i p)
            | "A" :: _ -> BFlushAll
            | "D" :: p :: nw :: _ -> BDealloc (i p, nw = "1")
            | "K" :: p :: _ -> BMarkDealloc (i p)
            | _ -> failwith "bad op" in
          let was_locked = !st.locked in
          let (s', out) = bstep !st o in
          st := s';
          Some (if was_locked then "hang|" else if s'.locked then show_out out ^ "|locked" else show_out out ^ "|" ^ show_state s')) ops in
      print_endline (String.concat " " outs))
